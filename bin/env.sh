# sourced by bin/setup and bin/check
export GOFLAGS=-mod=mod GOPROXY=off GOSUMDB=off GOTOOLCHAIN=local
export VERIF_ROOT="$(cd "$(dirname "${BASH_SOURCE[0]}")/.." && pwd)"
export WORK="$VERIF_ROOT/.work"
mkdir -p "$WORK/bin"

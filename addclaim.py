#!/usr/bin/env python3
# usage: addclaim.py ID "text" "note" "technique"  -- moves ID from not_applicable to claimed in checks.json and regenerates MANIFEST.json
import json,sys,subprocess
c=json.load(open('/verif/checks.json'))
id,text,note,tech=sys.argv[1:5]
c["claimed"]=[x for x in c["claimed"] if x["id"]!=id]+[{"id":id,"text":text,"note":note,"technique":tech}]
c["claimed"].sort(key=lambda x:x["id"])
c["not_applicable"]=[x for x in c["not_applicable"] if x["property_id"]!=id]
json.dump(c,open('/verif/checks.json','w'),indent=1)
subprocess.check_call(['python3','/verif/gen_manifest.py'])

#!/usr/bin/env python3
"""Regenerates DESIGN.md §10 from docgen/design10.tmpl, known_findings.json, seeded/RESULTS.tsv and docgen/costs.tsv."""
import json, re, os, glob
R='/verif'
p=R+'/DESIGN.md'; s=open(p).read()
i=s.index("## 10. Change log of the machinery")
j=s.index("## Appendix A")
d=json.load(open(R+'/known_findings.json'))
def esc(x): return x.replace('|','\\|').replace('\n',' ')
rows=[]
for f in d['findings']:
    if f['status']=='fixed':
        rows.append("| %s | `%s` | %s |" % (f['property'], f['commit'], esc(f['what'])))
openrows=[]
for f in d['findings']:
    if f['status']=='open':
        openrows.append("| %s | `%s` | %s | %s |" % (f['property'], f['sig'], esc(f['what']), esc(f.get('why_not_fixed',''))))
# seed table
seed=["| seed | site / what it breaks (author's words, shortened) | result on the final tree | first signature reported |","|---|---|---|---|"]
if os.path.exists(R+'/seeded/RESULTS.tsv'):
    for l in open(R+'/seeded/RESULTS.tsv').read().splitlines():
        c=l.split('\t')
        sid=c[0]
        try: m=json.load(open(f'{R}/seeded/{sid}/meta.json'))
        except Exception: m={}
        summ=esc(m.get('summary','')); summ=summ[:230]+('…' if len(summ)>230 else '')
        if len(c)>=5:
            res=f"caught ({c[3]}, {c[2].replace('violations=','')} signatures, {c[4]})" if c[1]=='exit=1' else f"**{c[1]}**"
            sig=esc(c[5][4:] if len(c)>5 and c[5].startswith('sig=') else (c[5] if len(c)>5 else ''))[:110]
        else:
            res="**"+c[1]+"**"; sig=''
        seed.append(f"| {sid} | {summ} | {res} | `{sig}` |")
# cost table
cost=["| check | quick wall | quick executions | thorough wall | thorough executions | thorough exhaustive |","|---|---|---|---|---|---|"]
if os.path.exists(R+'/docgen/costs.tsv'):
    q={};t={}
    for l in open(R+'/docgen/costs.tsv').read().splitlines():
        c=l.split()
        if len(c)<3: continue
        kv=dict(x.split('=',1) for x in c[2:] if '=' in x)
        (q if c[1]=='quick' else t)[c[0]]=kv
    for id in sorted(set(q)|set(t)):
        a=q.get(id,{}); b=t.get(id,{})
        cost.append(f"| {id} | {a.get('wall','?')} | {a.get('executions','?')} | {b.get('wall','?')} | {b.get('executions','?')} | {b.get('exhaustive','?')} |")
fam=[]
for ef in sorted(glob.glob(R+'/evidence/C*.json')):
    e=json.load(open(ef))
    fam.append(f"**{e['property_id']}** (tier of the last run: {e.get('tier','?')})\n")
    fam.append("| family | variant | what is enumerated | executions | exhaustive |")
    fam.append("|---|---|---|---|---|")
    for f in e['coverage'].get('families') or []:
        ex=f.get('exhaustive', True)
        fam.append("| %s | %s | %s | %s | %s |" % (f.get('family'), f.get('variant',''), esc(f.get('doc','')), f.get('executions','?'), str(ex).lower()))
    fam.append("")
new=open(R+'/docgen/design10.tmpl').read().replace('@@FAMILIES@@',"\n".join(fam)).replace('@@FIXED@@',"\n".join(rows)).replace('@@OPEN@@',"\n".join(openrows)).replace('@@SEEDTABLE@@',"\n".join(seed)).replace('@@COSTTABLE@@',"\n".join(cost))
s=s[:i]+new+s[j:]
open(p,'w').write(s)
print("DESIGN.md §10 regenerated:", len(rows), "fixed,", len(openrows), "open,", len(seed)-2, "seeds,", len(cost)-2, "cost rows")

import json
p='/verif/DESIGN.md'; s=open(p).read()
i=s.index("## 10. Change log of the machinery")
j=s.index("## Appendix A")
d=json.load(open('/verif/known_findings.json'))
def esc(x): return x.replace('|','\\|')
rows=[]
for f in d['findings']:
    if f['status']=='fixed':
        rows.append("| %s | `%s` | %s |" % (f['property'], f['commit'], esc(f['what'])))
openrows=[]
for f in d['findings']:
    if f['status']=='open':
        openrows.append("| %s | `%s` | %s | %s |" % (f['property'], f['sig'], esc(f['what']), esc(f.get('why_not_fixed',''))))
new=open('/verif/docgen/design10.tmpl').read().replace('@@FIXED@@',"\n".join(rows)).replace('@@OPEN@@',"\n".join(openrows))
s=s[:i]+new+s[j:]
open(p,'w').write(s)

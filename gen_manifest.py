#!/usr/bin/env python3
# Regenerates MANIFEST.json from the table below (kept in one place so it is always valid).
import json
BASE = "cd /repo && go test -mod=mod -vet=off -count=1 -timeout 25m ./..."
checks = json.load(open('/verif/checks.json'))
m = {
 "version": 1,
 "setup_cmd": "bin/setup",
 "hooks": {"guard": "verif", "enable": "no in-repo hooks: checks build /repo's working tree through a go.mod replace directive; C09/C10 add a go build -overlay that rewrites sync and sync/atomic imports to scheduler-aware shims (sources in /verif/mc/shim)",
           "baseline_off_cmd": BASE, "source_commits": [], "add_only": True},
 "engines": [{"name": "mc", "path": "mc", "serves_properties": [c["id"] for c in checks["claimed"]],
              "kind_free_text": "hand-written stateless deviation-bounded DFS explorer over the real implementation (choice tree of inputs / type shapes / flag sets / reader answers / histories / schedules), worker subprocesses, differential oracles"}],
 "checks": [],
 "not_applicable": checks["not_applicable"],
 "notes": "All checks: bin/check <ID> quick|thorough; replay: bin/check <ID> --replay <file>. See DESIGN.md."
}
for c in checks["claimed"]:
    m["checks"].append({
        "property_id": c["id"],
        "quick_cmd": f"bin/check {c['id']} quick",
        "thorough_cmd": f"bin/check {c['id']} thorough",
        "evidence_file": f"evidence/{c['id']}.json",
        "replay_cmd_template": f"bin/check {c['id']} --replay {{path}}",
        "engine": "mc",
        "level_claimed": {"category": "model_checking", "text": c["text"], "design_ref": c.get("ref", "DESIGN.md §5 " + c["id"])},
        "level_note": c["note"],
        "technique": c["technique"],
    })
json.dump(m, open('/verif/MANIFEST.json', 'w'), indent=1)
print("claimed", len(m["checks"]), "n/a", len(m["not_applicable"]))

// Package explore is the stateless, deviation-bounded DFS explorer shared by
// every property check. A harness body builds one case from Choose/Deviate
// calls, runs the real implementation and its oracle, and reports
// disagreements with Fail. See DESIGN.md §2.1.
package explore

import (
	"encoding/json"
	"fmt"
	"hash/fnv"
	"os"
	"runtime/debug"
	"strings"
)

type point struct {
	choice, arity int
	dev           bool
}

// Violation is one disagreement between the implementation and its oracle.
type Violation struct {
	Family  string          `json:"family"`
	Variant string          `json:"variant"`
	Choices []int           `json:"choices"`
	Sig     string          `json:"sig"`
	Msg     string          `json:"msg"`
	Case    json.RawMessage `json:"case,omitempty"`
}

type engineError struct{ msg string }

type stopSignal struct{} // expansion reached ShardDepth

// Ctx carries the choice sequence of one execution.
type Ctx struct {
	w      *workerState
	forced []int
	trace  []point
	tier   string
	expand int // >0: stop (panic stopSignal) when a Choose happens at this depth
	// per-leaf
	fails   []Violation
	caseVal any
	replay  bool
	log     []string
}

func (c *Ctx) reset(forced []int) {
	c.forced = forced
	c.trace = c.trace[:0]
	c.fails = c.fails[:0]
	c.caseVal = nil
	c.log = c.log[:0]
}

// Choose returns a value in [0,n). All alternatives are free.
func (c *Ctx) Choose(n int) int { return c.choose(n, false) }

// Deviate returns a value in [0,n); 0 is the default answer, every other
// value costs one deviation against the family's bound.
func (c *Ctx) Deviate(n int) int { return c.choose(n, true) }

// Bool is Choose(2)==1.
func (c *Ctx) Bool() bool { return c.choose(2, false) == 1 }

func (c *Ctx) choose(n int, dev bool) int {
	if n <= 0 {
		panic(engineError{fmt.Sprintf("Choose(%d)", n)})
	}
	i := len(c.trace)
	v := 0
	if i < len(c.forced) {
		v = c.forced[i]
		if v >= n || v < 0 {
			panic(engineError{fmt.Sprintf("nondeterministic harness: replayed choice %d at point %d but arity is %d", v, i, n)})
		}
	}
	c.trace = append(c.trace, point{v, n, dev})
	if c.expand > 0 && i+1 >= c.expand {
		// shard expansion: the prefix is complete, do not run the case
		panic(stopSignal{})
	}
	return v
}

// Tier reports "quick" or "thorough".
func (c *Ctx) Tier() string { return c.tier }

// Thorough reports whether the thorough tier is running.
func (c *Ctx) Thorough() bool { return c.tier == "thorough" }

// Replay reports whether this is a --replay run (harnesses may log details).
func (c *Ctx) Replay() bool { return c.replay }

// Logf records a line shown only in replay mode.
func (c *Ctx) Logf(format string, args ...any) {
	if c.replay {
		c.log = append(c.log, fmt.Sprintf(format, args...))
	}
}

// Case attaches a readable description of the case being run; it is
// serialised only if the case fails or is sampled.
func (c *Ctx) Case(v any) { c.caseVal = v }

// Fail records a violation. sig must identify the site/kind/localisation of
// the disagreement (DESIGN.md §6.2) and be stable across runs.
func (c *Ctx) Fail(sig, format string, args ...any) {
	c.fails = append(c.fails, Violation{Sig: sig, Msg: fmt.Sprintf(format, args...)})
}

// Failed reports whether Fail was called for this case.
func (c *Ctx) Failed() bool { return len(c.fails) > 0 }

// Outcome classifies the leaf by an outcome signature (vacuity accounting).
func (c *Ctx) Outcome(sig string) {
	if c.w != nil {
		c.w.outcomes[sig]++
	}
}

// Count adds to a named counter reported in the evidence.
func (c *Ctx) Count(name string, n int64) {
	if c.w != nil {
		c.w.counters[name] += n
	}
}

// Inner accounts for n cases enumerated by an inner loop of the body (each
// one a child node of this leaf in the choice tree).
func (c *Ctx) Inner(n int64) {
	if c.w != nil {
		c.w.inner += n
	}
}

// Nontrivial records a distinct non-trivial case by key.
func (c *Ctx) Nontrivial(key uint64) {
	if c.w != nil {
		c.w.addDistinct(key)
	}
}

// NontrivialBytes hashes parts and records them as a distinct case.
func (c *Ctx) NontrivialBytes(parts ...[]byte) {
	if c.w == nil {
		return
	}
	h := fnv.New64a()
	for _, p := range parts {
		h.Write(p)
		h.Write([]byte{0xff, 0x00, 0xfe})
	}
	c.w.addDistinct(h.Sum64())
}

// NontrivialStr is NontrivialBytes for strings.
func (c *Ctx) NontrivialStr(parts ...string) {
	if c.w == nil {
		return
	}
	h := fnv.New64a()
	for _, p := range parts {
		h.Write([]byte(p))
		h.Write([]byte{0xff, 0x00, 0xfe})
	}
	c.w.addDistinct(h.Sum64())
}

// WantSample reports whether the body should attach a Case for sampling.
func (c *Ctx) WantSample() bool {
	if c.replay {
		return true
	}
	if c.w == nil {
		return false
	}
	n := c.w.leaves
	return n < 2 || n&(n-1) == 0
}

func (c *Ctx) choices() []int {
	out := make([]int, len(c.trace))
	for i, p := range c.trace {
		out[i] = p.choice
	}
	return out
}

// Catch runs f and returns the recovered panic value (nil if none) together
// with a short normalised description of the panic site inside /repo.
func Catch(f func()) (pv any, site string) {
	defer func() {
		if r := recover(); r != nil {
			switch r.(type) {
			case engineError, stopSignal:
				panic(r)
			}
			pv = r
			LastStack = string(debug.Stack())
			site = repoFrame(LastStack)
		}
	}()
	f()
	return nil, ""
}

// LastStack is the stack of the panic most recently recovered by Catch (harnesses use it to tell a
// panic raised by their own types' methods from one raised by the library).
var LastStack string

// PanicOrigin returns the function of the innermost non-runtime frame of the last recovered panic.
func PanicOrigin() string {
	lines := strings.Split(LastStack, "\n")
	for i := 0; i+1 < len(lines); i++ {
		fn := lines[i]
		if strings.HasPrefix(fn, "\t") || strings.HasPrefix(fn, "goroutine ") || fn == "" {
			continue
		}
		if strings.HasPrefix(fn, "runtime.") || strings.HasPrefix(fn, "runtime/debug.") || strings.HasPrefix(fn, "panic(") || strings.Contains(fn, "explore.Catch") {
			continue
		}
		return fn
	}
	return ""
}

// RepoPrefix is the path prefix of the repository under test in stack traces: /repo/, or the scratch
// copy named by VERIF_REPO when a seeded change is tried without touching /repo (bin/check does that).
func RepoPrefix() string {
	if r := os.Getenv("VERIF_REPO"); r != "" {
		return strings.TrimSuffix(r, "/") + "/"
	}
	return "/repo/"
}

// repoFrame extracts the top-most frame of the stack that lies inside the
// repository under test.
func repoFrame(stack string) string {
	lines := strings.Split(stack, "\n")
	for i := 0; i+1 < len(lines); i++ {
		fn := lines[i]
		loc := strings.TrimSpace(lines[i+1])
		if strings.HasPrefix(loc, RepoPrefix()) {
			if j := strings.LastIndex(fn, "("); j > 0 {
				fn = fn[:j]
			}
			fn = strings.TrimPrefix(fn, "github.com/segmentio/encoding/")
			return fn
		}
	}
	return "?"
}

// PanicClass normalises a panic value into a short class string without
// volatile details (addresses, indexes).
func PanicClass(pv any) string {
	s := fmt.Sprint(pv)
	if e, ok := pv.(error); ok {
		s = e.Error()
	}
	// strip numbers
	var b strings.Builder
	lastDigit := false
	for _, r := range s {
		if r >= '0' && r <= '9' {
			if !lastDigit {
				b.WriteByte('N')
			}
			lastDigit = true
			continue
		}
		lastDigit = false
		b.WriteRune(r)
	}
	out := b.String()
	if len(out) > 80 {
		out = out[:80]
	}
	return out
}

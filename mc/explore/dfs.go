package explore

import (
	"encoding/json"
	"fmt"
	"runtime/debug"
	"sort"
	"sync/atomic"
	"time"
)

// Family is one harness: a body enumerated exhaustively by the explorer.
type Family struct {
	Name string
	// Variants lists the builds the family runs under (nil = {"default"}).
	Variants []string
	// ShardDepth is the number of leading choices expanded in the parent to
	// form shards handed to worker processes (default 1).
	ShardDepth int
	// Bound returns the deviation bound for a tier (<0 = unbounded).
	Bound func(tier string) int
	// Tiers restricts the family to some tiers (nil = both).
	Tiers []string
	// Budget is the wall-clock cap per tier in seconds (0 = default). Hitting
	// it sets exhaustive:false; it is never an oracle.
	Budget func(tier string) int
	// Serial runs all shards in a single worker process.
	Serial bool
	// MaxWorkers limits the number of worker processes (0 = all cores).
	MaxWorkers int
	// HangSeconds overrides the no-progress watchdog (default 300: generous, because a loaded machine must not turn into an ENGINE-ERROR).
	HangSeconds int
	// FatalPerCase makes the signature of a fatal (process-killing) case include its choice sequence,
	// so that known findings identify individual cases instead of the whole family.
	FatalPerCase bool
	// FatalKey, if set, derives the suffix of a fatal case's signature from its choice sequence (e.g. only
	// the depth rung), so that one recorded finding covers one phenomenon and nothing else.
	FatalKey func(choices []int) string
	// MemMB overrides the per-worker address space cap hint (informational; enforced via GOMEMLIMIT-style checks in harnesses).
	Body func(c *Ctx)
	// Doc is a one-line description copied into the evidence.
	Doc string
}

func (f *Family) bound(tier string) int {
	if f.Bound == nil {
		return -1
	}
	return f.Bound(tier)
}

func (f *Family) shardDepth() int {
	if f.ShardDepth <= 0 {
		return 1
	}
	return f.ShardDepth
}

func (f *Family) runsIn(tier string) bool {
	if len(f.Tiers) == 0 {
		return true
	}
	for _, t := range f.Tiers {
		if t == tier {
			return true
		}
	}
	return false
}

func (f *Family) variants() []string {
	if len(f.Variants) == 0 {
		return []string{"default"}
	}
	return f.Variants
}

const distinctCap = 1 << 18

type workerState struct {
	family   *Family
	variant  string
	tier     string
	leaves   int64
	flushed  int64
	inner    int64
	edges    int64
	outcomes map[string]int64
	counters map[string]int64
	distinct map[uint64]struct{}
	dcapped  bool
	samples  []json.RawMessage
	viol     map[string]*Violation // by sig, first (= smallest in DFS order)
	violN    map[string]int64
	deadline time.Time
	capped   bool
	progress *int64
	trace    func(choices []int) // trace mode: called before each leaf
}

func newWorkerState(f *Family, variant, tier string) *workerState {
	return &workerState{family: f, variant: variant, tier: tier,
		outcomes: map[string]int64{}, counters: map[string]int64{},
		distinct: map[uint64]struct{}{}, viol: map[string]*Violation{}, violN: map[string]int64{}}
}

func (w *workerState) addDistinct(k uint64) {
	if len(w.distinct) >= distinctCap {
		if _, ok := w.distinct[k]; !ok {
			w.dcapped = true
		}
		return
	}
	w.distinct[k] = struct{}{}
}

// runLeaf executes the body once with the forced choices. It returns false
// if expansion stopped the run (stopSignal).
func (w *workerState) runLeaf(c *Ctx, forced []int) (complete bool) {
	c.reset(forced)
	defer func() {
		if r := recover(); r != nil {
			switch e := r.(type) {
			case stopSignal:
				complete = false
				return
			case engineError:
				panic(e)
			}
			// An unexpected panic escaping the body: attribute to the
			// repository if one of its frames is on the stack.
			st := string(debug.Stack())
			site := repoFrame(st)
			if site == "?" {
				panic(engineError{fmt.Sprintf("harness panic in family %s choices %v: %v\n%s", w.family.Name, c.choices(), r, st)})
			}
			c.Fail("panic:"+site+":"+PanicClass(r), "unrecovered panic: %v at %s", r, site)
			complete = true
		}
	}()
	w.family.Body(c)
	return true
}

func (w *workerState) afterLeaf(c *Ctx) {
	sampled := false
	if c.caseVal != nil && (len(c.fails) > 0 || c.WantSample()) {
		if b, err := json.Marshal(c.caseVal); err == nil {
			if c.WantSample() && len(w.samples) < 24 {
				w.samples = append(w.samples, b)
				sampled = true
			}
			for i := range c.fails {
				c.fails[i].Case = b
			}
		}
	}
	_ = sampled
	for i := range c.fails {
		v := c.fails[i]
		w.violN[v.Sig]++
		if _, ok := w.viol[v.Sig]; !ok {
			v.Family = w.family.Name
			v.Variant = w.variant
			v.Choices = c.choices()
			vv := v
			w.viol[v.Sig] = &vv
		}
	}
	w.leaves++
	if w.progress != nil {
		atomic.StoreInt64(w.progress, w.leaves)
	}
}

// exploreSubtree enumerates every choice sequence extending prefix within the
// deviation bound (stateless DFS with an odometer over dynamic arities).
func (w *workerState) exploreSubtree(c *Ctx, prefix []int) {
	bound := w.family.bound(w.tier)
	forced := append([]int(nil), prefix...)
	prevLen := len(prefix)
	for {
		if w.trace != nil {
			w.trace(forced)
		}
		w.runLeaf(c, forced)
		w.afterLeaf(c)
		// new edges below the common prefix with the previous leaf
		if n := len(c.trace) - prevLen; n > 0 {
			w.edges += int64(n)
		}
		if !w.deadline.IsZero() && w.leaves&255 == 0 && time.Now().After(w.deadline) {
			w.capped = true
			return
		}
		// odometer: deepest point past the prefix with a next alternative in budget
		tr := c.trace
		devs := 0
		devBefore := make([]int, 0, 16)
		for _, p := range tr {
			devBefore = append(devBefore, devs)
			if p.dev && p.choice > 0 {
				devs++
			}
		}
		i := len(tr) - 1
		for ; i >= len(prefix); i-- {
			p := tr[i]
			if p.choice+1 >= p.arity {
				continue
			}
			if p.dev && p.choice == 0 && bound >= 0 && devBefore[i]+1 > bound {
				continue
			}
			break
		}
		if i < len(prefix) {
			return
		}
		forced = forced[:0]
		for j := 0; j < i; j++ {
			forced = append(forced, tr[j].choice)
		}
		forced = append(forced, tr[i].choice+1)
		prevLen = i
	}
}

// expand lists the shard prefixes of a family (all choice prefixes of length
// ShardDepth, or complete shorter leaves), respecting the deviation bound.
func expandShards(f *Family, tier string) (prefixes [][]int, edges int64) {
	w := newWorkerState(f, "expand", tier)
	c := &Ctx{tier: tier, expand: f.shardDepth()}
	bound := f.bound(tier)
	forced := []int{}
	for {
		w.runLeaf(c, forced)
		tr := c.trace
		p := make([]int, len(tr))
		for i := range tr {
			p[i] = tr[i].choice
		}
		prefixes = append(prefixes, p)
		devs := 0
		devBefore := make([]int, len(tr))
		for i, p := range tr {
			devBefore[i] = devs
			if p.dev && p.choice > 0 {
				devs++
			}
		}
		i := len(tr) - 1
		for ; i >= 0; i-- {
			p := tr[i]
			if p.choice+1 >= p.arity {
				continue
			}
			if p.dev && p.choice == 0 && bound >= 0 && devBefore[i]+1 > bound {
				continue
			}
			break
		}
		if i < 0 {
			break
		}
		edges += int64(len(tr) - i)
		forced = forced[:0]
		for j := 0; j < i; j++ {
			forced = append(forced, tr[j].choice)
		}
		forced = append(forced, tr[i].choice+1)
	}
	return prefixes, edges
}

type workerFinal struct {
	Leaves   int64             `json:"leaves"`
	Inner    int64             `json:"inner"`
	Edges    int64             `json:"edges"`
	Outcomes map[string]int64  `json:"outcomes"`
	Counters map[string]int64  `json:"counters"`
	Distinct []uint64          `json:"distinct"`
	DCapped  bool              `json:"dcapped"`
	Samples  []json.RawMessage `json:"samples"`
	Viol     []*Violation      `json:"viol"`
	ViolN    map[string]int64  `json:"violn"`
	Capped   bool              `json:"capped"`
}

// flush returns what was accumulated since the previous flush and resets the accumulators (the leaf
// counter itself keeps running: it drives sampling and the progress heartbeat). Workers flush after
// every shard so that a later fatal case does not take the earlier shards' results with it.
func (w *workerState) flush() *workerFinal {
	f := w.final()
	f.Leaves = w.leaves - w.flushed
	w.flushed = w.leaves
	w.inner, w.edges = 0, 0
	w.outcomes, w.counters = map[string]int64{}, map[string]int64{}
	w.distinct = map[uint64]struct{}{}
	w.samples = nil
	w.viol, w.violN = map[string]*Violation{}, map[string]int64{}
	return f
}

func (w *workerState) final() *workerFinal {
	f := &workerFinal{Leaves: w.leaves, Inner: w.inner, Edges: w.edges, Outcomes: w.outcomes, Counters: w.counters,
		DCapped: w.dcapped, Samples: w.samples, ViolN: w.violN, Capped: w.capped}
	for k := range w.distinct {
		f.Distinct = append(f.Distinct, k)
	}
	sigs := make([]string, 0, len(w.viol))
	for s := range w.viol {
		sigs = append(sigs, s)
	}
	sort.Strings(sigs)
	for _, s := range sigs {
		f.Viol = append(f.Viol, w.viol[s])
	}
	return f
}

package explore

import (
	"bufio"
	"bytes"
	"crypto/sha256"
	"encoding/hex"
	"encoding/json"
	"fmt"
	"io"
	"os"
	"os/exec"
	"path/filepath"
	"runtime"
	"sort"
	"strconv"
	"strings"
	"sync"
	"sync/atomic"
	"syscall"
	"time"
)

// Spec describes one property check.
type Spec struct {
	ID          string
	Families    []*Family
	Assumptions []string
	Rule        string // how cases are enumerated / what is non-trivial
	// MinOutcomes is the minimum number of distinct outcome signatures over
	// all families below which the run is reported vacuous (default 2).
	MinOutcomes int
	// Post runs in the parent after all families finished; it may compare
	// counters across families/variants and return further violations.
	Post func(results []FamView) []Violation
}

// FamView is the read-only view of a family result given to Spec.Post.
type FamView struct {
	Family, Variant string
	Counters        map[string]int64
	Outcomes        map[string]int64
	Executions      int64
}

func root() string {
	if r := os.Getenv("VERIF_ROOT"); r != "" {
		return r
	}
	return "/verif"
}

// outRoot is where a run writes (evidence, replays, .work); VERIF_OUT redirects it so that trying a
// seeded change against a scratch copy of the repository does not overwrite the real evidence.
func outRoot() string {
	if r := os.Getenv("VERIF_OUT"); r != "" {
		return r
	}
	return root()
}

func memLimit() uint64 {
	if s := os.Getenv("VERIF_MEM_MB"); s != "" {
		if n, err := strconv.Atoi(s); err == nil {
			return uint64(n) << 20
		}
	}
	return 6 << 30
}

// Main is the entry point of every check binary.
func Main(spec *Spec) {
	args := os.Args[1:]
	if len(args) == 0 {
		fmt.Fprintln(os.Stderr, "usage: check quick|thorough [--family F] | --replay file")
		os.Exit(2)
	}
	defer func() {
		if r := recover(); r != nil {
			if e, ok := r.(engineError); ok {
				fmt.Printf("ENGINE-ERROR property=%s %s\n", spec.ID, e.msg)
				os.Exit(2)
			}
			panic(r)
		}
	}()
	switch args[0] {
	case "--worker":
		workerMain(spec, args[1:])
	case "--single":
		singleMain(spec, args[1:])
	case "--replay":
		os.Exit(replayMain(spec, args[1]))
	case "--list":
		for _, f := range spec.Families {
			fmt.Println(f.Name, f.Doc)
		}
	case "quick", "thorough":
		var only []string
		for i := 1; i < len(args); i++ {
			if args[i] == "--family" && i+1 < len(args) {
				only = append(only, args[i+1])
				i++
			}
		}
		os.Exit(parentMain(spec, args[0], only))
	default:
		fmt.Fprintln(os.Stderr, "unknown mode", args[0])
		os.Exit(2)
	}
}

func findFamily(spec *Spec, name string) *Family {
	for _, f := range spec.Families {
		if f.Name == name {
			return f
		}
	}
	panic(engineError{"unknown family " + name})
}

// ---------------------------------------------------------------- worker

type workerMsg struct {
	T      string       `json:"t"`
	N      int64        `json:"n,omitempty"`
	Final  *workerFinal `json:"final,omitempty"`
	Err    string       `json:"err,omitempty"`
	Prefix []int        `json:"prefix,omitempty"`
}

func workerMain(spec *Spec, args []string) {
	// args: family tier variant [tracefile]
	f := findFamily(spec, args[0])
	tier, variant := args[1], args[2]
	lim := memLimit()
	syscall.Setrlimit(syscall.RLIMIT_AS, &syscall.Rlimit{Cur: lim, Max: lim})
	w := newWorkerState(f, variant, tier)
	if d := os.Getenv("VERIF_DEADLINE"); d != "" {
		if n, err := strconv.ParseInt(d, 10, 64); err == nil {
			w.deadline = time.Unix(n, 0)
		}
	}
	var progress int64
	w.progress = &progress
	out := bufio.NewWriter(os.Stdout)
	var mu sync.Mutex
	send := func(m workerMsg) {
		b, _ := json.Marshal(m)
		mu.Lock()
		out.Write(b)
		out.WriteByte('\n')
		out.Flush()
		mu.Unlock()
	}
	if len(args) > 3 {
		tf, err := os.OpenFile(args[3], os.O_CREATE|os.O_WRONLY|os.O_TRUNC, 0o644)
		if err != nil {
			panic(engineError{err.Error()})
		}
		w.trace = func(ch []int) {
			b, _ := json.Marshal(ch)
			tf.Write(append(b, '\n'))
		}
	}
	go func() {
		for {
			time.Sleep(time.Second)
			send(workerMsg{T: "p", N: atomic.LoadInt64(&progress)})
		}
	}()
	c := &Ctx{w: w, tier: tier}
	in := bufio.NewScanner(os.Stdin)
	in.Buffer(make([]byte, 1<<20), 1<<20)
	func() {
		defer func() {
			if r := recover(); r != nil {
				if e, ok := r.(engineError); ok {
					send(workerMsg{T: "err", Err: e.msg})
					os.Exit(3)
				}
				panic(r)
			}
		}()
		for in.Scan() {
			var m workerMsg
			if err := json.Unmarshal(in.Bytes(), &m); err != nil {
				panic(engineError{"bad shard line: " + err.Error()})
			}
			if !w.capped {
				w.exploreSubtree(c, m.Prefix)
			}
			send(workerMsg{T: "d", N: w.leaves, Final: w.flush()})
		}
	}()
	send(workerMsg{T: "final", Final: w.flush()})
}

// singleMain runs exactly one choice sequence (crash confirmation).
func singleMain(spec *Spec, args []string) {
	f := findFamily(spec, args[0])
	tier, variant := args[1], args[2]
	var choices []int
	if err := json.Unmarshal([]byte(args[3]), &choices); err != nil {
		panic(engineError{err.Error()})
	}
	lim := memLimit()
	syscall.Setrlimit(syscall.RLIMIT_AS, &syscall.Rlimit{Cur: lim, Max: lim})
	w := newWorkerState(f, variant, tier)
	c := &Ctx{w: w, tier: tier, replay: true}
	w.runLeaf(c, choices)
	w.afterLeaf(c)
	b, _ := json.Marshal(w.final())
	os.Stdout.Write(append(b, '\n'))
}

// ---------------------------------------------------------------- parent

type famResult struct {
	Name        string           `json:"family"`
	Variant     string           `json:"variant"`
	Doc         string           `json:"doc,omitempty"`
	Bound       int              `json:"deviation_bound"`
	Shards      int              `json:"shards"`
	Leaves      int64            `json:"executions"`
	Inner       int64            `json:"inner_cases"`
	Edges       int64            `json:"edges"`
	Outcomes    map[string]int64 `json:"outcomes"`
	Counters    map[string]int64 `json:"counters,omitempty"`
	Exhaustive  bool             `json:"exhaustive"`
	Cap         string           `json:"cap,omitempty"`
	WallS       float64          `json:"wall_s"`
	distinct    map[uint64]struct{}
	dcapped     bool
	samples     []json.RawMessage
	viol        map[string]*Violation
	violN       map[string]int64
	engineErrs  []string
	crashShards [][]int
	crashKinds  []string
}

func variantBins() map[string]string {
	m := map[string]string{}
	self, _ := os.Executable()
	m["default"] = self
	for _, kv := range strings.Split(os.Getenv("VERIF_VARIANTS"), ",") {
		if i := strings.IndexByte(kv, '='); i > 0 {
			m[kv[:i]] = kv[i+1:]
		}
	}
	return m
}

func defaultBudget(tier string) int {
	if tier == "quick" {
		return 600 // a safety net for a loaded machine: every quick family finishes in well under two minutes otherwise
	}
	return 600
}

func runFamily(spec *Spec, f *Family, variant, bin, tier string, seed int64) *famResult {
	start := time.Now()
	res := &famResult{Name: f.Name, Variant: variant, Doc: f.Doc, Bound: f.bound(tier), Outcomes: map[string]int64{}, Counters: map[string]int64{},
		distinct: map[uint64]struct{}{}, viol: map[string]*Violation{}, violN: map[string]int64{}, Exhaustive: true}
	shards, edges := expandShards(f, tier)
	res.Shards = len(shards)
	res.Edges = edges
	// VERIF_SEED only permutes the order shards are dealt in.
	if seed != 0 {
		r := uint64(seed)*6364136223846793005 + 1442695040888963407
		for i := len(shards) - 1; i > 0; i-- {
			r = r*6364136223846793005 + 1442695040888963407
			j := int((r >> 33) % uint64(i+1))
			shards[i], shards[j] = shards[j], shards[i]
		}
	}
	budget := defaultBudget(tier)
	if f.Budget != nil {
		if b := f.Budget(tier); b > 0 {
			budget = b
		}
	}
	if s := os.Getenv("VERIF_BUDGET_S"); s != "" {
		if n, err := strconv.Atoi(s); err == nil {
			budget = n
		}
	}
	deadline := start.Add(time.Duration(budget) * time.Second)
	nw := runtime.NumCPU()
	if s := os.Getenv("VERIF_WORKERS"); s != "" {
		if n, err := strconv.Atoi(s); err == nil && n > 0 {
			nw = n
		}
	}
	if f.MaxWorkers > 0 && nw > f.MaxWorkers {
		nw = f.MaxWorkers
	}
	if f.Serial {
		nw = 1
	}
	if nw > len(shards) {
		nw = len(shards)
	}
	hang := 300
	if f.HangSeconds > 0 {
		hang = f.HangSeconds
	}
	var next int64 = -1
	var mu sync.Mutex
	var wg sync.WaitGroup
	for wi := 0; wi < nw; wi++ {
		wg.Add(1)
		go func() {
			defer wg.Done()
			for {
				// (re)start a worker until shards are exhausted
				if int(atomic.LoadInt64(&next)) >= len(shards)-1 {
					return
				}
				fin, crashed, kind, cur, errmsg := runWorker(bin, f, tier, variant, shards, &next, deadline, hang, func(p *workerFinal) {
					mu.Lock()
					mergeFinal(res, p)
					mu.Unlock()
				})
				mu.Lock()
				if fin != nil {
					mergeFinal(res, fin)
				}
				if errmsg != "" {
					res.engineErrs = append(res.engineErrs, errmsg)
				}
				if crashed {
					res.crashShards = append(res.crashShards, cur)
					res.crashKinds = append(res.crashKinds, kind)
					if len(res.crashShards) >= maxCrashShards && !f.FatalPerCase {
						// the workers keep dying (or hanging): the rest of the family is not dealt out; what died so
						// far is examined below and reported
						atomic.StoreInt64(&next, int64(len(shards)))
						res.Exhaustive = false
						res.Cap = fmt.Sprintf("family abandoned after %d shards ended in the death of the worker", len(res.crashShards))
					}
				}
				mu.Unlock()
				if !crashed && errmsg == "" {
					return
				}
				if errmsg != "" {
					return
				}
			}
		}()
	}
	wg.Wait()
	if time.Now().After(deadline) && res.Exhaustive {
		// workers notice the deadline themselves and set capped
	}
	if !res.Exhaustive && res.Cap == "" {
		res.Cap = fmt.Sprintf("time budget %ds", budget)
	}
	// crash triage
	for i, sh := range res.crashShards {
		limit := maxTriage
		if f.HangSeconds > 0 && f.HangSeconds <= 60 {
			limit = 1 // short-horizon families: one attributed death or hang is enough
		}
		if i >= limit && !f.FatalPerCase && len(res.viol) > 0 {
			// a change that makes the process die in hundreds of shards would keep the triage busy for hours:
			// once deaths have been attributed and reported, the remaining ones are only counted
			res.Exhaustive = false
			res.Cap = fmt.Sprintf("%d shards ended in the death of the worker; the first %d were examined case by case", len(res.crashShards), maxTriage)
			break
		}
		triageCrash(res, bin, f, tier, variant, sh, res.crashKinds[i], hang)
	}
	res.WallS = time.Since(start).Seconds()
	return res
}

// skipRest reports whether the families not yet run are to be skipped: some family has reported a violation that
// is not a listed open finding and the check has been running for more than ten minutes. On a tree on which the
// property holds this never happens (there is no unlisted violation).
func skipRest(spec *Spec, results []*famResult, start time.Time) bool {
	if time.Since(start) < 10*time.Minute {
		return false
	}
	open := map[string]bool{}
	for _, f := range loadFindings() {
		if f.Property == spec.ID && f.Status == "open" {
			open[f.Sig] = true
		}
	}
	for _, r := range results {
		for sig := range r.viol {
			if !open[sig] {
				return true
			}
		}
	}
	return false
}

// maxTriage bounds the number of crashed shards examined case by case per family (see runFamily).
const maxTriage = 6

// maxCrashShards: a family whose workers died this often is abandoned (the deaths are still examined).
const maxCrashShards = 24

func mergeFinal(res *famResult, fin *workerFinal) {
	res.Leaves += fin.Leaves
	res.Inner += fin.Inner
	res.Edges += fin.Edges
	for k, v := range fin.Outcomes {
		res.Outcomes[k] += v
	}
	for k, v := range fin.Counters {
		res.Counters[k] += v
	}
	for _, k := range fin.Distinct {
		if len(res.distinct) < 1<<21 {
			res.distinct[k] = struct{}{}
		} else {
			res.dcapped = true
		}
	}
	if fin.DCapped {
		res.dcapped = true
	}
	if len(res.samples) < 12 {
		for _, s := range fin.Samples {
			if len(res.samples) < 12 {
				res.samples = append(res.samples, s)
			}
		}
	}
	for _, v := range fin.Viol {
		if old, ok := res.viol[v.Sig]; !ok || lessChoices(v.Choices, old.Choices) {
			res.viol[v.Sig] = v
		}
	}
	for k, n := range fin.ViolN {
		res.violN[k] += n
	}
	if fin.Capped {
		res.Exhaustive = false
	}
}

func lessChoices(a, b []int) bool {
	for i := 0; i < len(a) && i < len(b); i++ {
		if a[i] != b[i] {
			return a[i] < b[i]
		}
	}
	return len(a) < len(b)
}

// runWorker starts one worker process and feeds it shards until none remain
// or it dies. It returns the final stats (nil if it died).
func runWorker(bin string, f *Family, tier, variant string, shards [][]int, next *int64, deadline time.Time, hang int, part func(*workerFinal)) (fin *workerFinal, crashed bool, kind string, cur []int, errmsg string) {
	cmd := exec.Command(bin, "--worker", f.Name, tier, variant)
	cmd.Env = append(os.Environ(), "GOMAXPROCS=2", "VERIF_DEADLINE="+strconv.FormatInt(deadline.Unix(), 10), "GOTRACEBACK=single")
	stdin, _ := cmd.StdinPipe()
	stdout, _ := cmd.StdoutPipe()
	var stderr bytes.Buffer
	cmd.Stderr = &limitedWriter{buf: &stderr, max: 64 << 10}
	if err := cmd.Start(); err != nil {
		return nil, false, "", nil, "cannot start worker: " + err.Error()
	}
	msgs := make(chan workerMsg, 16)
	go func() {
		sc := bufio.NewScanner(stdout)
		sc.Buffer(make([]byte, 1<<20), 256<<20)
		for sc.Scan() {
			var m workerMsg
			if err := json.Unmarshal(sc.Bytes(), &m); err == nil {
				msgs <- m
			} else {
				msgs <- workerMsg{T: "err", Err: "unreadable worker message: " + err.Error() + ": " + tail(string(sc.Bytes()), 200)}
			}
		}
		if err := sc.Err(); err != nil {
			msgs <- workerMsg{T: "err", Err: "reading worker output: " + err.Error()}
		}
		close(msgs)
	}()
	feed := func() bool {
		i := int(atomic.AddInt64(next, 1))
		if i >= len(shards) {
			stdin.Close()
			cur = nil
			return false
		}
		cur = shards[i]
		b, _ := json.Marshal(workerMsg{Prefix: cur})
		stdin.Write(append(b, '\n'))
		return true
	}
	feeding := feed()
	lastN := int64(-1)
	lastChange := time.Now()
	tick := time.NewTicker(time.Second)
	defer tick.Stop()
	for {
		select {
		case m, ok := <-msgs:
			if !ok {
				err := cmd.Wait()
				if fin != nil && err == nil {
					return fin, false, "", nil, ""
				}
				if errmsg != "" {
					return nil, false, "", nil, errmsg
				}
				k := crashKind(stderr.String())
				if cur == nil {
					return nil, false, "", nil, "worker died outside a shard: " + k + ": " + tail(stderr.String(), 400)
				}
				return nil, true, k, cur, ""
			}
			switch m.T {
			case "p":
				if m.N != lastN {
					lastN = m.N
					lastChange = time.Now()
				}
			case "d":
				lastChange = time.Now()
				if m.Final != nil {
					part(m.Final) // the results of the shard just completed survive a later crash of this worker
				}
				if feeding {
					feeding = feed()
				}
			case "final":
				fin = m.Final
			case "err":
				errmsg = m.Err
			}
		case <-tick.C:
			if time.Since(lastChange) > time.Duration(hang)*time.Second && cur != nil {
				cmd.Process.Kill()
				cmd.Wait()
				return nil, true, "hang", cur, ""
			}
		}
	}
}

type limitedWriter struct {
	buf *bytes.Buffer
	max int
	mu  sync.Mutex
}

func (l *limitedWriter) Write(p []byte) (int, error) {
	l.mu.Lock()
	defer l.mu.Unlock()
	if l.buf.Len() < l.max {
		n := l.max - l.buf.Len()
		if n > len(p) {
			n = len(p)
		}
		l.buf.Write(p[:n])
	}
	return len(p), nil
}

func tail(s string, n int) string {
	if len(s) > n {
		return s[:n]
	}
	return s
}

func crashKind(stderr string) string {
	for _, line := range strings.Split(stderr, "\n") {
		line = strings.TrimSpace(line)
		switch {
		case strings.HasPrefix(line, "fatal error:"), strings.HasPrefix(line, "runtime:"), strings.HasPrefix(line, "unexpected fault"), strings.HasPrefix(line, "panic:"), strings.HasPrefix(line, "SIG"), strings.HasPrefix(line, "signal"):
			return PanicClass(line)
		}
	}
	return "died"
}

// triageWait: a family that declares a short hang horizon (its executions take microseconds: anything that
// stands still for that long is blocked for good) is also triaged with short waits.
func triageWait(f *Family, def int) int {
	if f.HangSeconds > 0 && f.HangSeconds <= 60 {
		return 2*f.HangSeconds + 15
	}
	return def
}

// triageCrash re-runs the crashed shard in trace mode to find the culprit
// leaf, then confirms it 3x in fresh processes (DESIGN.md §2.1).
func triageCrash(res *famResult, bin string, f *Family, tier, variant string, shard []int, kind string, hang int) {
	work := filepath.Join(outRoot(), ".work")
	os.MkdirAll(work, 0o755)
	tf := filepath.Join(work, fmt.Sprintf("trace-%s-%d.txt", f.Name, os.Getpid()))
	defer os.Remove(tf)
	cmd := exec.Command(bin, "--worker", f.Name, tier, variant, tf)
	cmd.Env = append(os.Environ(), "GOMAXPROCS=2", "GOTRACEBACK=single")
	b, _ := json.Marshal(workerMsg{Prefix: shard})
	cmd.Stdin = bytes.NewReader(append(b, '\n'))
	var stderr bytes.Buffer
	cmd.Stderr = &limitedWriter{buf: &stderr, max: 64 << 10}
	cmd.Stdout = io.Discard
	done := make(chan error, 1)
	cmd.Start()
	go func() { done <- cmd.Wait() }()
	// generous: the shard previously died/hung; allow budget again
	select {
	case err := <-done:
		if err == nil {
			res.engineErrs = append(res.engineErrs, fmt.Sprintf("worker death (%s) in shard %v of %s not reproducible in trace mode", kind, shard, f.Name))
			return
		}
	case <-time.After(time.Duration(triageWait(f, hang*3+600)) * time.Second):
		cmd.Process.Kill()
		<-done
	}
	data, _ := os.ReadFile(tf)
	lines := strings.Split(strings.TrimSpace(string(data)), "\n")
	last := lines[len(lines)-1]
	var choices []int
	if json.Unmarshal([]byte(last), &choices) != nil {
		res.engineErrs = append(res.engineErrs, "cannot read trace for crashed shard of "+f.Name)
		return
	}
	// confirm 3x
	deaths := 0
	var k2 string
	for i := 0; i < 3; i++ {
		died, k, _ := runSingle(bin, f, tier, variant, choices, triageWait(f, hang*5))
		if died {
			deaths++
			k2 = k
		}
	}
	if deaths == 3 {
		sig := "fatal:" + f.Name + ":" + k2
		if f.FatalKey != nil {
			sig += ":" + f.FatalKey(choices)
		} else if f.FatalPerCase {
			sig += fmt.Sprintf(":case=%v", choices)
		}
		res.violN[sig]++
		if _, ok := res.viol[sig]; !ok {
			res.viol[sig] = &Violation{Family: f.Name, Variant: variant, Choices: choices, Sig: sig, Msg: "worker process dies or hangs deterministically on this case: " + k2}
		}
		res.Exhaustive = false
		res.Cap = "shard abandoned after fatal case"
		return
	}
	res.engineErrs = append(res.engineErrs, fmt.Sprintf("worker death (%s) on case %v of %s reproduced %d/3 times", kind, choices, f.Name, deaths))
}

func runSingle(bin string, f *Family, tier, variant string, choices []int, timeoutS int) (died bool, kind string, fin *workerFinal) {
	b, _ := json.Marshal(choices)
	cmd := exec.Command(bin, "--single", f.Name, tier, variant, string(b))
	cmd.Env = append(os.Environ(), "GOMAXPROCS=2", "GOTRACEBACK=single")
	var stderr, stdout bytes.Buffer
	cmd.Stderr = &limitedWriter{buf: &stderr, max: 64 << 10}
	cmd.Stdout = &stdout
	cmd.Start()
	done := make(chan error, 1)
	go func() { done <- cmd.Wait() }()
	select {
	case err := <-done:
		if err != nil {
			return true, crashKind(stderr.String()), nil
		}
	case <-time.After(time.Duration(timeoutS) * time.Second):
		cmd.Process.Kill()
		<-done
		return true, "hang", nil
	}
	var wf workerFinal
	if json.Unmarshal(stdout.Bytes(), &wf) == nil {
		fin = &wf
	}
	return false, "", fin
}

// ---------------------------------------------------------------- findings

type Finding struct {
	Property string `json:"property"`
	Status   string `json:"status"` // open | fixed
	Sig      string `json:"sig"`
	What     string `json:"what"`
	Witness  any    `json:"witness,omitempty"`
	Commit   string `json:"commit,omitempty"`
}

func loadFindings() []Finding {
	var fs struct {
		Findings []Finding `json:"findings"`
	}
	b, err := os.ReadFile(filepath.Join(root(), "known_findings.json"))
	if err != nil {
		return nil
	}
	if err := json.Unmarshal(b, &fs); err != nil {
		panic(engineError{"known_findings.json: " + err.Error()})
	}
	return fs.Findings
}

func parentMain(spec *Spec, tier string, only []string) int {
	start := time.Now()
	seed, _ := strconv.ParseInt(os.Getenv("VERIF_SEED"), 10, 64)
	bins := variantBins()
	// replay files of earlier runs of this check are stale
	if old, _ := filepath.Glob(filepath.Join(outRoot(), "replays", spec.ID+"-*.json")); len(only) == 0 {
		for _, f := range old {
			os.Remove(f)
		}
	}
	var results []*famResult
	checkStart := time.Now()
	var skipped []string
	for _, f := range spec.Families {
		if !f.runsIn(tier) {
			continue
		}
		if len(only) > 0 {
			ok := false
			for _, o := range only {
				if o == f.Name {
					ok = true
				}
			}
			if !ok {
				continue
			}
		}
		for _, v := range f.variants() {
			bin, ok := bins[v]
			if !ok {
				panic(engineError{"no binary for variant " + v})
			}
			if skipRest(spec, results, checkStart) {
				// a violation that is not a listed finding has been found and the check has been running for a
				// long time (a change that makes executions die or hang): the remaining families are not run
				fmt.Printf("family=%s variant=%s not run: an unlisted violation was found and the check has been running for %.0fs\n", f.Name, v, time.Since(checkStart).Seconds())
				skipped = append(skipped, f.Name)
				continue
			}
			r := runFamily(spec, f, v, bin, tier, seed)
			fmt.Printf("family=%s variant=%s shards=%d executions=%d inner=%d outcomes=%d violations=%d exhaustive=%v wall=%.1fs\n",
				r.Name, r.Variant, r.Shards, r.Leaves, r.Inner, len(r.Outcomes), len(r.viol), r.Exhaustive, r.WallS)
			results = append(results, r)
		}
	}
	if len(results) == 0 {
		panic(engineError{"no family selected"})
	}
	// merge
	var evals, inner, edges int64
	distinct := map[uint64]struct{}{}
	dcapped := false
	outcomes := map[string]struct{}{}
	var samples []json.RawMessage
	exhaustive := true
	var caps []string
	var engineErrs []string
	viol := map[string]*Violation{}
	violN := map[string]int64{}
	for _, r := range results {
		evals += r.Leaves
		inner += r.Inner
		edges += r.Edges + r.Inner
		for k := range r.distinct {
			distinct[k] = struct{}{}
		}
		dcapped = dcapped || r.dcapped
		for k := range r.Outcomes {
			outcomes[r.Name+"/"+k] = struct{}{}
		}
		for i, s := range r.samples {
			if i < 3 {
				samples = append(samples, json.RawMessage(fmt.Sprintf(`{"family":%q,"case":%s}`, r.Name, s)))
			}
		}
		if !r.Exhaustive {
			exhaustive = false
			caps = append(caps, r.Name+": "+r.Cap)
		}
		if len(skipped) > 0 {
			exhaustive = false
		}
		engineErrs = append(engineErrs, r.engineErrs...)
		for s, v := range r.viol {
			if _, ok := viol[s]; !ok {
				viol[s] = v
			}
			violN[s] += r.violN[s]
		}
	}
	if len(skipped) > 0 {
		caps = append(caps, "families not run after an unlisted violation had been found and ten minutes had passed: "+strings.Join(skipped, ", "))
	}
	if spec.Post != nil {
		var views []FamView
		for _, r := range results {
			views = append(views, FamView{r.Name, r.Variant, r.Counters, r.Outcomes, r.Leaves})
		}
		for _, v := range spec.Post(views) {
			vv := v
			if _, ok := viol[v.Sig]; !ok {
				viol[v.Sig] = &vv
			}
			violN[v.Sig]++
		}
	}
	// findings
	findings := loadFindings()
	open := map[string]*Finding{}
	for i := range findings {
		f := &findings[i]
		if f.Property == spec.ID && f.Status == "open" {
			open[f.Sig] = f
		}
	}
	sigs := make([]string, 0, len(viol))
	for s := range viol {
		sigs = append(sigs, s)
	}
	sort.Strings(sigs)
	nViol := 0
	knownSeen := map[string]int64{}
	os.MkdirAll(filepath.Join(outRoot(), "replays"), 0o755)
	for _, s := range sigs {
		if _, ok := open[s]; ok {
			knownSeen[s] = violN[s]
			continue
		}
		nViol++
		v := viol[s]
		h := sha256.Sum256([]byte(s))
		path := filepath.Join(outRoot(), "replays", fmt.Sprintf("%s-%s.json", spec.ID, hex.EncodeToString(h[:6])))
		rec := map[string]any{"property": spec.ID, "tier": tier, "violation": v, "count_in_run": violN[s]}
		b, _ := json.MarshalIndent(rec, "", " ")
		if nViol <= 300 {
			os.WriteFile(path, b, 0o644)
		}
		if nViol <= 40 {
			fmt.Printf("VIOLATION property=%s replay=%s\n", spec.ID, path)
			fmt.Printf("  sig=%s\n  %s\n  cases_with_this_signature=%d\n", s, v.Msg, violN[s])
		} else if nViol == 41 {
			fmt.Printf("(further violation signatures are not printed; replay files are written for the first 300)\n")
		}
	}
	os.Remove(filepath.Join(outRoot(), ".work", "violations-"+spec.ID+".txt"))
	if nViol > 0 {
		// full list for triage (not evidence): .work/violations-<ID>.txt
		var sb strings.Builder
		for i, s := range sigs {
			if _, ok := open[s]; ok || i > 50000 {
				continue
			}
			fmt.Fprintf(&sb, "%s\t%d\t%s\n", s, violN[s], strings.ReplaceAll(tail(viol[s].Msg, 600), "\n", "\\n"))
		}
		os.MkdirAll(filepath.Join(outRoot(), ".work"), 0o755)
		os.WriteFile(filepath.Join(outRoot(), ".work", "violations-"+spec.ID+".txt"), []byte(sb.String()), 0o644)
	}
	if nViol > 40 {
		groups := map[string]int{}
		example := map[string]string{}
		for _, s := range sigs {
			if _, ok := open[s]; ok {
				continue
			}
			parts := strings.SplitN(s, ":", 4)
			if len(parts) > 3 {
				parts = parts[:3]
			}
			k := strings.Join(parts, ":")
			groups[k]++
			if e, ok := example[k]; !ok || len(viol[s].Msg) < len(e) {
				example[k] = viol[s].Msg
			}
		}
		keys := make([]string, 0, len(groups))
		for k := range groups {
			keys = append(keys, k)
		}
		sort.Slice(keys, func(i, j int) bool { return groups[keys[i]] > groups[keys[j]] })
		fmt.Printf("violation signature groups (%d signatures):\n", nViol)
		for i, k := range keys {
			if i >= 40 {
				break
			}
			fmt.Printf("  %6d %s\n         e.g. %s\n", groups[k], k, tail(example[k], 400))
		}
	}
	osigs := make([]string, 0, len(open))
	for s := range open {
		osigs = append(osigs, s)
	}
	sort.Strings(osigs)
	for _, s := range osigs {
		f := open[s]
		note := "not exercised in this run"
		if n := knownSeen[s]; n > 0 {
			note = fmt.Sprintf("observed in %d explored cases", n)
		}
		fmt.Printf("KNOWN-FINDING: property=%s %s [sig=%s; %s]\n", spec.ID, f.What, s, note)
	}
	// vacuity
	minOut := spec.MinOutcomes
	if minOut == 0 {
		minOut = 2
	}
	vacuous := len(outcomes) < minOut && len(only) == 0
	// evidence
	if len(samples) == 0 {
		samples = append(samples, json.RawMessage(`"(no case attached a sample)"`))
	}
	states := edges + 1
	rule := spec.Rule
	if dcapped {
		rule += " [distinct count capped: conservative lower bound]"
	}
	ev := map[string]any{
		"property_id": spec.ID,
		"tier":        tier,
		"seed":        seed,
		"level":       "model_checking",
		"coverage": map[string]any{
			"states":                        states,
			"transitions":                   edges,
			"traces_validated_against_impl": evals + inner,
			"evaluations":                   evals + inner,
			"distinct_nontrivial":           len(distinct),
			"rule":                          rule,
			"samples":                       samples,
			"exhaustive":                    exhaustive,
			"caps_hit":                      caps,
			"distinct_outcome_signatures":   len(outcomes),
			"families":                      results,
			"known_findings_observed":       knownSeen,
			"engine_errors":                 engineErrs,
		},
		"assumptions": spec.Assumptions,
		"wall_s":      time.Since(start).Seconds(),
		"violations":  nViol,
	}
	if len(only) == 0 {
		os.MkdirAll(filepath.Join(outRoot(), "evidence"), 0o755)
		b, _ := json.MarshalIndent(ev, "", " ")
		os.WriteFile(filepath.Join(outRoot(), "evidence", spec.ID+".json"), append(b, '\n'), 0o644)
	}
	fmt.Printf("property=%s tier=%s executions=%d states=%d distinct_nontrivial=%d outcomes=%d exhaustive=%v violations=%d wall=%.1fs\n",
		spec.ID, tier, evals+inner, states, len(distinct), len(outcomes), exhaustive, nViol, time.Since(start).Seconds())
	if nViol > 0 {
		return 1
	}
	if len(engineErrs) > 0 {
		for i, e := range engineErrs {
			if i >= 5 {
				fmt.Printf("ENGINE-ERROR property=%s (%d more engine errors)\n", spec.ID, len(engineErrs)-5)
				break
			}
			fmt.Printf("ENGINE-ERROR property=%s %s\n", spec.ID, tail(e, 700))
		}
		return 2
	}
	if vacuous {
		fmt.Printf("ENGINE-ERROR property=%s vacuous exploration: %d distinct outcome signatures\n", spec.ID, len(outcomes))
		return 2
	}
	return 0
}

// ---------------------------------------------------------------- replay

func replayMain(spec *Spec, path string) int {
	b, err := os.ReadFile(path)
	if err != nil {
		panic(engineError{err.Error()})
	}
	var rec struct {
		Tier      string    `json:"tier"`
		Violation Violation `json:"violation"`
	}
	if err := json.Unmarshal(b, &rec); err != nil {
		panic(engineError{err.Error()})
	}
	f := findFamily(spec, rec.Violation.Family)
	bins := variantBins()
	bin := bins[rec.Violation.Variant]
	if bin == "" {
		bin = bins["default"]
	}
	var obs [2]string
	for i := 0; i < 2; i++ {
		died, kind, fin := runSingle(bin, f, rec.Tier, rec.Violation.Variant, rec.Violation.Choices, 900)
		switch {
		case died:
			obs[i] = "fatal:" + f.Name + ":" + kind
			if f.FatalKey != nil {
				obs[i] += ":" + f.FatalKey(rec.Violation.Choices)
			} else if f.FatalPerCase {
				obs[i] += fmt.Sprintf(":case=%v", rec.Violation.Choices)
			}
		case fin == nil:
			obs[i] = "?"
		default:
			var ss []string
			for _, v := range fin.Viol {
				ss = append(ss, v.Sig+" :: "+v.Msg)
			}
			sort.Strings(ss)
			obs[i] = strings.Join(ss, "\n")
			if i == 0 {
				for _, v := range fin.Viol {
					if len(v.Case) > 0 {
						fmt.Printf("case: %s\n", v.Case)
						break
					}
				}
			}
		}
	}
	if obs[0] != obs[1] {
		fmt.Printf("ENGINE-ERROR property=%s replay not deterministic:\n%s\n---\n%s\n", spec.ID, obs[0], obs[1])
		return 2
	}
	if obs[0] == "" {
		fmt.Printf("replay: case passes (no violation) family=%s choices=%v\n", f.Name, rec.Violation.Choices)
		return 0
	}
	fmt.Printf("replay: family=%s choices=%v\n%s\n", f.Name, rec.Violation.Choices, obs[0])
	fmt.Printf("VIOLATION property=%s replay=%s\n", spec.ID, path)
	return 1
}

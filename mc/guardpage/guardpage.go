// Package guardpage places byte strings directly before or directly behind an inaccessible page, so that a
// read one byte beyond (or before) the operand faults instead of silently seeing a neighbour.
package guardpage

import (
	"runtime/debug"
	"syscall"
	"unsafe"
)

// Region is [no access][one writable page][no access].
type Region struct {
	mem  []byte
	page int
}

// New maps a region. The caller keeps it for the life of the process.
func New() *Region {
	page := syscall.Getpagesize()
	mem, err := syscall.Mmap(-1, 0, 3*page, syscall.PROT_READ|syscall.PROT_WRITE, syscall.MAP_ANON|syscall.MAP_PRIVATE)
	if err != nil {
		panic("guardpage: mmap: " + err.Error())
	}
	if err := syscall.Mprotect(mem[:page], syscall.PROT_NONE); err != nil {
		panic("guardpage: mprotect: " + err.Error())
	}
	if err := syscall.Mprotect(mem[2*page:], syscall.PROT_NONE); err != nil {
		panic("guardpage: mprotect: " + err.Error())
	}
	return &Region{mem: mem, page: page}
}

// AtEnd copies b so that its last byte is the last accessible byte (len == cap).
func (r *Region) AtEnd(b []byte) []byte {
	if len(b) > r.page {
		panic("guardpage: operand larger than a page")
	}
	d := r.mem[2*r.page-len(b) : 2*r.page : 2*r.page]
	copy(d, b)
	return d
}

// AtStart copies b so that its first byte is the first accessible byte; the rest of the page is filled with fill.
func (r *Region) AtStart(b []byte, fill byte) []byte {
	if len(b) > r.page {
		panic("guardpage: operand larger than a page")
	}
	p := r.mem[r.page : 2*r.page]
	for i := range p {
		p[i] = fill
	}
	copy(p, b)
	return p[:len(b):len(b)]
}

// String views b as a string without copying.
func String(b []byte) string { return unsafe.String(unsafe.SliceData(b), len(b)) }

// Faults runs f and reports whether it touched inaccessible memory (the fault is turned into a panic that
// is recovered here; other panics are passed on).
func Faults(f func()) (fault bool, msg string) {
	old := debug.SetPanicOnFault(true)
	defer debug.SetPanicOnFault(old)
	defer func() {
		if e := recover(); e != nil {
			if re, ok := e.(interface{ Addr() uintptr }); ok {
				_ = re
				fault, msg = true, "fault"
				return
			}
			if err, ok := e.(error); ok {
				s := err.Error()
				if len(s) >= 30 && (contains(s, "unexpected fault address") || contains(s, "invalid memory address")) {
					fault, msg = true, s
					return
				}
			}
			panic(e)
		}
	}()
	f()
	return false, ""
}

func contains(s, sub string) bool {
	for i := 0; i+len(sub) <= len(s); i++ {
		if s[i:i+len(sub)] == sub {
			return true
		}
	}
	return false
}

package jgen

import (
	"encoding/json"
	"fmt"
	"math"
	"reflect"
	"strings"
	"time"
	"unsafe"
)

func T[X any]() reflect.Type { return reflect.TypeOf((*X)(nil)).Elem() }

// Leaves is the palette of leaf types, simplest first.
var Leaves = []reflect.Type{
	T[int](), T[string](), T[bool](), T[float64](), T[any](), T[[]byte](),
	T[int8](), T[int16](), T[int32](), T[int64](), T[uint](), T[uint8](), T[uint16](), T[uint32](), T[uint64](), T[uintptr](), T[float32](),
	T[NamedBytes](), T[NamedString](), T[NamedInt](), T[json.Number](), T[json.RawMessage](), T[time.Time](),
	T[VMStruct](), T[PMStruct](), T[VTStruct](), T[PTStruct](), T[VMString](), T[PTString](), T[VTInt](), T[PMInt](), T[VMSlice](), T[VTSlice](), T[VMMap](), T[ErrM](), T[ErrT](), T[Both](),
	T[Iface](), T[Base](), T[struct{}](), T[VTPMStruct](), T[VTString](), T[RecPM](), T[NamedAny](), T[RecArr](), T[VUByte](), T[VMInt](), T[LazyFn](), T[ChanBox](), T[NamedIntPtr](), T[PTSlice](), T[PTMap](), T[UByteVTPM](),
}

// Statics are the hand-written struct types (embedding, tags, recursion).
var Statics = []reflect.Type{
	T[EmbedVal](), T[EmbedPtr](), T[EmbedUnexpVal](), T[EmbedUnexpPtr](), T[EmbedConflict](), T[EmbedAmbiguous](), T[EmbedTaggedWins](), T[EmbedDeep](),
	T[EmbedMarshaler](), T[EmbedTextMarshalerPtr](), T[EmbedNonStruct](), T[EmbedPtrNonStruct](), T[EmbedIface](), T[EmbedTwoPtr](), T[EmbedTagDepths](), T[DupTagDirect](), T[DupTagEmbedded](), T[NonASCIIKeys](), T[AddrMapThenSlice](), T[AddrSliceThenMap](), T[AddrDeepValThenPtr](), T[AddrDeepSliceThenVal](), T[AddrDeepMapThenArr](), T[EmbedUnexpNonStructTagged](), T[MutRoot](), T[MutA](), T[RecEmbA](), T[RecEmbE](), T[InvTagEmbedded](), T[InvTagSame](), T[InvTagDom](), T[AmbT](), T[AmbU](), T[EmbedPtrOmit](), T[EmbedPtrOmitRefs](), T[EmbedPtrOmitRefs8](), T[Tags](), T[StringOpts](), T[CaseFields](), T[CaseFieldsLong](), T[Recursive](), T[Deep](),
}

var mapKeys = []reflect.Type{T[string](), T[NamedString](), T[int](), T[int8](), T[uint64](), T[KeyT](), T[KeyPT](), T[bool](), T[float64](), T[VTInt](), T[VTString](), T[KeyMTOnly](), T[time.Duration](), T[VMInt](), T[PMInt](), reflect.PointerTo(T[KeyPT]()), reflect.PointerTo(T[KeyT]()), T[KeyNaN]()}

var fieldTags = []string{"", `json:"x"`, `json:"-"`, `json:"-,"`, `json:",omitempty"`, `json:",string"`, `json:"y,omitempty,string"`, `json:"bad name"`, `json:"<a>&b"`, `json:"x,omitempty"`, `json:"a\\b"`}

// Wrappers returns the composite types built directly on t.
func Wrappers(t reflect.Type, full bool) []reflect.Type {
	out := []reflect.Type{
		reflect.PointerTo(t), reflect.SliceOf(t), reflect.ArrayOf(1, t), reflect.MapOf(T[string](), t),
		StructOf1(t, ""),
	}
	if !full {
		return out
	}
	out = append(out, reflect.PointerTo(reflect.PointerTo(t)), reflect.ArrayOf(0, t), reflect.ArrayOf(2, t))
	for _, tag := range fieldTags[1:] {
		out = append(out, StructOf1(t, tag))
	}
	out = append(out, StructOf2(T[int](), "", t, `json:",omitempty"`), StructOf2(t, `json:"A"`, t, `json:"a"`))
	if t.Comparable() && (t.Kind() != reflect.Interface) {
		for _, k := range mapKeys {
			if k == t {
				out = append(out, reflect.MapOf(t, T[int]()))
			}
		}
	}
	return out
}

// KeyedMaps returns map types with every supported key kind.
func KeyedMaps() []reflect.Type {
	var out []reflect.Type
	for _, k := range mapKeys {
		out = append(out, reflect.MapOf(k, T[int]()), reflect.MapOf(k, T[string]()))
	}
	out = append(out, T[map[string]any](), T[map[string]json.RawMessage](), T[map[string]string](), T[map[string][]string](), T[map[string]bool](), T[map[string]*Base](), T[map[string]map[string]int]())
	return out
}

func StructOf1(t reflect.Type, tag string) reflect.Type {
	return reflect.StructOf([]reflect.StructField{{Name: "F", Type: t, Tag: reflect.StructTag(tag)}})
}

func StructOf2(t1 reflect.Type, tag1 string, t2 reflect.Type, tag2 string) reflect.Type {
	return reflect.StructOf([]reflect.StructField{{Name: "F", Type: t1, Tag: reflect.StructTag(tag1)}, {Name: "G", Type: t2, Tag: reflect.StructTag(tag2)}})
}

// WideStruct builds a struct with n int fields named F0.. (keyset/32-field switch).
func WideStruct(n int) reflect.Type {
	var fs []reflect.StructField
	for i := 0; i < n; i++ {
		fs = append(fs, reflect.StructField{Name: fmt.Sprintf("F%d", i), Type: T[int](), Tag: reflect.StructTag(fmt.Sprintf(`json:"f%d,omitempty"`, i))})
	}
	return reflect.StructOf(fs)
}

// LongNameStruct has a field name longer than 16 bytes (no keyset).
func LongNameStruct() reflect.Type {
	return reflect.StructOf([]reflect.StructField{
		{Name: "Short", Type: T[int]()},
		{Name: "BillingAddressLine", Type: T[string](), Tag: `json:"billingAddressLine"`},
		{Name: "Exactly16BytesXY", Type: T[int]()},
	})
}

var (
	strDomain = []string{"a", "", "<&>", "\"\\/", "  ", "\x00\x1f\x7f", "\xff\xfe", "héllo wörld", strings.Repeat("x", 7), strings.Repeat("y", 8), strings.Repeat("z", 9) + "\"", strings.Repeat("w", 40), "a\ufffdb\u2028"}
	f64Domain = []float64{1, 0, -1.5, 1e21, 1e20, 1e-6, 1e-7, 123456789.125, math.MaxFloat64, math.SmallestNonzeroFloat64, math.NaN(), math.Inf(1), math.Copysign(0, -1), 100}
)

func ptrTo(v reflect.Value) reflect.Value {
	p := reflect.New(v.Type())
	p.Elem().Set(v)
	return p
}

// Domain enumerates values of t: index 0 typical, index 1 the zero value.
func Domain(t reflect.Type, depth int) []reflect.Value {
	var out []reflect.Value
	add := func(vs ...any) {
		for _, v := range vs {
			out = append(out, reflect.ValueOf(v).Convert(t))
		}
	}
	zero := reflect.Zero(t)
	switch t {
	case T[EmbedPtrOmit]():
		// every combination of empty / non-empty promoted fields
		one := 1
		add(EmbedPtrOmit{X: 1, Y: "y"}, EmbedPtrOmit{})
		for m := 0; m < 8; m++ {
			in := &InnerOmit{Pad: 5}
			if m&1 != 0 {
				in.A = 7
			}
			if m&2 != 0 {
				in.B = "b"
			}
			if m&4 != 0 {
				in.C = []int{1}
			}
			add(EmbedPtrOmit{X: m, InnerOmit: in}, EmbedPtrOmit{Y: "y", InnerOmit: in, Z: &one})
		}
		return out
	case T[RecEmbA]():
		add(RecEmbA{&RecEmbB{X: 1, P: &RecEmbA{&RecEmbB{X: 2}}}}, RecEmbA{}, RecEmbA{&RecEmbB{X: 3}}, RecEmbA{&RecEmbB{P: &RecEmbA{}}})
		return out
	case T[RecEmbE]():
		add(RecEmbE{&RecEmbF{Z: 1, M: map[string]RecEmbE{"a": {&RecEmbF{Z: 2}}}}}, RecEmbE{}, RecEmbE{&RecEmbF{Z: 3, M: map[string]RecEmbE{}}})
		return out
	case T[KeyNaN]():
		// exactly one value holding a NaN: two such keys in one map would be written in an order neither encoder defines
		add(KeyNaN{1.5}, KeyNaN{}, KeyNaN{math.NaN()})
		return out
	case T[RecArr]():
		inner := RecArr{nil}
		add(RecArr{&inner}, RecArr{nil}, RecArr{&RecArr{&inner}})
		return out
	case T[LazyFn]():
		add(LazyFn{func() string { return "hello" }}, LazyFn{})
		return out
	case T[ChanBox]():
		add(ChanBox{make(chan int, 3)}, ChanBox{})
		return out
	case T[RecPM]():
		// self-referential: hand-written values
		add(RecPM{RecPM{}}, RecPM(nil), RecPM{}, RecPM{nil, RecPM{RecPM{}}})
		return out
	case T[json.Number]():
		add(json.Number("12"), json.Number(""), json.Number("-1.5e3"), json.Number("01"), json.Number("1 "), json.Number("0x1"), json.Number("abc"), json.Number("1e400"))
		return out
	case T[json.RawMessage]():
		add(json.RawMessage(`{"a":1}`), json.RawMessage(nil), json.RawMessage(` [ 1 , "<x>" ] `), json.RawMessage(`{"a":}`), json.RawMessage(``), json.RawMessage(`" "`), json.RawMessage(`1 2`), json.RawMessage("null"),
			// escapes followed by strings and keys holding white space: what the compacting copy must not lose track of
			json.RawMessage(`{"e":"a\nb","k y":"c  d","u":"\u00e9 \"q\" x", "<h>":"\\"}`), json.RawMessage(` [ "t\tx" , "hello world" , "\\" , "a b" ] `))
		return out
	case T[time.Time]():
		add(time.Date(2021, 3, 25, 21, 36, 12, 5000, time.UTC), time.Time{}, time.Date(-1, 1, 1, 0, 0, 0, 0, time.UTC), time.Date(10000, 1, 1, 0, 0, 0, 0, time.UTC), time.Date(2000, 2, 29, 1, 2, 3, 999999999, time.FixedZone("x", 3600*5+1800)), time.Date(2020, 1, 1, 0, 0, 0, 0, time.FixedZone("", 24*3600)), time.Date(2020, 1, 1, 0, 0, 0, 0, time.FixedZone("", -24*3600)), time.Date(2020, 1, 1, 0, 0, 0, 0, time.FixedZone("", 23*3600+59*60+59)))
		return out
	case T[time.Duration]():
		add(time.Duration(1500)*time.Millisecond, time.Duration(0), time.Duration(-1), time.Duration(math.MaxInt64))
		return out
	case T[any]():
		x := 5
		for _, v := range []any{map[string]any{"b": 1, "a": nil, "<": "x"}, nil, (*int)(nil), new(*int), 1, "s<", 1.5, true, []any{1, "a", nil}, VMStruct{3}, &PMStruct{4}, PMStruct{4}, &x, Base{ID: 1}, []byte("hi"), json.Number("7"), map[int]string{2: "b", 10: "a"}, float32(0.1), uint8(200), (*Base)(nil), map[string]any(nil), []any(nil)} {
			if v == nil {
				out = append(out, zero)
			} else {
				e := reflect.New(t).Elem()
				e.Set(reflect.ValueOf(v))
				out = append(out, e)
			}
		}
		return out
	case T[NamedAny]():
		y, z := 6, 7
		pz := &z
		for _, v := range []any{5, nil, &pz, "s", (*int)(nil), &y, map[string]any{"k": 1}, []any{1}, Base{ID: 2}, &Base{ID: 3}} {
			e := reflect.New(t).Elem()
			if v != nil {
				e.Set(reflect.ValueOf(v))
			}
			out = append(out, e)
		}
		return out
	case T[Iface]():
		for _, v := range []any{ImplV{1}, nil, &ImplP{"x"}, (*ImplP)(nil)} {
			e := reflect.New(t).Elem()
			if v != nil {
				e.Set(reflect.ValueOf(v))
			}
			out = append(out, e)
		}
		return out
	}
	switch t.Kind() {
	case reflect.Bool:
		add(true, false)
	case reflect.Int, reflect.Int8, reflect.Int16, reflect.Int32, reflect.Int64:
		for _, x := range []int64{1, 0, -1, 9, 10, 99, 100, 12345, -128, 127, math.MaxInt16, math.MinInt32, math.MaxInt64, math.MinInt64} {
			v := reflect.New(t).Elem()
			if !v.OverflowInt(x) {
				v.SetInt(x)
				out = append(out, v)
			}
		}
	case reflect.Uint, reflect.Uint8, reflect.Uint16, reflect.Uint32, reflect.Uint64, reflect.Uintptr:
		for _, x := range []uint64{1, 0, 9, 10, 255, 65535, math.MaxUint32, math.MaxUint64} {
			v := reflect.New(t).Elem()
			if !v.OverflowUint(x) {
				v.SetUint(x)
				out = append(out, v)
			}
		}
	case reflect.Float32:
		for _, x := range append([]float64{float64(float32(0.1)), float64(float32(1e21)), float64(float32(1e-7)), math.MaxFloat32}, f64Domain[:4]...) {
			v := reflect.New(t).Elem()
			v.SetFloat(x)
			out = append(out, v)
		}
		out[0], out[4] = out[4], out[0]
		out[1], out[5] = out[5], out[1]
		for _, x := range []float64{math.NaN(), math.Inf(-1), math.Copysign(0, -1)} {
			v := reflect.New(t).Elem()
			v.SetFloat(x)
			out = append(out, v)
		}
	case reflect.Float64:
		for _, x := range f64Domain {
			v := reflect.New(t).Elem()
			v.SetFloat(x)
			out = append(out, v)
		}
	case reflect.String:
		for _, s := range strDomain {
			v := reflect.New(t).Elem()
			v.SetString(s)
			out = append(out, v)
		}
	case reflect.Slice:
		if t.Elem().Kind() == reflect.Uint8 {
			for _, b := range [][]byte{[]byte("hi!"), nil, {}, {0xff}, make([]byte, 2), make([]byte, 49), []byte(strings.Repeat("k", 3000))} {
				v := reflect.New(t).Elem()
				if b != nil {
					v.SetBytes(b)
				}
				out = append(out, v)
			}
			return out
		}
		ed := Domain(t.Elem(), depth+1)
		mk := func(idx ...int) reflect.Value {
			s := reflect.MakeSlice(t, len(idx), len(idx))
			for i, j := range idx {
				s.Index(i).Set(ed[j%len(ed)])
			}
			return s
		}
		out = append(out, mk(0, 1), zero, mk(), mk(1))
		for j := 2; j < len(ed) && j < 6; j++ {
			out = append(out, mk(0, j))
		}
		if depth == 0 {
			out = append(out, mk(0, 1, 2, 3, 4, 5, 6, 7, 8, 9, 10, 11))
		}
	case reflect.Array:
		ed := Domain(t.Elem(), depth+1)
		for j := 0; j < len(ed) && j < 5; j++ {
			a := reflect.New(t).Elem()
			for i := 0; i < t.Len(); i++ {
				a.Index(i).Set(ed[(j+i)%len(ed)])
			}
			out = append(out, a)
			if t.Len() == 0 {
				break
			}
		}
		if len(out) > 1 {
			out[1] = zero
		}
	case reflect.Map:
		kd := Domain(t.Key(), depth+1)
		ed := Domain(t.Elem(), depth+1)
		mk := func(n, off int) reflect.Value {
			m := reflect.MakeMap(t)
			texts := map[string]bool{}
			for i := 0; i < n && i < len(kd); i++ {
				k := kd[i]
				if k.Kind() == reflect.Float64 && k.Float() != k.Float() {
					continue
				}
				if k.Kind() == reflect.Ptr {
					// distinct pointers to equal values would be written under the same key text, in an
					// order that neither encoder defines
					txt := "<nil>"
					if !k.IsNil() {
						txt = fmt.Sprint(k.Elem().Interface())
					}
					if texts[txt] {
						continue
					}
					texts[txt] = true
				}
				m.SetMapIndex(k, ed[(i+off)%len(ed)])
			}
			return m
		}
		out = append(out, mk(2, 0), zero, reflect.MakeMap(t), mk(1, 1), mk(len(kd), 0))
		if k := t.Key().Kind(); k >= reflect.Int && k <= reflect.Uintptr {
			// keys whose decimal texts sort differently from their values (neighbours of equal width and sign,
			// widths that differ by one, both signs)
			m := reflect.MakeMap(t)
			for i, x := range []int64{-13, -12, -2, -1, 9, 10, 11, -100, -99, 100, 99, 2, 1} {
				kv := reflect.New(t.Key()).Elem()
				if k <= reflect.Int64 {
					if kv.OverflowInt(x) {
						continue
					}
					kv.SetInt(x)
				} else {
					if x < 0 || kv.OverflowUint(uint64(x)) {
						continue
					}
					kv.SetUint(uint64(x))
				}
				m.SetMapIndex(kv, ed[i%len(ed)])
			}
			out = append(out, m)
		}
		for j := 2; j < len(ed) && j < 6; j++ {
			out = append(out, mk(1, j))
		}
	case reflect.Ptr:
		ed := Domain(t.Elem(), depth+1)
		out = append(out, ptrTo(ed[0]).Convert(t), zero)
		for j := 1; j < len(ed) && j < 6; j++ {
			out = append(out, ptrTo(ed[j]).Convert(t))
		}
	case reflect.Struct:
		n := t.NumField()
		doms := make([][]reflect.Value, n)
		settable := func(i int) bool { return t.Field(i).PkgPath == "" }
		for i := 0; i < n; i++ {
			if settable(i) {
				if depth > 3 {
					doms[i] = []reflect.Value{reflect.Zero(t.Field(i).Type), reflect.Zero(t.Field(i).Type)}
				} else {
					doms[i] = Domain(t.Field(i).Type, depth+1)
				}
			}
		}
		mk := func(pick func(i int) int) reflect.Value {
			v := reflect.New(t).Elem()
			for i := 0; i < n; i++ {
				if settable(i) {
					v.Field(i).Set(doms[i][pick(i)%len(doms[i])])
				}
			}
			return v
		}
		out = append(out, mk(func(int) int { return 0 }), zero)
		if n <= 40 {
			for i := 0; i < n; i++ {
				if !settable(i) {
					continue
				}
				lim := 4
				if n == 1 {
					lim = 64
				}
				for j := 1; j < len(doms[i]) && j <= lim; j++ {
					i, j := i, j
					if j == 1 {
						out = append(out, mk(func(k int) int { // everything typical but field i zero
							if k == i {
								return 1
							}
							return 0
						}))
						continue
					}
					out = append(out, mk(func(k int) int { // everything zero but field i
						if k == i {
							return j
						}
						return 1
					}))
				}
			}
		}
	default:
		out = append(out, zero, zero)
	}
	if len(out) == 1 {
		out = append(out, zero)
	}
	return out
}

var domainCache = map[reflect.Type][]reflect.Value{}

// CachedDomain is Domain(t, 0) memoised per type.
func CachedDomain(t reflect.Type) []reflect.Value {
	if d, ok := domainCache[t]; ok {
		return d
	}
	d := Domain(t, 0)
	domainCache[t] = d
	return d
}

// Describe renders a value for samples.
func Describe(v reflect.Value) string {
	s := fmt.Sprintf("%#v", safe(v, 0))
	if len(s) > 260 {
		s = s[:260] + "…"
	}
	return s
}

func safe(v reflect.Value, depth int) any {
	if !v.IsValid() {
		return nil
	}
	if depth > 4 {
		return "…"
	}
	switch v.Kind() {
	case reflect.Ptr:
		if v.IsNil() {
			return nil
		}
		return []any{"&", safe(v.Elem(), depth+1)}
	case reflect.Interface:
		if v.IsNil() {
			return nil
		}
		return safe(v.Elem(), depth+1)
	case reflect.Struct:
		m := map[string]any{}
		for i := 0; i < v.NumField() && i < 6; i++ {
			f := v.Field(i)
			if !f.CanInterface() {
				if !f.CanAddr() {
					m[v.Type().Field(i).Name] = "(unexported)"
					continue
				}
				f = reflect.NewAt(f.Type(), unsafe.Pointer(f.UnsafeAddr())).Elem()
			}
			m[v.Type().Field(i).Name] = safe(f, depth+1)
		}
		return m
	case reflect.Slice, reflect.Array:
		if v.Kind() == reflect.Slice && v.IsNil() {
			return "nil"
		}
		if v.Len() > 4 {
			return fmt.Sprintf("%s(len=%d)", v.Type(), v.Len())
		}
		var out []any
		for i := 0; i < v.Len(); i++ {
			out = append(out, safe(v.Index(i), depth+1))
		}
		return out
	case reflect.Map:
		if v.IsNil() {
			return "nil"
		}
		if v.Len() > 3 {
			return fmt.Sprintf("%s(len=%d)", v.Type(), v.Len())
		}
		m := map[string]any{}
		it := v.MapRange()
		for it.Next() {
			m[fmt.Sprint(it.Key())] = safe(it.Value(), depth+1)
		}
		return m
	case reflect.String:
		if v.Len() > 16 {
			return fmt.Sprintf("string(len=%d)", v.Len())
		}
		return v.String()
	}
	if v.CanInterface() {
		return v.Interface()
	}
	return v.String()
}

// Clone deep-copies v (pointers, slices, maps, interfaces) so that two
// decoders can be given identical but independent targets.
func Clone(v reflect.Value) reflect.Value {
	return clone(v, map[unsafe.Pointer]reflect.Value{})
}

func clone(v reflect.Value, seen map[unsafe.Pointer]reflect.Value) reflect.Value {
	if !v.IsValid() {
		return v
	}
	out := reflect.New(v.Type()).Elem()
	switch v.Kind() {
	case reflect.Ptr:
		if v.IsNil() {
			return out
		}
		if c, ok := seen[v.UnsafePointer()]; ok {
			return c.Convert(v.Type())
		}
		p := reflect.New(v.Type().Elem())
		seen[v.UnsafePointer()] = p
		p.Elem().Set(clone(v.Elem(), seen))
		return p.Convert(v.Type())
	case reflect.Interface:
		if v.IsNil() {
			return out
		}
		out.Set(clone(v.Elem(), seen))
	case reflect.Slice:
		if v.IsNil() {
			return out
		}
		s := reflect.MakeSlice(v.Type(), v.Len(), v.Cap())
		for i := 0; i < v.Len(); i++ {
			s.Index(i).Set(clone(v.Index(i), seen))
		}
		return s
	case reflect.Array:
		for i := 0; i < v.Len(); i++ {
			out.Index(i).Set(clone(v.Index(i), seen))
		}
	case reflect.Map:
		if v.IsNil() {
			return out
		}
		m := reflect.MakeMapWithSize(v.Type(), v.Len())
		it := v.MapRange()
		for it.Next() {
			m.SetMapIndex(clone(it.Key(), seen), clone(it.Value(), seen))
		}
		return m
	case reflect.Struct:
		if v.Type() == T[time.Time]() {
			out.Set(v)
			return out
		}
		for i := 0; i < v.NumField(); i++ {
			if v.Type().Field(i).PkgPath != "" {
				continue // unexported: left zero in both copies
			}
			out.Field(i).Set(clone(v.Field(i), seen))
		}
	default:
		out.Set(v)
	}
	return out
}

// DeepEq is reflect.DeepEqual with time.Time compared by instant and zone
// offset (not by location pointer) and NaN equal to NaN; it returns the path of
// the first difference.
func DeepEq(a, b reflect.Value) (bool, string) { return deepEq(a, b, "", 0) }

// LastPtrDiff is the pointer type at the most recent "nil pointer" difference.
var LastPtrDiff reflect.Type

func deepEq(a, b reflect.Value, path string, depth int) (bool, string) {
	if !a.IsValid() || !b.IsValid() {
		if a.IsValid() == b.IsValid() {
			return true, ""
		}
		return false, path + ": validity"
	}
	if a.Type() != b.Type() {
		return false, fmt.Sprintf("%s: dynamic type %s != %s", path, a.Type(), b.Type())
	}
	if depth > 60 {
		return true, ""
	}
	switch a.Kind() {
	case reflect.Ptr:
		if a.IsNil() != b.IsNil() {
			LastPtrDiff = a.Type()
			return false, fmt.Sprintf("%s: nil pointer %v != %v", path, a.IsNil(), b.IsNil())
		}
		if a.IsNil() {
			return true, ""
		}
		return deepEq(a.Elem(), b.Elem(), path+"*", depth+1)
	case reflect.Interface:
		if a.IsNil() != b.IsNil() {
			return false, fmt.Sprintf("%s: nil interface %v != %v", path, a.IsNil(), b.IsNil())
		}
		if a.IsNil() {
			return true, ""
		}
		return deepEq(a.Elem(), b.Elem(), path+"(iface)", depth+1)
	case reflect.Slice:
		if a.IsNil() != b.IsNil() {
			return false, fmt.Sprintf("%s: nil slice %v != %v", path, a.IsNil(), b.IsNil())
		}
		fallthrough
	case reflect.Array:
		if a.Len() != b.Len() {
			return false, fmt.Sprintf("%s: len %d != %d", path, a.Len(), b.Len())
		}
		for i := 0; i < a.Len(); i++ {
			if ok, why := deepEq(a.Index(i), b.Index(i), fmt.Sprintf("%s[%d]", path, i), depth+1); !ok {
				return false, why
			}
		}
	case reflect.Map:
		if a.IsNil() != b.IsNil() {
			return false, fmt.Sprintf("%s: nil map %v != %v", path, a.IsNil(), b.IsNil())
		}
		if a.Len() != b.Len() {
			return false, fmt.Sprintf("%s: map len %d != %d", path, a.Len(), b.Len())
		}
		it := a.MapRange()
		for it.Next() {
			bv := b.MapIndex(it.Key())
			if !bv.IsValid() && (it.Key().Kind() == reflect.Ptr || !a.MapIndex(it.Key()).IsValid()) {
				// pointer keys of two independent targets: match by what they point to; keys that do not
				// equal themselves (they hold a NaN) are matched the same way, NaN being equal to NaN here
				jt := b.MapRange()
				for jt.Next() {
					if ok, _ := deepEq(it.Key(), jt.Key(), path, depth+1); ok {
						bv = jt.Value()
						break
					}
				}
			}
			if !bv.IsValid() {
				return false, fmt.Sprintf("%s: key %v missing", path, it.Key())
			}
			if ok, why := deepEq(it.Value(), bv, fmt.Sprintf("%s[%v]", path, it.Key()), depth+1); !ok {
				return false, why
			}
		}
	case reflect.Struct:
		if a.Type() == T[time.Time]() && a.CanInterface() {
			ta, tb := a.Interface().(time.Time), b.Interface().(time.Time)
			_, oa := ta.Zone()
			_, ob := tb.Zone()
			if !ta.Equal(tb) || oa != ob {
				return false, fmt.Sprintf("%s: time %v != %v", path, ta, tb)
			}
			return true, ""
		}
		for i := 0; i < a.NumField(); i++ {
			if a.Type().Field(i).PkgPath != "" && !a.Type().Field(i).Anonymous {
				continue
			}
			if ok, why := deepEq(a.Field(i), b.Field(i), path+"."+a.Type().Field(i).Name, depth+1); !ok {
				return false, why
			}
		}
	case reflect.Float32, reflect.Float64:
		if af, bf := a.Float(), b.Float(); af != bf && !(af != af && bf != bf) {
			return false, fmt.Sprintf("%s: %v != %v", path, af, bf)
		} else if math.Signbit(af) != math.Signbit(bf) {
			return false, fmt.Sprintf("%s: sign of zero differs", path)
		}
	case reflect.Bool:
		if a.Bool() != b.Bool() {
			return false, fmt.Sprintf("%s: %v != %v", path, a.Bool(), b.Bool())
		}
	case reflect.String:
		if a.String() != b.String() {
			return false, fmt.Sprintf("%s: %q != %q", path, a.String(), b.String())
		}
	case reflect.Int, reflect.Int8, reflect.Int16, reflect.Int32, reflect.Int64:
		if a.Int() != b.Int() {
			return false, fmt.Sprintf("%s: %d != %d", path, a.Int(), b.Int())
		}
	case reflect.Uint, reflect.Uint8, reflect.Uint16, reflect.Uint32, reflect.Uint64, reflect.Uintptr:
		if a.Uint() != b.Uint() {
			return false, fmt.Sprintf("%s: %d != %d", path, a.Uint(), b.Uint())
		}
	}
	return true, ""
}

// Package jgen enumerates Go types ("programs" compiled into json codecs) and
// boundary values for them. Types that reflect cannot compose (methods,
// embedding) are declared statically here. DESIGN.md §2.2.
package jgen

import (
	"encoding/json"
	"errors"
	"fmt"
	"strconv"
	"strings"
	"time"
)

// ---- method-bearing leaves: Marshaler / TextMarshaler x value / pointer receiver x underlying kind

type VMStruct struct{ A int }

func (v VMStruct) MarshalJSON() ([]byte, error) { return []byte(fmt.Sprintf(`{"vm":%d}`, v.A)), nil }
func (v *VMStruct) UnmarshalJSON(b []byte) error {
	var x struct{ VM int }
	if err := json.Unmarshal(b, &x); err != nil {
		return err
	}
	v.A = x.VM
	return nil
}

type PMStruct struct{ A int }

func (v *PMStruct) MarshalJSON() ([]byte, error) {
	return []byte(fmt.Sprintf(` [ %d , "<pm>" ] `, v.A)), nil
}
func (v *PMStruct) UnmarshalJSON(b []byte) error {
	var x []any
	if err := json.Unmarshal(b, &x); err != nil {
		return err
	}
	if len(x) > 0 {
		if f, ok := x[0].(float64); ok {
			v.A = int(f)
		}
	}
	return nil
}

type VTStruct struct{ A int }

func (v VTStruct) MarshalText() ([]byte, error) { return []byte(fmt.Sprintf("vt<%d>", v.A)), nil }
func (v *VTStruct) UnmarshalText(b []byte) error {
	if v == nil {
		return errors.New("nil receiver")
	}
	s := strings.TrimSuffix(strings.TrimPrefix(string(b), "vt<"), ">")
	n, err := strconv.Atoi(s)
	v.A = n
	return err
}

type PTStruct struct{ A int }

func (v *PTStruct) MarshalText() ([]byte, error) { return []byte(fmt.Sprintf("pt&%d", v.A)), nil }
func (v *PTStruct) UnmarshalText(b []byte) error {
	n, err := strconv.Atoi(strings.TrimPrefix(string(b), "pt&"))
	v.A = n
	return err
}

type VMString string

func (v VMString) MarshalJSON() ([]byte, error) { return json.Marshal("vms:" + string(v)) }
func (v *VMString) UnmarshalJSON(b []byte) error {
	var s string
	err := json.Unmarshal(b, &s)
	*v = VMString(strings.TrimPrefix(s, "vms:"))
	return err
}

type PTString string

func (v *PTString) MarshalText() ([]byte, error) { return []byte("pts:" + string(*v)), nil }
func (v *PTString) UnmarshalText(b []byte) error {
	*v = PTString(strings.TrimPrefix(string(b), "pts:"))
	return nil
}

type VTInt int

func (v VTInt) MarshalText() ([]byte, error) { return []byte("i" + strconv.Itoa(int(v))), nil }
func (v *VTInt) UnmarshalText(b []byte) error {
	n, err := strconv.Atoi(strings.TrimPrefix(string(b), "i"))
	*v = VTInt(n)
	return err
}

type PMInt int

func (v *PMInt) MarshalJSON() ([]byte, error) { return []byte(strconv.Itoa(int(*v) + 1000)), nil }
func (v *PMInt) UnmarshalJSON(b []byte) error {
	n, err := strconv.Atoi(string(b))
	*v = PMInt(n - 1000)
	return err
}

type VMSlice []int

func (v VMSlice) MarshalJSON() ([]byte, error) { return []byte(fmt.Sprintf(`{"len":%d}`, len(v))), nil }

type VTSlice []byte

func (v VTSlice) MarshalText() ([]byte, error) { return append([]byte("b:"), v...), nil }

// slice and map kinds with text methods on the pointer receiver: null clears them without calling the method
type PTSlice []string

func (v PTSlice) MarshalText() ([]byte, error) { return []byte(strings.Join(v, ",")), nil }
func (v *PTSlice) UnmarshalText(b []byte) error {
	*v = append(*v, strings.Split(string(b), ",")...)
	return nil
}

type PTMap map[string]int

func (v PTMap) MarshalText() ([]byte, error) { return []byte(fmt.Sprintf("len=%d", len(v))), nil }
func (v *PTMap) UnmarshalText(b []byte) error {
	if *v == nil {
		*v = PTMap{}
	}
	(*v)[string(b)] = len(b)
	return nil
}

type VMMap map[string]int

func (v VMMap) MarshalJSON() ([]byte, error) { return []byte(fmt.Sprintf(`[%d]`, len(v))), nil }

// ErrM fails when A is odd; its output is invalid JSON when A == 2.
type ErrM struct{ A int }

func (v ErrM) MarshalJSON() ([]byte, error) {
	if v.A%2 == 1 {
		return nil, errors.New("odd")
	}
	if v.A == 2 {
		return []byte(`{"a":}`), nil
	}
	return []byte(`"ok"`), nil
}

// ErrT is a TextMarshaler that fails when A is odd.
type ErrT struct{ A int }

func (v ErrT) MarshalText() ([]byte, error) {
	if v.A%2 == 1 {
		return nil, errors.New("odd")
	}
	return []byte("t\"<> "), nil
}

// Both implements both interfaces (MarshalJSON wins).
type Both struct{ A int }

func (v Both) MarshalJSON() ([]byte, error) { return []byte(`"json"`), nil }
func (v Both) MarshalText() ([]byte, error) { return []byte(`text`), nil }

type NamedBytes []byte
type NamedString string
type NamedInt int

// NamedIntPtr is a named pointer type: encoding/json does not look through it
// for the string option.
type NamedIntPtr *int

// KeyT is a map key implementing TextMarshaler by value; KeyPT by pointer.
type KeyT struct{ A, B int }

func (k KeyT) MarshalText() ([]byte, error) { return []byte(fmt.Sprintf("%d-%d", k.A, k.B)), nil }
func (k *KeyT) UnmarshalText(b []byte) error {
	_, err := fmt.Sscanf(string(b), "%d-%d", &k.A, &k.B)
	return err
}

type KeyPT struct{ A int }

func (k *KeyPT) MarshalText() ([]byte, error) { return []byte(fmt.Sprintf("p%d", k.A)), nil }
func (k *KeyPT) UnmarshalText(b []byte) error {
	_, err := fmt.Sscanf(string(b), "p%d", &k.A)
	return err
}

// Stringer-like non-empty interface.
type Iface interface{ Foo() string }

type ImplV struct{ X int }

func (ImplV) Foo() string { return "v" }

type ImplP struct{ X string }

func (*ImplP) Foo() string { return "p" }

// ---- embedding family (cannot be composed with reflect.StructOf)

type Base struct {
	ID   int
	Name string `json:"name,omitempty"`
}

type base2 struct {
	ID    int `json:"id"`
	Inner string
	priv  int
}

type Deep struct {
	Base
	Level int
}

type EmbedVal struct {
	Base
	Extra bool
}

type EmbedPtr struct {
	*Base
	Extra bool
}

type EmbedUnexpVal struct {
	base2
	Extra int
}

type EmbedUnexpPtr struct {
	*base2
	Extra int
}

type EmbedConflict struct { // ID at depth 0 wins over Base.ID
	Base
	ID string
}

type EmbedAmbiguous struct { // two ID at the same depth, untagged: both dropped
	Base
	Other
}

type Other struct {
	ID   int
	Misc string
}

type EmbedTaggedWins struct { // same depth, one tagged: tagged wins
	Base
	TaggedID
}

type TaggedID struct {
	X int `json:"ID"`
}

// tags at different embedding depths: only the shallowest depth counts (the tagged V of TagShallow wins over
// the untagged V of Untagged at the same depth; the tagged V two levels down in TagDeepOuter is irrelevant)
type EmbedTagDepths struct {
	TagShallow
	Untagged
	TagDeepOuter
}

type TagShallow struct {
	V int `json:"V"`
}

type Untagged struct{ V int }

type TagDeepOuter struct{ TagDeepInner }

type TagDeepInner struct {
	V int `json:"V"`
	W int
}

// value-receiver MarshalText together with pointer-receiver MarshalJSON: encoding/json uses the JSON method
// wherever the value is addressable
type VTPMStruct struct{ A int }

func (v VTPMStruct) MarshalText() ([]byte, error) { return []byte(fmt.Sprintf("text%d", v.A)), nil }
func (v *VTPMStruct) MarshalJSON() ([]byte, error) {
	return []byte(fmt.Sprintf(`{"json":%d}`, v.A)), nil
}

// string kind with text methods: as a map key encoding/json writes the string itself but decodes through UnmarshalText
type VTString string

func (v VTString) MarshalText() ([]byte, error) { return []byte("TXT-" + string(v)), nil }
func (v *VTString) UnmarshalText(b []byte) error {
	*v = VTString("untxt:" + string(b))
	return nil
}

// integer kind with MarshalText only (no UnmarshalText): decoded as an integer key
type KeyMTOnly int

func (k KeyMTOnly) MarshalText() ([]byte, error) { return []byte("mt" + strconv.Itoa(int(k))), nil }

// struct key with MarshalText that can hold a NaN: such a key is never found by a map lookup
type KeyNaN struct{ F float64 }

func (k KeyNaN) MarshalText() ([]byte, error) {
	return []byte("f" + strconv.FormatFloat(k.F, 'g', -1, 64)), nil
}

// the same struct type reached as a map value (not addressable) and as a slice element (addressable): the
// pointer-receiver methods of its field apply in the second position only
type HasPM struct{ F PMStruct }

type AddrMapThenSlice struct {
	A map[string]HasPM
	B []HasPM
}

type AddrSliceThenMap struct {
	B []HasPM
	A map[string]HasPM
	C [1]HasPM
	D *HasPM
}

// the pointer-receiver marshaler sits one and two levels below the struct type that occurs both in
// addressable and in non-addressable positions (by value in a nested struct, in an array, in both)
type AddrDeepInner struct{ U PMStruct }

type AddrDeepT struct {
	In  AddrDeepInner
	Arr [1]PMInt
	N   struct{ X [2]AddrDeepInner }
	T   PTString
}

type AddrDeepValThenPtr struct {
	A AddrDeepT
	B *AddrDeepT
}

type AddrDeepSliceThenVal struct {
	L []AddrDeepT
	A AddrDeepT
	M map[string]AddrDeepT
	P *AddrDeepT
}

type AddrDeepMapThenArr struct {
	M map[string]AddrDeepT
	R [1]AddrDeepT
	I any
	L []AddrDeepT
}

// embedded unexported non-struct type with a tag: ignored by encoding/json
type unexpInt int

type EmbedUnexpNonStructTagged struct {
	unexpInt `json:"x"`
	Y        int
}

// self-referential named slice with a pointer-receiver MarshalJSON
type RecPM []RecPM

func (r *RecPM) MarshalJSON() ([]byte, error) { return []byte(fmt.Sprintf(`"rec%d"`, len(*r))), nil }

// omitempty fields promoted through an embedded pointer that does not sit at offset 0, at offsets that differ
// from the pointer's own
type InnerOmit struct {
	Pad int    `json:"-"`
	A   int    `json:"a,omitempty"`
	B   string `json:"b,omitempty"`
	C   []int  `json:"c,omitempty"`
}

type EmbedPtrOmit struct {
	X int `json:"x"`
	Y string
	*InnerOmit
	Z *int `json:"z,omitempty"`
}

// omitempty fields of every reference kind promoted through an embedded pointer that is not the first field
// (their offsets inside the pointed-to struct differ from the pointer's own offset)
type InnerOmitRefs struct {
	M  map[string]int    `json:"m,omitempty"` // offset 0
	W  int               `json:"w"`           // 8
	H  int               `json:"h"`           // 16
	N  int               `json:"n"`           // 24
	S  []int             `json:"s,omitempty"`
	P  *int              `json:"p,omitempty"`
	I  any               `json:"i,omitempty"`
	T  string            `json:"t,omitempty"`
	MM map[string]string `json:"mm,omitempty"`
}

// the embedded pointer sits at offset 24 (where the pointed-to struct has an integer) ...
type EmbedPtrOmitRefs struct {
	X int
	Y string
	*InnerOmitRefs
	Z bool `json:"z,omitempty"`
}

// ... and at offset 8
type EmbedPtrOmitRefs8 struct {
	X int
	*InnerOmitRefs
}

// structs embedding each other by pointer
type MutA struct {
	X int
	*MutB
}

type MutB struct {
	Y int
	*MutA
}

// two struct types that refer to each other, one way through an embedded
// pointer and the way back through an ordinary field (or a map value)
type RecEmbA struct{ *RecEmbB }
type RecEmbB struct {
	X int
	P *RecEmbA
}
type RecEmbE struct{ *RecEmbF }
type RecEmbF struct {
	Z int
	M map[string]RecEmbE
}

// tags whose name is not valid (a backslash) count as no tag at all
type InvTagInner struct{ A int }
type InvTagEmbedded struct {
	InvTagInner `json:"\\"`
	B           int
}
type InvTagSame struct {
	X int `json:"\\"`
	Y int `json:"X"`
}
type InvTagE1 struct {
	X int `json:"\\"`
}
type InvTagE2 struct{ X int }
type InvTagDom struct {
	InvTagE1
	InvTagE2
}

// ambiguity decided over the whole embedding tree: AmbE1 drops its two fields tagged "B", which still make
// the B promoted from AmbE2 ambiguous in AmbT; in AmbU the X that is ambiguous at depth 2 hides the one at depth 3
type AmbE1 struct {
	X int `json:"B"`
	Y int `json:"B"`
}
type AmbE2 struct{ B int }
type AmbT struct {
	AmbE1
	AmbE2
}
type AmbC struct{ X int }
type AmbD struct{ X int }
type AmbA struct {
	AmbC
	AmbD
}
type AmbF struct{ X int }
type AmbE struct{ AmbF }
type AmbB struct{ AmbE }
type AmbU struct {
	AmbA
	AmbB
}

type MutRoot struct {
	A MutA
	B MutB
}

// named empty interface type
type NamedAny interface{}

// self-referential named array type
type RecArr [1]*RecArr

// byte-kind type with value-receiver unmarshaling (slices of it are not base64)
type VUByte uint8

func (VUByte) UnmarshalJSON(b []byte) error {
	_, err := strconv.Atoi(string(b))
	return err
}
func (v VUByte) MarshalJSON() ([]byte, error) { return []byte(strconv.Itoa(int(v) + 1)), nil }

// byte-kind type with MarshalText on the value and MarshalJSON on the pointer receiver: slice elements are
// addressable, so MarshalJSON applies there
type UByteVTPM uint8

func (v UByteVTPM) MarshalText() ([]byte, error) { return []byte("text" + strconv.Itoa(int(v))), nil }
func (v *UByteVTPM) MarshalJSON() ([]byte, error) {
	return []byte(`"json` + strconv.Itoa(int(*v)) + `"`), nil
}

// integer kind with MarshalJSON on the value receiver (map keys are still written in decimal)
type VMInt int

func (v VMInt) MarshalJSON() ([]byte, error) { return []byte(fmt.Sprintf(`{"mj":%d}`, int(v))), nil }

// single-field structs wrapping a func / a chan, with their own marshaling methods
type LazyFn struct{ f func() string }

func (l LazyFn) MarshalJSON() ([]byte, error) {
	if l.f == nil {
		return []byte(`"nil"`), nil
	}
	return []byte(strconv.Quote(l.f())), nil
}

type ChanBox struct{ c chan int }

func (c ChanBox) MarshalText() ([]byte, error) { return []byte(fmt.Sprintf("cap%d", cap(c.c))), nil }

// field names and tags beyond ASCII: keys match under Unicode simple case folding
type NonASCIIKeys struct {
	Café    int
	Straße  int `json:"straße"`
	K       int `json:"KELVIN"`
	S       int `json:"s"`
	Σίσυφος int
}

// two direct fields with the same tag name: encoding/json drops both
type DupTagDirect struct {
	A int `json:"x"`
	B int `json:"x"`
	C int
}

// two tagged fields with the same name at the same embedded depth: both dropped; a deeper one does not resurface
type DupTagEmbedded struct {
	TagShallow
	TaggedV2
	TagDeepOuter
}

type TaggedV2 struct {
	Y int `json:"V"`
}

type EmbedDeep struct { // depth 2 vs depth 1
	Deep
	Other
}

type EmbedMarshaler struct { // promoted MarshalJSON takes over the whole struct
	VMStruct
	Extra int
}

type EmbedTextMarshalerPtr struct {
	*VTStruct
	Extra int
}

type EmbedNonStruct struct {
	NamedInt
	NamedString `json:"ns"`
	Extra       int
}

type EmbedPtrNonStruct struct {
	*NamedInt
	Extra int
}

type EmbedIface struct {
	Iface
	Extra int
}

type EmbedTwoPtr struct { // leading fields come from nil embedded pointers
	*Base
	*Other2
	Tail string
}

type Other2 struct{ Misc2 int }

type Tags struct {
	A int             `json:"a"`
	B int             `json:"-"`
	C int             `json:"-,"`
	D int             `json:",omitempty"`
	E string          `json:"e,omitempty"`
	F float64         `json:",string"`
	G int             `json:"g,omitempty,string"`
	H bool            `json:",string"`
	I string          `json:",string"`
	J *int            `json:",string"`
	K []int           `json:",omitempty"`
	L map[string]int  `json:"l,omitempty"`
	M *Base           `json:",omitempty"`
	N any             `json:"n,omitempty"`
	O [0]int          `json:",omitempty"`
	P [2]int          `json:",omitempty"`
	Q Base            `json:",omitempty"`
	R time.Time       `json:",omitempty"`
	S uint8           `json:"bad name"`
	T int             `json:"<html>&"`
	U int             `json:"é"`
	V float32         `json:",omitempty"`
	W json.Number     `json:",omitempty"`
	X json.RawMessage `json:",omitempty"`
	Y *string         `json:"y"`
	z int
}

// StringOpts has several string-kind fields with the ',string' option next to each other (each one is
// unquoted twice on the way in).
type StringOpts struct {
	A string  `json:"a,string"`
	B string  `json:"b,string"`
	C *string `json:"c,string"`
	I int     `json:"i,string"`
	D string  `json:"d,string"`
	L []struct {
		S string `json:"s,string"`
	} `json:"l"`
}

// CaseFieldsLong: names that are equal up to case next to a name longer than 16 bytes (structs with such a
// name are looked up without the short-key index)
type CaseFieldsLong struct {
	Name                       int
	NAME                       int
	NaMe                       int `json:"name"`
	Other                      int `json:"Name2"`
	AFieldNameBeyondSixteenByt int `json:"aFieldNameBeyondSixteenBytes"`
}

type CaseFields struct {
	Name  int
	NAME  int
	NaMe  int `json:"name"`
	Other int `json:"Name2"`
}

type Recursive struct {
	V    int
	Next *Recursive            `json:",omitempty"`
	Kids []Recursive           `json:",omitempty"`
	M    map[string]*Recursive `json:",omitempty"`
}

type Durations struct {
	D time.Duration
	P *time.Duration
	L []time.Duration
}

// Package pref binds pgen message descriptions to the reference protobuf
// implementation (google.golang.org/protobuf v1.25.0): it synthesises a
// descriptor from the same description that produced the Go struct type and
// converts values both ways. DESIGN.md §4 (C12, C19).
package pref

import (
	"fmt"
	"reflect"

	"google.golang.org/protobuf/proto"
	"google.golang.org/protobuf/reflect/protodesc"
	"google.golang.org/protobuf/reflect/protoreflect"
	"google.golang.org/protobuf/types/descriptorpb"
	"google.golang.org/protobuf/types/dynamicpb"
	"verif/mc/gen/pgen"
)

func scalarType(e pgen.Elem) descriptorpb.FieldDescriptorProto_Type {
	switch e.Kind {
	case pgen.Bool:
		return descriptorpb.FieldDescriptorProto_TYPE_BOOL
	case pgen.Int32:
		if e.Enc == "zigzag32" {
			return descriptorpb.FieldDescriptorProto_TYPE_SINT32
		}
		if e.Enc == "fixed32" {
			return descriptorpb.FieldDescriptorProto_TYPE_SFIXED32
		}
		return descriptorpb.FieldDescriptorProto_TYPE_INT32
	case pgen.Int64, pgen.Int:
		if e.Enc == "zigzag64" {
			return descriptorpb.FieldDescriptorProto_TYPE_SINT64
		}
		if e.Enc == "fixed64" && e.Kind == pgen.Int64 {
			return descriptorpb.FieldDescriptorProto_TYPE_SFIXED64
		}
		return descriptorpb.FieldDescriptorProto_TYPE_INT64
	case pgen.Uint32:
		if e.Enc == "fixed32" {
			return descriptorpb.FieldDescriptorProto_TYPE_FIXED32
		}
		return descriptorpb.FieldDescriptorProto_TYPE_UINT32
	case pgen.Uint64, pgen.Uint:
		if e.Enc == "fixed64" {
			return descriptorpb.FieldDescriptorProto_TYPE_FIXED64
		}
		return descriptorpb.FieldDescriptorProto_TYPE_UINT64
	case pgen.Float32:
		return descriptorpb.FieldDescriptorProto_TYPE_FLOAT
	case pgen.Float64:
		return descriptorpb.FieldDescriptorProto_TYPE_DOUBLE
	case pgen.String:
		return descriptorpb.FieldDescriptorProto_TYPE_STRING
	case pgen.Bytes, pgen.ByteArray:
		return descriptorpb.FieldDescriptorProto_TYPE_BYTES
	case pgen.Message:
		return descriptorpb.FieldDescriptorProto_TYPE_MESSAGE
	}
	panic("scalarType: " + e.String())
}

// Supported reports whether m has a .proto equivalent this package can build.
func Supported(m *pgen.Msg) bool {
	for _, f := range m.Fields {
		if f.Skip {
			continue
		}
		if f.Elem.Kind == pgen.MsgLeaf || f.Elem.Kind == pgen.CustomLeaf || f.Elem.Kind == pgen.RawLeaf || f.Elem.Kind == pgen.BoxLeaf || f.Elem.Kind == pgen.BoxCustom {
			return false
		}
		if f.Number < 1 || (f.Number >= 19000 && f.Number <= 19999) {
			return false
		}
		if f.Elem.Kind == pgen.Message && !Supported(f.Elem.Msg) {
			return false
		}
	}
	return true
}

func strp(s string) *string { return &s }
func i32p(i int32) *int32   { return &i }

func msgProto(name, fq string, m *pgen.Msg) *descriptorpb.DescriptorProto {
	d := &descriptorpb.DescriptorProto{Name: strp(name)}
	opt := descriptorpb.FieldDescriptorProto_LABEL_OPTIONAL
	rep := descriptorpb.FieldDescriptorProto_LABEL_REPEATED
	for i := range m.Fields {
		f := &m.Fields[i]
		if f.Skip {
			continue
		}
		fd := &descriptorpb.FieldDescriptorProto{Name: strp(fmt.Sprintf("f%d", i)), Number: i32p(int32(f.Number)), Label: &opt}
		t := scalarType(f.Elem)
		fd.Type = &t
		sub := fmt.Sprintf("F%d", i)
		if f.Elem.Kind == pgen.Message {
			d.NestedType = append(d.NestedType, msgProto(sub, fq+"."+sub, f.Elem.Msg))
			fd.TypeName = strp(fq + "." + sub)
		}
		switch f.Wrap {
		case pgen.Slice, pgen.SlicePtr:
			fd.Label = &rep
			if f.Elem.Kind != pgen.Message && f.Elem.Kind != pgen.String && f.Elem.Kind != pgen.Bytes && f.Elem.Kind != pgen.ByteArray {
				no := false
				fd.Options = &descriptorpb.FieldOptions{Packed: &no}
			}
		case pgen.MapVal, pgen.MapValPtr:
			entry := fmt.Sprintf("F%dEntry", i)
			kt := scalarType(pgen.Elem{Kind: f.Key, Enc: f.KeyEnc})
			yes := true
			ed := &descriptorpb.DescriptorProto{Name: strp(entry), Options: &descriptorpb.MessageOptions{MapEntry: &yes}}
			ed.Field = append(ed.Field, &descriptorpb.FieldDescriptorProto{Name: strp("key"), Number: i32p(1), Label: &opt, Type: &kt})
			vfd := &descriptorpb.FieldDescriptorProto{Name: strp("value"), Number: i32p(2), Label: &opt, Type: &t}
			if f.Elem.Kind == pgen.Message {
				vfd.TypeName = fd.TypeName
			}
			ed.Field = append(ed.Field, vfd)
			d.NestedType = append(d.NestedType, ed)
			mt := descriptorpb.FieldDescriptorProto_TYPE_MESSAGE
			fd.Type = &mt
			fd.TypeName = strp(fq + "." + entry)
			fd.Label = &rep
		}
		d.Field = append(d.Field, fd)
	}
	return d
}

// Descriptor synthesises the message descriptor of m (proto2 syntax, so that
// optional scalars have presence and repeated scalars are not packed).
func Descriptor(m *pgen.Msg) (protoreflect.MessageDescriptor, error) {
	fdp := &descriptorpb.FileDescriptorProto{
		Name: strp("t.proto"), Package: strp("t"), Syntax: strp("proto2"),
		MessageType: []*descriptorpb.DescriptorProto{msgProto("M", ".t.M", m)},
	}
	fd, err := protodesc.NewFile(fdp, nil)
	if err != nil {
		return nil, err
	}
	return fd.Messages().Get(0), nil
}

func toScalar(fd protoreflect.FieldDescriptor, v reflect.Value) protoreflect.Value {
	switch fd.Kind() {
	case protoreflect.BoolKind:
		return protoreflect.ValueOfBool(v.Bool())
	case protoreflect.Int32Kind, protoreflect.Sint32Kind, protoreflect.Sfixed32Kind:
		return protoreflect.ValueOfInt32(int32(v.Int()))
	case protoreflect.Int64Kind, protoreflect.Sint64Kind, protoreflect.Sfixed64Kind:
		return protoreflect.ValueOfInt64(v.Int())
	case protoreflect.Uint32Kind, protoreflect.Fixed32Kind:
		return protoreflect.ValueOfUint32(uint32(v.Uint()))
	case protoreflect.Uint64Kind, protoreflect.Fixed64Kind:
		return protoreflect.ValueOfUint64(v.Uint())
	case protoreflect.FloatKind:
		return protoreflect.ValueOfFloat32(float32(v.Float()))
	case protoreflect.DoubleKind:
		return protoreflect.ValueOfFloat64(v.Float())
	case protoreflect.StringKind:
		return protoreflect.ValueOfString(v.String())
	case protoreflect.BytesKind:
		if v.Kind() == reflect.Array {
			b := make([]byte, v.Len())
			reflect.Copy(reflect.ValueOf(b), v)
			return protoreflect.ValueOfBytes(b)
		}
		return protoreflect.ValueOfBytes(append([]byte{}, v.Bytes()...))
	}
	panic("toScalar " + fd.Kind().String())
}

func isZero(v reflect.Value) bool {
	switch v.Kind() {
	case reflect.Float32, reflect.Float64:
		return v.Float() == 0 && !signbit(v.Float())
	case reflect.Slice:
		return v.IsNil()
	}
	return v.IsZero()
}

func signbit(f float64) bool { return f < 0 || (f == 0 && 1/f < 0) }

// ToRef converts a Go value of m to a dynamic message. explicitZero also sets
// singular non-pointer scalar fields that hold their zero value (a legal
// encoding in which the default is written explicitly).
func ToRef(md protoreflect.MessageDescriptor, m *pgen.Msg, v reflect.Value, explicitZero bool) *dynamicpb.Message {
	msg := dynamicpb.NewMessage(md)
	for i := range m.Fields {
		f := &m.Fields[i]
		if f.Skip {
			continue
		}
		fd := md.Fields().ByNumber(protoreflect.FieldNumber(f.Number))
		fv := v.Field(i)
		elem := func(ev reflect.Value, efd protoreflect.FieldDescriptor, emd protoreflect.MessageDescriptor) protoreflect.Value {
			if f.Elem.Kind == pgen.Message {
				return protoreflect.ValueOfMessage(ToRef(emd, f.Elem.Msg, ev, explicitZero))
			}
			return toScalar(efd, ev)
		}
		switch f.Wrap {
		case pgen.Plain:
			if f.Elem.Kind == pgen.Message {
				msg.Set(fd, elem(fv, fd, fd.Message()))
			} else if explicitZero || !isZero(fv) {
				msg.Set(fd, elem(fv, fd, nil))
			}
		case pgen.Ptr:
			if !fv.IsNil() {
				msg.Set(fd, elem(fv.Elem(), fd, fd.Message()))
			}
		case pgen.Slice, pgen.SlicePtr:
			l := msg.Mutable(fd).List()
			for j := 0; j < fv.Len(); j++ {
				ev := fv.Index(j)
				if f.Wrap == pgen.SlicePtr {
					ev = ev.Elem()
				}
				l.Append(elem(ev, fd, fd.Message()))
			}
		case pgen.MapVal, pgen.MapValPtr:
			mm := msg.Mutable(fd).Map()
			it := fv.MapRange()
			for it.Next() {
				k := toScalar(fd.MapKey(), it.Key()).MapKey()
				ev := it.Value()
				if f.Wrap == pgen.MapValPtr {
					ev = ev.Elem()
				}
				mm.Set(k, elem(ev, fd.MapValue(), fd.MapValue().Message()))
			}
		}
	}
	return msg
}

func fromScalar(t reflect.Type, pv protoreflect.Value) reflect.Value {
	out := reflect.New(t).Elem()
	switch t.Kind() {
	case reflect.Bool:
		out.SetBool(pv.Bool())
	case reflect.Int, reflect.Int32, reflect.Int64:
		out.SetInt(pv.Int())
	case reflect.Uint, reflect.Uint32, reflect.Uint64:
		out.SetUint(pv.Uint())
	case reflect.Float32, reflect.Float64:
		out.SetFloat(pv.Float())
	case reflect.String:
		out.SetString(pv.String())
	case reflect.Slice:
		out.SetBytes(append([]byte{}, pv.Bytes()...))
	case reflect.Array:
		b := pv.Bytes()
		for i := 0; i < out.Len() && i < len(b); i++ {
			out.Index(i).SetUint(uint64(b[i]))
		}
	}
	return out
}

// FromRef converts a dynamic message back to a Go value of m. It reports
// ok=false if the message carries unknown fields (the encoding did not match
// the descriptor) or a byte array of the wrong length.
func FromRef(msg protoreflect.Message, m *pgen.Msg) (v reflect.Value, ok bool, why string) {
	v = reflect.New(m.Type).Elem()
	if len(msg.GetUnknown()) > 0 {
		return v, false, fmt.Sprintf("reference decoder sees unknown fields % x", []byte(msg.GetUnknown()))
	}
	md := msg.Descriptor()
	for i := range m.Fields {
		f := &m.Fields[i]
		if f.Skip {
			continue
		}
		fd := md.Fields().ByNumber(protoreflect.FieldNumber(f.Number))
		fv := v.Field(i)
		et := f.Elem.GoType()
		elem := func(pv protoreflect.Value) (reflect.Value, bool, string) {
			if f.Elem.Kind == pgen.Message {
				return FromRef(pv.Message(), f.Elem.Msg)
			}
			if f.Elem.Kind == pgen.ByteArray && len(pv.Bytes()) != f.Elem.N {
				return reflect.Value{}, false, fmt.Sprintf("byte array field holds %d bytes on the wire", len(pv.Bytes()))
			}
			return fromScalar(et, pv), true, ""
		}
		set := func(dst reflect.Value, pv protoreflect.Value, ptr bool) (bool, string) {
			ev, ok, why := elem(pv)
			if !ok {
				return false, why
			}
			if ptr {
				p := reflect.New(et)
				p.Elem().Set(ev)
				dst.Set(p)
			} else {
				dst.Set(ev)
			}
			return true, ""
		}
		switch f.Wrap {
		case pgen.Plain:
			if msg.Has(fd) {
				if ok, why := set(fv, msg.Get(fd), false); !ok {
					return v, false, why
				}
			}
		case pgen.Ptr:
			if msg.Has(fd) {
				if ok, why := set(fv, msg.Get(fd), true); !ok {
					return v, false, why
				}
			}
		case pgen.Slice, pgen.SlicePtr:
			l := msg.Get(fd).List()
			s := reflect.MakeSlice(fv.Type(), l.Len(), l.Len())
			for j := 0; j < l.Len(); j++ {
				if ok, why := set(s.Index(j), l.Get(j), f.Wrap == pgen.SlicePtr); !ok {
					return v, false, why
				}
			}
			fv.Set(s)
		case pgen.MapVal, pgen.MapValPtr:
			mm := msg.Get(fd).Map()
			out := reflect.MakeMap(fv.Type())
			var bad string
			mm.Range(func(k protoreflect.MapKey, pv protoreflect.Value) bool {
				kv := fromScalar(fv.Type().Key(), k.Value())
				ev := reflect.New(fv.Type().Elem()).Elem()
				if ok, why := set(ev, pv, f.Wrap == pgen.MapValPtr); !ok {
					bad = why
					return false
				}
				out.SetMapIndex(kv, ev)
				return true
			})
			if bad != "" {
				return v, false, bad
			}
			fv.Set(out)
		}
	}
	return v, true, ""
}

// Marshal encodes deterministically with the reference implementation.
func Marshal(msg proto.Message) ([]byte, error) {
	return proto.MarshalOptions{Deterministic: true}.Marshal(msg)
}

// Unmarshal decodes b with the reference implementation.
func Unmarshal(b []byte, md protoreflect.MessageDescriptor) (*dynamicpb.Message, error) {
	msg := dynamicpb.NewMessage(md)
	err := proto.UnmarshalOptions{}.Unmarshal(b, msg)
	return msg, err
}

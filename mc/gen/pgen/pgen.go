// Package pgen enumerates protobuf message types (built with reflect.StructOf)
// and boundary values for them, driven by explorer choices. Shared by the
// proto checks (C03, C07, C12, C16, C19). DESIGN.md §2.2.
package pgen

import (
	"fmt"
	"io"
	"math"
	"reflect"
	"strings"

	segproto "github.com/segmentio/encoding/proto"
	"verif/mc/explore"
)

type Kind int

const (
	Bool Kind = iota
	Int
	Int32
	Int64
	Uint
	Uint32
	Uint64
	Float32
	Float64
	String
	Bytes
	ByteArray
	Message
	MsgLeaf    // static type implementing proto.Message
	CustomLeaf // static type implementing the gogo-style custom interface
	RawLeaf    // proto.RawMessage: a Message whose Marshal copies without looking at the room it is given
	BoxLeaf    // a Message that is a struct whose only field is a pointer (pointer-shaped in an interface)
	BoxCustom  // the same implementing the gogo-style custom interface
)

var kindNames = [...]string{"bool", "int", "int32", "int64", "uint", "uint32", "uint64", "float32", "float64", "string", "[]byte", "[N]byte", "struct", "MsgLeaf", "CustomLeaf", "RawMessage", "LeafBox", "LeafBoxCustom"}

// Wrap says how the element is wrapped in the Go field type.
type Wrap int

const (
	Plain     Wrap = iota
	Ptr            // *T
	Slice          // []T
	SlicePtr       // []*T
	MapVal         // map[K]T
	MapValPtr      // map[K]*T
)

// Elem describes a (possibly tagged) element type.
type Elem struct {
	Kind   Kind
	N      int    // ByteArray length
	Enc    string // "", "zigzag32", "zigzag64", "fixed32", "fixed64", "varint" (explicit tag wire)
	Msg    *Msg   // Kind == Message
	goType reflect.Type
}

// Field is one field of a message.
type Field struct {
	Name   string
	Elem   Elem
	Wrap   Wrap
	Key    Kind   // map key kind
	KeyEnc string // map key encoding (protobuf_key tag): zigzag32, zigzag64, fixed32, fixed64
	Number int    // effective field number
	Tagged bool   // carries a protobuf struct tag
	Skip   bool   // unexported field (not part of the message)
}

// Msg is a message type description together with the Go type built from it.
type Msg struct {
	Fields []Field
	Type   reflect.Type
}

func (e Elem) String() string {
	s := kindNames[e.Kind]
	switch e.Kind {
	case ByteArray:
		s = fmt.Sprintf("[%d]byte", e.N)
	case Message:
		s = e.Msg.String()
	}
	if e.Enc != "" {
		s += "/" + e.Enc
	}
	return s
}

func (f Field) keyEncSuffix() string {
	if f.KeyEnc != "" {
		return "/" + f.KeyEnc
	}
	return ""
}

func (f Field) String() string {
	s := f.Elem.String()
	switch f.Wrap {
	case Ptr:
		s = "*" + s
	case Slice:
		s = "[]" + s
	case SlicePtr:
		s = "[]*" + s
	case MapVal:
		s = "map[" + kindNames[f.Key] + f.keyEncSuffix() + "]" + s
	case MapValPtr:
		s = "map[" + kindNames[f.Key] + f.keyEncSuffix() + "]*" + s
	}
	if f.Skip {
		return "unexported " + s
	}
	return fmt.Sprintf("%s#%d", s, f.Number)
}

func (m *Msg) String() string {
	var parts []string
	for _, f := range m.Fields {
		parts = append(parts, f.String())
	}
	return "{" + strings.Join(parts, "; ") + "}"
}

// ---- static leaf types

// LeafMsg implements proto.Message.
type LeafMsg struct{ Data []byte }

func (m LeafMsg) Size() int { return len(m.Data) }
func (m LeafMsg) Marshal(b []byte) error {
	if len(b) < len(m.Data) {
		return fmt.Errorf("LeafMsg.Marshal: %w", io.ErrShortBuffer)
	}
	copy(b, m.Data)
	return nil
}
func (m *LeafMsg) Unmarshal(b []byte) error {
	m.Data = append([]byte{}, b...)
	return nil
}

// LeafBox is a Message whose Go representation is a single pointer: stored in an
// interface, its data word is that pointer, not the address of a LeafBox.
type LeafPayload struct {
	Next *LeafPayload // first word: what a misread LeafBox would take for its pointer
	Data []byte
}

type LeafBox struct{ P *LeafPayload }

func (m LeafBox) Size() int {
	if m.P == nil {
		return 0
	}
	return len(m.P.Data)
}
func (m LeafBox) Marshal(b []byte) error {
	if m.P == nil {
		return nil
	}
	if len(b) < len(m.P.Data) {
		return fmt.Errorf("LeafBox.Marshal: %w", io.ErrShortBuffer)
	}
	copy(b, m.P.Data)
	return nil
}
func (m *LeafBox) Unmarshal(b []byte) error {
	if len(b) == 0 {
		m.P = nil
		return nil
	}
	m.P = &LeafPayload{Data: append([]byte{}, b...)}
	return nil
}

// LeafBoxCustom is the same shape implementing the gogo-style custom interface.
type LeafBoxCustom struct{ P *LeafPayload }

func (m LeafBoxCustom) Size() int {
	if m.P == nil {
		return 0
	}
	return len(m.P.Data)
}
func (m LeafBoxCustom) MarshalTo(b []byte) (int, error) {
	if m.P == nil {
		return 0, nil
	}
	if len(b) < len(m.P.Data) {
		return 0, fmt.Errorf("LeafBoxCustom.MarshalTo: %w", io.ErrShortBuffer)
	}
	return copy(b, m.P.Data), nil
}
func (m *LeafBoxCustom) Unmarshal(b []byte) error {
	if len(b) == 0 {
		m.P = nil
		return nil
	}
	m.P = &LeafPayload{Data: append([]byte{}, b...)}
	return nil
}

// LeafCustom implements the gogo-style custom interface.
type LeafCustom struct{ Data []byte }

func (m LeafCustom) Size() int { return len(m.Data) }
func (m LeafCustom) MarshalTo(b []byte) (int, error) {
	if len(b) < len(m.Data) {
		return 0, fmt.Errorf("LeafCustom.MarshalTo: %w", io.ErrShortBuffer)
	}
	return copy(b, m.Data), nil
}
func (m *LeafCustom) Unmarshal(b []byte) error {
	m.Data = append([]byte{}, b...)
	return nil
}

// GogoCustom implements the custom interface the way gogoproto generates it: MarshalTo trusts the
// caller to have provided Size() bytes and re-slices the buffer to that size.
type GogoCustom struct{ Data []byte }

func (m *GogoCustom) Size() int { return len(m.Data) }
func (m *GogoCustom) MarshalTo(dAtA []byte) (int, error) {
	size := m.Size()
	return m.MarshalToSizedBuffer(dAtA[:size])
}
func (m *GogoCustom) MarshalToSizedBuffer(dAtA []byte) (int, error) {
	i := len(dAtA)
	i -= len(m.Data)
	copy(dAtA[i:], m.Data)
	return len(dAtA) - i, nil
}
func (m *GogoCustom) Unmarshal(b []byte) error {
	m.Data = append([]byte{}, b...)
	return nil
}

var (
	tBytes = reflect.TypeOf([]byte(nil))
)

func kindType(k Kind, n int) reflect.Type {
	switch k {
	case Bool:
		return reflect.TypeOf(false)
	case Int:
		return reflect.TypeOf(int(0))
	case Int32:
		return reflect.TypeOf(int32(0))
	case Int64:
		return reflect.TypeOf(int64(0))
	case Uint:
		return reflect.TypeOf(uint(0))
	case Uint32:
		return reflect.TypeOf(uint32(0))
	case Uint64:
		return reflect.TypeOf(uint64(0))
	case Float32:
		return reflect.TypeOf(float32(0))
	case Float64:
		return reflect.TypeOf(float64(0))
	case String:
		return reflect.TypeOf("")
	case Bytes:
		return tBytes
	case ByteArray:
		return reflect.ArrayOf(n, reflect.TypeOf(byte(0)))
	case MsgLeaf:
		return reflect.TypeOf(LeafMsg{})
	case CustomLeaf:
		return reflect.TypeOf(LeafCustom{})
	case RawLeaf:
		return reflect.TypeOf(segproto.RawMessage(nil))
	case BoxLeaf:
		return reflect.TypeOf(LeafBox{})
	case BoxCustom:
		return reflect.TypeOf(LeafBoxCustom{})
	}
	panic("kindType")
}

func (e *Elem) GoType() reflect.Type {
	if e.goType == nil {
		if e.Kind == Message {
			e.goType = e.Msg.Type
		} else {
			e.goType = kindType(e.Kind, e.N)
		}
	}
	return e.goType
}

func (f *Field) GoType() reflect.Type {
	t := f.Elem.GoType()
	switch f.Wrap {
	case Ptr:
		return reflect.PointerTo(t)
	case Slice:
		return reflect.SliceOf(t)
	case SlicePtr:
		return reflect.SliceOf(reflect.PointerTo(t))
	case MapVal:
		return reflect.MapOf(kindType(f.Key, 0), t)
	case MapValPtr:
		return reflect.MapOf(kindType(f.Key, 0), reflect.PointerTo(t))
	}
	return t
}

// naturalWire is the tag wire name that leaves the codec unchanged.
func (f *Field) tagWire() string {
	if f.Wrap == MapVal || f.Wrap == MapValPtr {
		return "bytes"
	}
	if f.Elem.Enc != "" {
		return f.Elem.Enc
	}
	switch f.Elem.Kind {
	case Bool, Int, Int32, Int64, Uint, Uint32, Uint64:
		return "varint"
	case Float32:
		return "fixed32"
	case Float64:
		return "fixed64"
	}
	return "bytes"
}

// Build constructs the Go struct type of m (numbers must be assigned).
func (m *Msg) Build() *Msg {
	var sf []reflect.StructField
	for i := range m.Fields {
		f := &m.Fields[i]
		if f.Name == "" {
			f.Name = fmt.Sprintf("F%d", i)
		}
		s := reflect.StructField{Name: f.Name, Type: f.GoType()}
		if f.Skip {
			s.Name = fmt.Sprintf("x%d", i)
			s.PkgPath = "verif/mc/gen/pgen"
		} else if f.Tagged || f.Elem.Enc != "" || f.KeyEnc != "" {
			tag := fmt.Sprintf("%s,%d", f.tagWire(), f.Number)
			switch f.Wrap {
			case Slice, SlicePtr, MapVal, MapValPtr:
				tag += ",rep"
			default:
				tag += ",opt"
			}
			tag += ",name=" + strings.ToLower(f.Name)
			s.Tag = reflect.StructTag(fmt.Sprintf(`protobuf:"%s"`, tag))
			if (f.Wrap == MapVal || f.Wrap == MapValPtr) && (f.Elem.Enc != "" || f.KeyEnc != "") {
				// the key and value encodings of a map field, as protoc-gen-go writes them
				kf, vf := Field{Elem: Elem{Kind: f.Key, Enc: f.KeyEnc}}, Field{Elem: f.Elem}
				s.Tag += reflect.StructTag(fmt.Sprintf(` protobuf_key:"%s,1,opt,name=key" protobuf_val:"%s,2,opt,name=value"`, kf.tagWire(), vf.tagWire()))
			}
		}
		sf = append(sf, s)
	}
	m.Type = reflect.StructOf(sf)
	return m
}

// number assigns field numbers. pattern 0 = declaration order without tags.
var NumberPatterns = [][]int{
	nil,          // sequential, untagged
	{1, 2, 3, 4}, // sequential, tagged
	{4, 3, 2, 1}, // descending
	{15, 16, 17, 18},
	{2047, 2048, 2049, 2050},
	{1, 1000, 100000, 5},
	{65535, 65536, 65537, 70000},
	{1<<29 - 1, 1, 1 << 28, 2},
}

func (m *Msg) assignNumbers(pattern int) {
	nums := NumberPatterns[pattern]
	if nums == nil {
		// TypeOf refuses structs that mix tagged and untagged fields: when a
		// field needs a tag for its encoding, tag them all (same numbers).
		for _, f := range m.Fields {
			if !f.Skip && (f.Elem.Enc != "" || f.KeyEnc != "") {
				nums = []int{1, 2, 3, 4}
			}
		}
	}
	n := 0
	for i := range m.Fields {
		f := &m.Fields[i]
		if f.Skip {
			continue
		}
		if nums == nil {
			f.Number = n + 1
			f.Tagged = false
		} else {
			f.Number = nums[n%len(nums)] + (n/len(nums))*7
			f.Tagged = true
		}
		n++
	}
}

// AssignTagged gives the fields the numbers nums (in order) with struct tags.
func (m *Msg) AssignTagged(nums []int) *Msg {
	n := 0
	for i := range m.Fields {
		if m.Fields[i].Skip {
			continue
		}
		m.Fields[i].Number = nums[n]
		m.Fields[i].Tagged = true
		n++
	}
	return m
}

// NewMsg builds a message from fields with sequential untagged numbers.
func NewMsg(fs ...Field) *Msg { return msgOf(fs...) }

// F makes a field (exported constructor for harness-defined palettes).
func F(e Elem, w Wrap) Field { return fld(e, w) }

// MapF makes a map field.
func MapF(k Kind, e Elem) Field { return mp(k, e) }

// MsgE makes a message-typed element.
func MsgE(fs ...Field) Elem { return msgElem(fs...) }

// MaxNumber reports the largest field number used (recursively).
func (m *Msg) MaxNumber() int {
	mx := 0
	for _, f := range m.Fields {
		if f.Skip {
			continue
		}
		if f.Number > mx {
			mx = f.Number
		}
		if f.Elem.Kind == Message {
			if n := f.Elem.Msg.MaxNumber(); n > mx {
				mx = n
			}
		}
	}
	return mx
}

// HasMap reports whether values of m can contain maps.
func (m *Msg) HasMap() bool {
	for _, f := range m.Fields {
		if f.Wrap == MapVal || f.Wrap == MapValPtr {
			return true
		}
		if f.Elem.Kind == Message && f.Elem.Msg.HasMap() {
			return true
		}
	}
	return false
}

// HasLeaf reports whether m contains user-supplied marshalling methods.
func (m *Msg) HasLeaf() bool {
	for _, f := range m.Fields {
		if f.Elem.Kind == MsgLeaf || f.Elem.Kind == CustomLeaf || f.Elem.Kind == RawLeaf || f.Elem.Kind == BoxLeaf || f.Elem.Kind == BoxCustom {
			return true
		}
		if f.Elem.Kind == Message && f.Elem.Msg.HasLeaf() {
			return true
		}
	}
	return false
}

// ---- palettes

func sc(k Kind) Elem            { return Elem{Kind: k} }
func enc(k Kind, e string) Elem { return Elem{Kind: k, Enc: e} }
func arr(n int) Elem            { return Elem{Kind: ByteArray, N: n} }
func fld(e Elem, w Wrap) Field  { return Field{Elem: e, Wrap: w, Key: String} }
func mp(k Kind, e Elem) Field   { return Field{Elem: e, Wrap: MapVal, Key: k} }
func mpk(k Kind, ke string, e Elem) Field {
	return Field{Elem: e, Wrap: MapVal, Key: k, KeyEnc: ke}
}
func mpp(k Kind, e Elem) Field { return Field{Elem: e, Wrap: MapValPtr, Key: k} }
func msgOf(fs ...Field) *Msg   { m := &Msg{Fields: fs}; m.assignNumbers(0); return m.Build() }
func msgElem(fs ...Field) Elem { return Elem{Kind: Message, Msg: msgOf(fs...)} }
func unexported(e Elem) Field  { return Field{Elem: e, Skip: true} }

var baseScalars = []Elem{sc(Int32), sc(String), sc(Bool), sc(Bytes), sc(Int64), sc(Uint64), sc(Float64), sc(Int), sc(Uint), sc(Uint32), sc(Float32), arr(8), arr(1), arr(9)}

var taggedScalars = []Elem{enc(Int32, "zigzag32"), enc(Int64, "zigzag64"), enc(Int, "zigzag64"), enc(Uint32, "fixed32"), enc(Uint64, "fixed64"), enc(Float32, "fixed32"), enc(Float64, "fixed64"), enc(Int64, "varint"), arr(0), enc(Int32, "fixed32"), enc(Int64, "fixed64")}

// inner messages used by struct-valued fields (depth 1)
func innerMsgs() []Elem {
	leafP := msgElem(fld(sc(Int32), Ptr)) // single pointer field: "inlined" shape
	return []Elem{
		msgElem(fld(sc(Int32), Plain)),
		msgElem(),
		leafP,
		msgElem(mp(String, sc(Int32))), // single map field: "inlined" shape
		msgElem(fld(sc(Int32), Plain), fld(sc(String), Plain)),
		msgElem(fld(sc(String), Plain)),
		msgElem(fld(msgElem(fld(sc(Int64), Plain)), Ptr)), // pointer to struct as only field
		msgElem(fld(sc(Int32), Slice)),
		msgElem(fld(sc(Bool), Plain)),
		msgElem(fld(enc(Int32, "zigzag32"), Plain), fld(sc(Int32), Plain)),
		msgElem(unexported(sc(Int32)), fld(sc(Int64), Plain), unexported(sc(String))),
		msgElem(fld(leafP, Plain)), // inlined struct nested by value in a struct
		msgElem(fld(sc(Bool), Ptr), fld(sc(Bytes), Plain)),
		msgElem(fld(sc(Float64), Plain), fld(arr(9), Plain)),
	}
}

var structWraps = []Wrap{Plain, Ptr, Slice, SlicePtr, MapVal, MapValPtr}

// Palette returns field shapes, simplest first. size: 0 small, 1 medium, 2 full.
func Palette(size int) []Field {
	var p []Field
	inner := innerMsgs()
	switch size {
	case 0:
		for _, e := range baseScalars[:4] {
			p = append(p, fld(e, Plain))
		}
		p = append(p, fld(sc(Int32), Ptr), fld(sc(Int32), Slice), fld(sc(String), Slice), mp(String, sc(Int32)),
			fld(inner[0], Plain), fld(inner[0], Ptr), fld(inner[2], Plain), fld(inner[0], Slice), fld(enc(Int64, "zigzag64"), Plain), fld(sc(Bool), Ptr))
	case 1:
		for _, e := range baseScalars[:11] {
			p = append(p, fld(e, Plain))
		}
		for _, e := range taggedScalars[:5] {
			p = append(p, fld(e, Plain))
		}
		for _, e := range baseScalars[:6] {
			p = append(p, fld(e, Ptr))
			p = append(p, fld(e, Slice))
		}
		p = append(p, mp(String, sc(Int32)), mp(String, sc(String)), mp(Int32, sc(Bytes)), mp(Bool, sc(Bool)), mp(Uint64, sc(Float64)), mp(Int64, sc(String)))
		p = append(p, mpk(Int32, "zigzag32", enc(Int64, "zigzag64")), mpk(Uint32, "fixed32", enc(Int64, "fixed64")))
		for _, w := range structWraps {
			p = append(p, fld(inner[0], w), fld(inner[2], w), fld(inner[3], w))
		}
		p = append(p, fld(inner[1], Plain), fld(inner[1], Ptr), fld(inner[4], Slice), fld(inner[6], Plain), fld(inner[11], Ptr),
			fld(sc(MsgLeaf), Plain), fld(sc(CustomLeaf), Ptr), fld(arr(8), Plain), fld(enc(Int32, "zigzag32"), Slice), fld(sc(RawLeaf), Plain), fld(sc(BoxLeaf), Plain))
	default:
		for _, e := range baseScalars {
			p = append(p, fld(e, Plain))
		}
		for _, e := range taggedScalars {
			p = append(p, fld(e, Plain))
		}
		for _, e := range baseScalars {
			if e.Kind != ByteArray { // *[N]byte is outside the statement ("pointer-to structs and scalars"); *[]byte is an optional bytes field
				p = append(p, fld(e, Ptr))
			}
			p = append(p, fld(e, Slice))
		}
		for _, e := range taggedScalars[:7] {
			p = append(p, fld(e, Ptr), fld(e, Slice))
		}
		for _, e := range taggedScalars[9:] { // sfixed32 / sfixed64
			p = append(p, fld(e, Ptr), fld(e, Slice))
		}
		for _, v := range []Elem{sc(Int32), sc(String), sc(Bytes), sc(Bool), sc(Float64), sc(Uint64), sc(Int64), sc(Float32), arr(8)} {
			p = append(p, mp(String, v))
		}
		for _, k := range []Kind{Int32, Int64, Uint64, Bool, Int, Uint32, Uint} {
			p = append(p, mp(k, sc(String)), mp(k, sc(Int32)))
		}
		p = append(p, mp(Uint64, sc(Bytes)), mp(Bool, sc(Bool)), mpp(String, sc(Int32)))
		// sint / fixed keys and values (protobuf_key / protobuf_val tags)
		p = append(p, mp(String, enc(Int32, "zigzag32")), mp(String, enc(Int64, "zigzag64")), mp(String, enc(Uint32, "fixed32")), mp(String, enc(Uint64, "fixed64")),
			mp(String, enc(Int32, "fixed32")), mp(String, enc(Int64, "fixed64")), mp(Int32, enc(Int, "zigzag64")),
			mpk(Int32, "zigzag32", sc(String)), mpk(Int64, "zigzag64", sc(Int32)), mpk(Uint32, "fixed32", sc(String)), mpk(Uint64, "fixed64", sc(Bool)),
			mpk(Int32, "fixed32", sc(Int32)), mpk(Int64, "fixed64", sc(Bytes)), mpk(Int32, "zigzag32", enc(Int64, "zigzag64")), mpk(Uint32, "fixed32", enc(Uint64, "fixed64")),
			mpk(Int64, "zigzag64", inner[0]))
		for _, w := range structWraps {
			for _, in := range inner {
				f := fld(in, w)
				p = append(p, f)
			}
		}
		p = append(p, mp(Int32, inner[0]), mp(Int64, inner[4]), mpp(Bool, inner[2]))
		for _, w := range []Wrap{Plain, Ptr, Slice, SlicePtr, MapVal} {
			p = append(p, fld(sc(MsgLeaf), w), fld(sc(CustomLeaf), w))
			if w != SlicePtr {
				p = append(p, fld(sc(RawLeaf), w))
			}
			if w == Plain || w == Ptr || w == Slice {
				p = append(p, fld(sc(BoxLeaf), w), fld(sc(BoxCustom), w))
			}
		}
	}
	return p
}

var palettes = [3][]Field{Palette(0), Palette(1), Palette(2)}

// Options bound the type enumeration.
type Options struct {
	MaxFields   int // 1..3
	Thorough    bool
	NoNumbering bool // only sequential untagged numbers
	NoLeaf      bool // exclude Message/custom leaf types
	NoHuge      bool // exclude numbers > 65535
}

// EnumMsg enumerates one message type using explorer choices.
func EnumMsg(c *explore.Ctx, o Options) *Msg {
	nf := 1 + c.Choose(o.MaxFields)
	var pal []Field
	switch {
	case nf == 1:
		pal = palettes[2]
	case nf == 2 && o.Thorough:
		pal = palettes[2]
	case nf == 2:
		pal = palettes[1]
	case o.Thorough:
		pal = palettes[1]
	default:
		pal = palettes[0]
	}
	m := &Msg{}
	for i := 0; i < nf; i++ {
		f := pal[c.Choose(len(pal))]
		if o.NoLeaf && (f.Elem.Kind == MsgLeaf || f.Elem.Kind == CustomLeaf || f.Elem.Kind == RawLeaf || f.Elem.Kind == BoxLeaf || f.Elem.Kind == BoxCustom) {
			f = pal[0]
		}
		m.Fields = append(m.Fields, f)
	}
	pattern := 0
	if !o.NoNumbering {
		n := len(NumberPatterns)
		if o.NoHuge {
			n -= 2
		}
		pattern = c.Deviate(n)
	}
	m.assignNumbers(pattern)
	return m.Build()
}

// ---- values

func scalarDomain(e Elem, thorough bool) []any {
	switch e.Kind {
	case Bool:
		return []any{true, false}
	case Int32:
		return []any{int32(1), int32(0), int32(-1), int32(127), int32(128), int32(-128), int32(math.MaxInt32), int32(math.MinInt32), int32(300)}
	case Int64:
		return []any{int64(1), int64(0), int64(-1), int64(1) << 31, -(int64(1) << 31) - 1, int64(math.MaxInt64), int64(math.MinInt64), int64(16384)}
	case Int:
		return []any{int(1), int(0), int(-1), int(1) << 31, -(int(1) << 31) - 1, int(math.MaxInt64), int(math.MinInt64), int(127)}
	case Uint32:
		return []any{uint32(1), uint32(0), uint32(127), uint32(128), uint32(16383), uint32(16384), uint32(math.MaxUint32)}
	case Uint64:
		return []any{uint64(1), uint64(0), uint64(127), uint64(128), uint64(1) << 32, uint64(math.MaxUint64), uint64(1) << 63}
	case Uint:
		return []any{uint(1), uint(0), uint(127), uint(128), uint(1) << 32, uint(math.MaxUint64), uint(1) << 63}
	case Float32:
		return []any{float32(1), float32(0), float32(math.Copysign(0, -1)), float32(-1.5), float32(math.NaN()), float32(math.Inf(1)), float32(math.SmallestNonzeroFloat32), float32(math.MaxFloat32)}
	case Float64:
		return []any{float64(1), float64(0), math.Copysign(0, -1), float64(-1.5), math.NaN(), math.Inf(-1), math.SmallestNonzeroFloat64, math.MaxFloat64}
	case String:
		return []any{"a", "", "\x00", strings.Repeat("x", 127), strings.Repeat("y", 128), "\xff\xfe", "héllo"}
	case Bytes:
		return []any{[]byte{1, 2, 3}, []byte(nil), []byte{}, []byte{0}, make([]byte, 127), make([]byte, 128)}
	case ByteArray:
		t := kindType(ByteArray, e.N)
		mk := func(f func(i int) byte) any {
			v := reflect.New(t).Elem()
			for i := 0; i < e.N; i++ {
				v.Index(i).SetUint(uint64(f(i)))
			}
			return v.Interface()
		}
		return []any{mk(func(i int) byte { return byte(i + 1) }), mk(func(int) byte { return 0 }), mk(func(int) byte { return 0xff }),
			mk(func(i int) byte {
				if i == e.N-1 {
					return 1
				}
				return 0
			}), mk(func(i int) byte {
				if i == 0 {
					return 0x80
				}
				return 0
			})}
	case MsgLeaf:
		return []any{LeafMsg{Data: []byte{8, 1}}, LeafMsg{}, LeafMsg{Data: []byte{}}, LeafMsg{Data: make([]byte, 130)}}
	case CustomLeaf:
		return []any{LeafCustom{Data: []byte{8, 1}}, LeafCustom{}, LeafCustom{Data: []byte{0}}, LeafCustom{Data: make([]byte, 130)}}
	case BoxLeaf:
		return []any{LeafBox{&LeafPayload{Data: []byte{8, 1}}}, LeafBox{}, LeafBox{&LeafPayload{Data: make([]byte, 130)}}}
	case BoxCustom:
		return []any{LeafBoxCustom{&LeafPayload{Data: []byte{8, 1}}}, LeafBoxCustom{}, LeafBoxCustom{&LeafPayload{Data: make([]byte, 130)}}}
	case RawLeaf:
		return []any{segproto.RawMessage{8, 1}, segproto.RawMessage(nil), segproto.RawMessage{0x12, 1, 0x61, 8, 2}, segproto.RawMessage(make([]byte, 130))}
	}
	panic("scalarDomain")
}

// elemDomainSize returns the number of values in the domain of an element.
func elemDomain(e Elem, thorough bool) []reflect.Value {
	if e.Kind == Message {
		return msgDomain(e.Msg, thorough)
	}
	var out []reflect.Value
	for _, v := range scalarDomain(e, thorough) {
		if v == nil {
			out = append(out, reflect.Zero(e.GoType()))
		} else {
			out = append(out, reflect.ValueOf(v))
		}
	}
	return out
}

// msgDomain: typical (every field typical), zero, and each field alone at each of its first few domain values.
func msgDomain(m *Msg, thorough bool) []reflect.Value {
	mk := func(set func(v reflect.Value)) reflect.Value {
		v := reflect.New(m.Type).Elem()
		set(v)
		return v
	}
	var out []reflect.Value
	out = append(out, mk(func(v reflect.Value) {
		for i := range m.Fields {
			if !m.Fields[i].Skip {
				d := FieldDomain(&m.Fields[i], false)
				v.Field(i).Set(d[0])
			}
		}
	}))
	out = append(out, mk(func(reflect.Value) {}))
	for i := range m.Fields {
		if m.Fields[i].Skip {
			continue
		}
		d := FieldDomain(&m.Fields[i], false)
		lim := 3
		if thorough {
			lim = 5
		}
		for j := 1; j < len(d) && j <= lim; j++ {
			i, j := i, j
			out = append(out, mk(func(v reflect.Value) { v.Field(i).Set(d[j]) }))
		}
	}
	return out
}

var sliceLens = []int{2, 0, 1, 3, 9, 10, 11, 20, 21, 41}

// fieldDomain enumerates values of a field; index 0 is the typical non-zero value, index 1 the zero value.
func fieldDomain(f *Field, thorough bool) []reflect.Value {
	t := f.GoType()
	ed := elemDomain(f.Elem, thorough)
	var out []reflect.Value
	switch f.Wrap {
	case Plain:
		return ed // order: typical, zero, rest
	case Ptr:
		mkp := func(v reflect.Value) reflect.Value {
			p := reflect.New(f.Elem.GoType())
			p.Elem().Set(v)
			return p
		}
		out = append(out, mkp(ed[0]), reflect.Zero(t))
		for _, v := range ed[1:] {
			out = append(out, mkp(v))
		}
	case Slice, SlicePtr:
		elemAt := func(i int) reflect.Value {
			v := ed[i%len(ed)]
			if f.Wrap == SlicePtr {
				p := reflect.New(f.Elem.GoType())
				p.Elem().Set(v)
				return p
			}
			return v
		}
		lens := sliceLens
		if thorough {
			lens = append(append([]int{}, sliceLens...), 1000)
		}
		for _, n := range lens {
			s := reflect.MakeSlice(t, n, n)
			for i := 0; i < n; i++ {
				s.Index(i).Set(elemAt(i))
			}
			out = append(out, s)
			if n == 2 {
				out = append(out, reflect.Zero(t)) // nil slice is the zero value (index 1)
			}
		}
		// a slice made only of zero elements, and one per element domain value
		for j := 1; j < len(ed); j++ {
			s := reflect.MakeSlice(t, 1, 1)
			s.Index(0).Set(elemAt(j))
			out = append(out, s)
		}
		// nil element pointers in []*T are not representable on the wire: never generated
	case MapVal, MapValPtr:
		kd := elemDomain(Elem{Kind: f.Key}, thorough)
		val := func(i int) reflect.Value {
			v := ed[i%len(ed)]
			if f.Wrap == MapValPtr {
				p := reflect.New(f.Elem.GoType())
				p.Elem().Set(v)
				return p
			}
			return v
		}
		mk := func(n int, koff, voff int) reflect.Value {
			m := reflect.MakeMap(t)
			for i := 0; i < n; i++ {
				var k reflect.Value
				if i < len(kd) {
					k = kd[(i+koff)%len(kd)]
				} else if f.Key == String {
					k = reflect.ValueOf(fmt.Sprintf("key%d", i))
				} else if f.Key == Bool {
					break
				} else {
					k = reflect.New(kindType(f.Key, 0)).Elem()
					if k.CanInt() {
						k.SetInt(int64(1000 + i))
					} else {
						k.SetUint(uint64(1000 + i))
					}
				}
				if f.Key == Float32 || f.Key == Float64 {
					if kf := k.Float(); kf != kf {
						continue
					}
				}
				m.SetMapIndex(k, val(i+voff))
			}
			return m
		}
		out = append(out, mk(1, 0, 0), reflect.Zero(t), reflect.MakeMap(t), mk(1, 1, 1), mk(2, 0, 0), mk(11, 0, 0))
		for j := 2; j < len(ed); j++ {
			out = append(out, mk(1, 0, j))
		}
		for j := 2; j < len(kd); j++ {
			out = append(out, mk(1, j, 0))
		}
	}
	return out
}

// EnumValue builds one value of m (addressable struct): base (all typical /
// all zero) with any field deviating to another value of its domain; the
// number of deviating fields is limited by the family's deviation bound.
func EnumValue(c *explore.Ctx, m *Msg, thorough bool) reflect.Value {
	v := reflect.New(m.Type).Elem()
	base := c.Choose(2) // 0: all typical, 1: all zero
	for i := range m.Fields {
		f := &m.Fields[i]
		if f.Skip {
			continue
		}
		d := FieldDomain(f, thorough)
		k := c.Deviate(len(d)) // 0 keeps the base value
		v.Field(i).Set(d[pick(base, k, len(d))])
	}
	return v
}

var domainCache = map[string][]reflect.Value{}

// FieldDomain is fieldDomain with a cache (values are never mutated by the harnesses).
func FieldDomain(f *Field, thorough bool) []reflect.Value {
	key := fmt.Sprint(f.String(), "|", f.GoType().String(), "|", thorough)
	if d, ok := domainCache[key]; ok {
		return d
	}
	d := fieldDomain(f, thorough)
	domainCache[key] = d
	return d
}

// pick maps (base, k) to a domain index: k==0 -> base; k>=1 enumerates the others in order.
func pick(base, k, n int) int {
	if k == 0 {
		return base
	}
	// the others in order: all indexes except base; k in 1..n-2 covers n-2 of the n-1 others,
	// so use k in 1..n-1 (caller passes Deviate(n) when it wants them all)
	idx := k - 1
	if idx >= base {
		idx++
	}
	return idx
}

// ---- comparison modulo nil/empty

// Diff is one difference found by Diffs.
type Diff struct {
	Path, Why string
	Want      reflect.Value // expected-side value at the difference
	NilLost   bool          // want non-nil pointer, got nil
}

// Diffs lists every difference between a (expected) and b, treating nil and
// empty slices/maps as equal and comparing floats by bits. Children of a
// differing container are not descended into.
func Diffs(a, b reflect.Value) []Diff {
	var out []Diff
	collect(a, b, "", &out)
	return out
}

func collect(a, b reflect.Value, path string, out *[]Diff) {
	if len(*out) >= 16 {
		return
	}
	switch a.Kind() {
	case reflect.Ptr:
		if a.IsNil() != b.IsNil() {
			*out = append(*out, Diff{Path: path, Why: fmt.Sprintf("nil pointer mismatch (want nil=%v, got nil=%v)", a.IsNil(), b.IsNil()), Want: a, NilLost: !a.IsNil()})
			return
		}
		if !a.IsNil() {
			collect(a.Elem(), b.Elem(), path+"*", out)
		}
	case reflect.Struct:
		for i := 0; i < a.NumField(); i++ {
			if a.Type().Field(i).PkgPath == "" {
				collect(a.Field(i), b.Field(i), path+"."+a.Type().Field(i).Name, out)
			}
		}
	case reflect.Slice:
		if a.Len() != b.Len() {
			*out = append(*out, Diff{Path: path, Why: fmt.Sprintf("len %d != %d", a.Len(), b.Len()), Want: a})
			return
		}
		for i := 0; i < a.Len(); i++ {
			collect(a.Index(i), b.Index(i), fmt.Sprintf("%s[%d]", path, i), out)
		}
	case reflect.Map:
		if a.Len() != b.Len() {
			*out = append(*out, Diff{Path: path, Why: fmt.Sprintf("map len %d != %d", a.Len(), b.Len()), Want: a})
			return
		}
		it := a.MapRange()
		for it.Next() {
			bv := b.MapIndex(it.Key())
			if !bv.IsValid() {
				*out = append(*out, Diff{Path: path, Why: fmt.Sprintf("key %v missing", it.Key()), Want: a})
				continue
			}
			collect(it.Value(), bv, fmt.Sprintf("%s[%v]", path, it.Key()), out)
		}
	default:
		if ok, why := eq(a, b, path); !ok {
			*out = append(*out, Diff{Path: path, Why: why, Want: a})
		}
	}
}

// EqualModNil reports whether a and b are deeply equal treating nil and empty
// slices/maps as equal and comparing floats by bits.
func EqualModNil(a, b reflect.Value) (bool, string) {
	return eq(a, b, "")
}

// LastNilMismatch is the expected-side pointer of the most recent "nil pointer
// mismatch" reported by EqualModNil (used to classify the difference).
var LastNilMismatch reflect.Value

// ContentFree reports whether a message value has nothing that the wire
// format can carry: no scalar fields at all, and only nil pointers, empty
// repeated fields, empty maps and content-free nested messages.
func ContentFree(v reflect.Value) bool {
	switch v.Kind() {
	case reflect.Ptr:
		return v.IsNil()
	case reflect.Slice:
		if v.Type().Elem().Kind() == reflect.Uint8 {
			return false
		}
		return v.Len() == 0
	case reflect.Map:
		return v.Len() == 0
	case reflect.Struct:
		if _, ok := v.Interface().(LeafMsg); ok {
			return false
		}
		if _, ok := v.Interface().(LeafCustom); ok {
			return false
		}
		for i := 0; i < v.NumField(); i++ {
			if v.Type().Field(i).PkgPath != "" {
				continue
			}
			if !ContentFree(v.Field(i)) {
				return false
			}
		}
		return true
	}
	return false
}

// FloatsByValue makes the comparison use == on floats (so -0 equals +0, as
// reflect.DeepEqual does) instead of comparing bits.
var FloatsByValue bool

func eq(a, b reflect.Value, path string) (bool, string) {
	if a.Type() != b.Type() {
		return false, path + ": type"
	}
	switch a.Kind() {
	case reflect.Float32, reflect.Float64:
		if FloatsByValue {
			if af, bf := a.Float(), b.Float(); af == bf || (af != af && bf != bf) {
				return true, ""
			}
			return false, fmt.Sprintf("%s: %v != %v", path, a, b)
		}
		if a.Kind() == reflect.Float32 {
			if math.Float32bits(float32(a.Float())) != math.Float32bits(float32(b.Float())) {
				return false, fmt.Sprintf("%s: %v != %v", path, a, b)
			}
			return true, ""
		}
		if math.Float64bits(a.Float()) != math.Float64bits(b.Float()) {
			return false, fmt.Sprintf("%s: %v != %v", path, a, b)
		}
		return true, ""
	case reflect.Ptr:
		if a.IsNil() != b.IsNil() {
			LastNilMismatch = a
			return false, fmt.Sprintf("%s: nil pointer mismatch (%v vs %v)", path, a.IsNil(), b.IsNil())
		}
		if a.IsNil() {
			return true, ""
		}
		return eq(a.Elem(), b.Elem(), path+"*")
	case reflect.Slice:
		if a.Len() != b.Len() {
			return false, fmt.Sprintf("%s: len %d != %d", path, a.Len(), b.Len())
		}
		for i := 0; i < a.Len(); i++ {
			if ok, why := eq(a.Index(i), b.Index(i), fmt.Sprintf("%s[%d]", path, i)); !ok {
				return false, why
			}
		}
		return true, ""
	case reflect.Array:
		for i := 0; i < a.Len(); i++ {
			if ok, why := eq(a.Index(i), b.Index(i), fmt.Sprintf("%s[%d]", path, i)); !ok {
				return false, why
			}
		}
		return true, ""
	case reflect.Map:
		if a.Len() != b.Len() {
			return false, fmt.Sprintf("%s: map len %d != %d", path, a.Len(), b.Len())
		}
		it := a.MapRange()
		for it.Next() {
			bv := b.MapIndex(it.Key())
			if !bv.IsValid() {
				return false, fmt.Sprintf("%s: key %v missing", path, it.Key())
			}
			if ok, why := eq(it.Value(), bv, fmt.Sprintf("%s[%v]", path, it.Key())); !ok {
				return false, why
			}
		}
		return true, ""
	case reflect.Struct:
		for i := 0; i < a.NumField(); i++ {
			if a.Type().Field(i).PkgPath != "" {
				continue
			}
			if ok, why := eq(a.Field(i), b.Field(i), path+"."+a.Type().Field(i).Name); !ok {
				return false, why
			}
		}
		return true, ""
	case reflect.Bool:
		if a.Bool() != b.Bool() {
			return false, fmt.Sprintf("%s: %v != %v", path, a, b)
		}
	case reflect.String:
		if a.String() != b.String() {
			return false, fmt.Sprintf("%s: %q != %q", path, a, b)
		}
	case reflect.Int, reflect.Int8, reflect.Int16, reflect.Int32, reflect.Int64:
		if a.Int() != b.Int() {
			return false, fmt.Sprintf("%s: %v != %v", path, a, b)
		}
	case reflect.Uint, reflect.Uint8, reflect.Uint16, reflect.Uint32, reflect.Uint64:
		if a.Uint() != b.Uint() {
			return false, fmt.Sprintf("%s: %v != %v", path, a, b)
		}
	default:
		panic("eq: unsupported kind " + a.Kind().String())
	}
	return true, ""
}

// Describe renders a value compactly for samples and replay files.
func Describe(v reflect.Value) string {
	s := fmt.Sprintf("%+v", derefAll(v))
	if len(s) > 400 {
		s = s[:400] + "…"
	}
	return s
}

func derefAll(v reflect.Value) any {
	switch v.Kind() {
	case reflect.Ptr:
		if v.IsNil() {
			return nil
		}
		return map[string]any{"&": derefAll(v.Elem())}
	case reflect.Struct:
		m := map[string]any{}
		for i := 0; i < v.NumField(); i++ {
			if v.Type().Field(i).PkgPath == "" {
				m[v.Type().Field(i).Name] = derefAll(v.Field(i))
			}
		}
		return m
	case reflect.Slice:
		if v.IsNil() {
			return "nil"
		}
		if v.Type().Elem().Kind() == reflect.Uint8 {
			b := v.Bytes()
			if len(b) > 8 {
				return fmt.Sprintf("bytes(len=%d)", len(b))
			}
			return fmt.Sprintf("%x", b)
		}
		if v.Len() > 4 {
			return fmt.Sprintf("slice(len=%d, [0]=%v)", v.Len(), derefAll(v.Index(0)))
		}
		var out []any
		for i := 0; i < v.Len(); i++ {
			out = append(out, derefAll(v.Index(i)))
		}
		return out
	case reflect.Map:
		if v.IsNil() {
			return "nil"
		}
		if v.Len() > 3 {
			return fmt.Sprintf("map(len=%d)", v.Len())
		}
		m := map[string]any{}
		it := v.MapRange()
		for it.Next() {
			m[fmt.Sprint(it.Key())] = derefAll(it.Value())
		}
		return m
	case reflect.String:
		s := v.String()
		if len(s) > 12 {
			return fmt.Sprintf("string(len=%d)", len(s))
		}
		return s
	}
	return v.Interface()
}

// ---- length ladder: shapes whose encoded size is driven by one payload length

// LadderShape builds a message type and a constructor taking the payload length.
type LadderShape struct {
	Name string
	Msg  *Msg
	Make func(n int) reflect.Value // addressable struct value
}

func strN(n int) string { return strings.Repeat("s", n) }

// LadderShapes lists every position a length-delimited payload can take.
func LadderShapes() []LadderShape {
	str := fld(sc(String), Plain)
	inner := msgElem(str)
	inner2 := msgElem(fld(inner, Plain))
	mk := func(name string, f Field, set func(fv reflect.Value, n int)) LadderShape {
		m := msgOf(f, fld(sc(Int32), Plain))
		return LadderShape{Name: name, Msg: m, Make: func(n int) reflect.Value {
			v := reflect.New(m.Type).Elem()
			set(v.Field(0), n)
			v.Field(1).SetInt(7)
			return v
		}}
	}
	innerVal := func(n int) reflect.Value {
		v := reflect.New(inner.Msg.Type).Elem()
		v.Field(0).SetString(strN(n))
		return v
	}
	return []LadderShape{
		mk("string", str, func(fv reflect.Value, n int) { fv.SetString(strN(n)) }),
		mk("bytes", fld(sc(Bytes), Plain), func(fv reflect.Value, n int) { fv.SetBytes(make([]byte, n)) }),
		mk("nested{string}", fld(inner, Plain), func(fv reflect.Value, n int) { fv.Set(innerVal(n)) }),
		mk("*nested{string}", fld(inner, Ptr), func(fv reflect.Value, n int) { p := reflect.New(inner.Msg.Type); p.Elem().Set(innerVal(n)); fv.Set(p) }),
		mk("nested{nested{string}}", fld(inner2, Plain), func(fv reflect.Value, n int) { fv.Field(0).Set(innerVal(n)) }),
		mk("[]string", fld(sc(String), Slice), func(fv reflect.Value, n int) { fv.Set(reflect.ValueOf([]string{"a", strN(n), ""})) }),
		mk("[][]byte", fld(sc(Bytes), Slice), func(fv reflect.Value, n int) { fv.Set(reflect.ValueOf([][]byte{make([]byte, n)})) }),
		mk("[]nested{string}", fld(inner, Slice), func(fv reflect.Value, n int) {
			s := reflect.MakeSlice(fv.Type(), 2, 2)
			s.Index(0).Set(innerVal(n))
			s.Index(1).Set(innerVal(1))
			fv.Set(s)
		}),
		mk("[]*nested{string}", fld(inner, SlicePtr), func(fv reflect.Value, n int) {
			s := reflect.MakeSlice(fv.Type(), 1, 1)
			p := reflect.New(inner.Msg.Type)
			p.Elem().Set(innerVal(n))
			s.Index(0).Set(p)
			fv.Set(s)
		}),
		mk("map[string]string(value)", mp(String, sc(String)), func(fv reflect.Value, n int) { fv.Set(reflect.ValueOf(map[string]string{"k": strN(n)})) }),
		mk("map[string]string(key)", mp(String, sc(String)), func(fv reflect.Value, n int) { fv.Set(reflect.ValueOf(map[string]string{strN(n): "v"})) }),
		mk("map[string]string(key,empty value)", mp(String, sc(String)), func(fv reflect.Value, n int) { fv.Set(reflect.ValueOf(map[string]string{strN(n): ""})) }),
		mk("map[int32][]byte", mp(Int32, sc(Bytes)), func(fv reflect.Value, n int) { fv.Set(reflect.ValueOf(map[int32][]byte{300: make([]byte, n)})) }),
		mk("map[string]nested{string}", mp(String, inner), func(fv reflect.Value, n int) {
			m := reflect.MakeMap(fv.Type())
			m.SetMapIndex(reflect.ValueOf("k"), innerVal(n))
			fv.Set(m)
		}),
		mk("map[string]*nested{string}", mpp(String, inner), func(fv reflect.Value, n int) {
			m := reflect.MakeMap(fv.Type())
			p := reflect.New(inner.Msg.Type)
			p.Elem().Set(innerVal(n))
			m.SetMapIndex(reflect.ValueOf("k"), p)
			fv.Set(m)
		}),
		mk("LeafMsg", fld(sc(MsgLeaf), Plain), func(fv reflect.Value, n int) { fv.Set(reflect.ValueOf(LeafMsg{Data: make([]byte, n)})) }),
		mk("LeafCustom", fld(sc(CustomLeaf), Plain), func(fv reflect.Value, n int) { fv.Set(reflect.ValueOf(LeafCustom{Data: make([]byte, n)})) }),
		mk("[]int32(count)", fld(sc(Int32), Slice), func(fv reflect.Value, n int) {
			s := make([]int32, n)
			for i := range s {
				s[i] = int32(i - 1)
			}
			fv.Set(reflect.ValueOf(s))
		}),
		mk("[]nested(count)", fld(inner, Slice), func(fv reflect.Value, n int) {
			s := reflect.MakeSlice(fv.Type(), n, n)
			for i := 0; i < n; i++ {
				s.Index(i).Set(innerVal(i % 3))
			}
			fv.Set(s)
		}),
		mk("map[int32]int32(count)", mp(Int32, sc(Int32)), func(fv reflect.Value, n int) {
			m := map[int32]int32{}
			for i := 0; i < n; i++ {
				m[int32(i)] = int32(i * 3)
			}
			fv.Set(reflect.ValueOf(m))
		}),
	}
}

// LadderLengths returns the payload lengths swept for a shape.
func LadderLengths(thorough bool) []int {
	var out []int
	for n := 0; n <= 300; n++ {
		out = append(out, n)
	}
	for n := 16370; n <= 16400; n++ {
		out = append(out, n)
	}
	if thorough {
		for n := 301; n <= 2100; n++ {
			out = append(out, n)
		}
		for n := 2097140; n <= 2097160; n++ {
			out = append(out, n)
		}
	}
	return out
}

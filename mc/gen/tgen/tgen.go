// Package tgen enumerates thrift struct types (reflect.StructOf with thrift
// tags), boundary values for them and their specification-level AST.
package tgen

import (
	"fmt"
	"math"
	"reflect"
	"sort"
	"strings"

	"verif/mc/explore"
	"verif/mc/ref/thriftspec"
)

type Kind int

const (
	Bool Kind = iota
	Int8
	Int16
	Int32
	Int64
	Int
	Float32
	Float64
	String
	Bytes
	StructK
)

var kindNames = [...]string{"bool", "int8", "int16", "int32", "int64", "int", "float32", "float64", "string", "[]byte", "struct"}

type Wrap int

const (
	Plain Wrap = iota
	Ptr
	ListOf
	SetOf // map[T]struct{}
	MapOf // map[Key]T
)

type Elem struct {
	Kind Kind
	Msg  *Struct
}

type Field struct {
	ID   int16
	Opt  string // "", "required", "optional", "enum"
	Elem Elem
	Wrap Wrap
	Key  Kind
}

type Struct struct {
	Fields []Field
	Type   reflect.Type
}

func (e Elem) String() string {
	if e.Kind == StructK {
		return e.Msg.String()
	}
	return kindNames[e.Kind]
}

func (f Field) Shape() string {
	s := f.Elem.String()
	switch f.Wrap {
	case Ptr:
		s = "*" + s
	case ListOf:
		s = "[]" + s
	case SetOf:
		s = "set<" + s + ">"
	case MapOf:
		s = "map[" + kindNames[f.Key] + "]" + s
	}
	if f.Opt != "" {
		s += "," + f.Opt
	}
	return s
}

func (f Field) String() string { return fmt.Sprintf("%d:%s", f.ID, f.Shape()) }

func (s *Struct) String() string {
	var parts []string
	for _, f := range s.Fields {
		parts = append(parts, f.String())
	}
	return "{" + strings.Join(parts, "; ") + "}"
}

func kindType(k Kind) reflect.Type {
	switch k {
	case Bool:
		return reflect.TypeOf(false)
	case Int8:
		return reflect.TypeOf(int8(0))
	case Int16:
		return reflect.TypeOf(int16(0))
	case Int32:
		return reflect.TypeOf(int32(0))
	case Int64:
		return reflect.TypeOf(int64(0))
	case Int:
		return reflect.TypeOf(int(0))
	case Float32:
		return reflect.TypeOf(float32(0))
	case Float64:
		return reflect.TypeOf(float64(0))
	case String:
		return reflect.TypeOf("")
	case Bytes:
		return reflect.TypeOf([]byte(nil))
	}
	panic("kindType")
}

func (e Elem) GoType() reflect.Type {
	if e.Kind == StructK {
		return e.Msg.Type
	}
	return kindType(e.Kind)
}

func (f *Field) GoType() reflect.Type {
	t := f.Elem.GoType()
	switch f.Wrap {
	case Ptr:
		return reflect.PointerTo(t)
	case ListOf:
		return reflect.SliceOf(t)
	case SetOf:
		return reflect.MapOf(t, reflect.TypeOf(struct{}{}))
	case MapOf:
		return reflect.MapOf(kindType(f.Key), t)
	}
	return t
}

// Build constructs the Go type (field order = declaration order given).
func (s *Struct) Build() *Struct {
	var sf []reflect.StructField
	for i := range s.Fields {
		f := &s.Fields[i]
		tag := fmt.Sprint(f.ID)
		if f.Opt != "" {
			tag += "," + f.Opt
		}
		sf = append(sf, reflect.StructField{Name: fmt.Sprintf("F%d", i), Type: f.GoType(), Tag: reflect.StructTag(fmt.Sprintf(`thrift:"%s"`, tag))})
	}
	s.Type = reflect.StructOf(sf)
	return s
}

func sc(k Kind) Elem              { return Elem{Kind: k} }
func fld(e Elem, w Wrap) Field    { return Field{Elem: e, Wrap: w, Key: String} }
func opt(f Field, o string) Field { f.Opt = o; return f }
func mp(k Kind, e Elem) Field     { return Field{Elem: e, Wrap: MapOf, Key: k} }
func structOf(fs ...Field) *Struct { // ids 1,2,3...
	s := &Struct{Fields: fs}
	for i := range s.Fields {
		s.Fields[i].ID = int16(i + 1)
	}
	return s.Build()
}
func stE(fs ...Field) Elem { return Elem{Kind: StructK, Msg: structOf(fs...)} }

var inner = []Elem{
	stE(fld(sc(Int32), Plain)),
	stE(),
	stE(fld(sc(Bool), Plain), fld(sc(String), Plain)),
	stE(fld(sc(Bool), Plain), fld(sc(Bool), Ptr), fld(sc(Int64), Plain)),
	stE(fld(stE(fld(sc(Bool), Plain), fld(sc(Int16), Plain)), Plain), fld(sc(Int32), Plain)),
	stE(fld(sc(Int32), ListOf)),
	stE(opt(fld(sc(Int32), Plain), "required")),
}

// Palette lists the field shapes, simplest first. size 0 small, 1 full.
func Palette(size int) []Field {
	scalars := []Elem{sc(Int32), sc(Bool), sc(String), sc(Int64), sc(Float64), sc(Bytes), sc(Int8), sc(Int16), sc(Int), sc(Float32)}
	var p []Field
	if size == 0 {
		for _, e := range scalars[:6] {
			p = append(p, fld(e, Plain))
		}
		p = append(p, fld(sc(Bool), Ptr), fld(sc(Int32), ListOf), fld(sc(Bool), ListOf), mp(String, sc(Int32)), fld(sc(Int32), SetOf),
			fld(inner[0], Plain), fld(inner[2], Ptr), fld(inner[2], ListOf), opt(fld(sc(Int32), Plain), "required"), opt(fld(sc(Bool), Plain), "required"),
			fld(inner[2], SetOf))
		return p
	}
	for _, e := range scalars {
		p = append(p, fld(e, Plain))
	}
	for _, e := range scalars {
		if e.Kind != Bytes {
			p = append(p, fld(e, Ptr))
		}
		p = append(p, fld(e, ListOf))
	}
	for _, e := range []Elem{sc(Int32), sc(String), sc(Bool), sc(Int64), sc(Int8), sc(Float64)} {
		p = append(p, fld(e, SetOf))
	}
	for _, v := range []Elem{sc(Int32), sc(String), sc(Bool), sc(Float64), sc(Bytes), inner[0], inner[2]} {
		p = append(p, mp(String, v))
	}
	for _, k := range []Kind{Int32, Int64, Int8, Int16, Bool, Float64} {
		p = append(p, mp(k, sc(String)))
	}
	p = append(p, mp(Int32, sc(Int32)))
	for _, in := range inner {
		p = append(p, fld(in, Plain), fld(in, Ptr), fld(in, ListOf))
	}
	p = append(p, mp(Int32, inner[3]), Field{Elem: inner[0], Wrap: MapOf, Key: String})
	for _, e := range []Elem{sc(Int32), sc(Bool), sc(String), sc(Float64), sc(Bytes), inner[0]} {
		p = append(p, opt(fld(e, Plain), "required"), opt(fld(e, Plain), "optional"))
	}
	p = append(p, opt(fld(sc(Bool), Ptr), "optional"), opt(fld(sc(Int32), ListOf), "required"), opt(mp(String, sc(Int32)), "required"))
	for _, k := range []Kind{Int32, Int, Int64, Int8, Int16} {
		p = append(p, opt(fld(sc(k), Plain), "enum"))
	}
	// sets of structs (the items leave different fields at zero)
	for _, e := range []Elem{inner[0], inner[2], inner[4]} {
		p = append(p, fld(e, SetOf))
	}
	return p
}

var palettes = [2][]Field{Palette(0), Palette(1)}

// IDPatterns: field ids by position (declaration order!); gaps > 15, ranges > 64 and > 128, descending order.
var IDPatterns = [][]int16{
	{1, 2, 3, 4},
	{3, 1, 2, 4},
	{1, 16, 17, 33},
	{1, 17, 18, 40},
	{15, 16, 31, 32},
	{5, 100, 101, 130},
	{1, 64, 65, 66},
	{200, 100, 1000, 32767},
	{63, 64, 129, 1},
}

type Options struct {
	MaxFields int
	Thorough  bool
}

// EnumStruct enumerates one struct type.
func EnumStruct(c *explore.Ctx, o Options) *Struct {
	nf := 1 + c.Choose(o.MaxFields)
	pal := palettes[1]
	if nf >= 3 || (nf == 2 && !o.Thorough) {
		pal = palettes[0]
		if nf == 2 {
			pal = palettes[1][:0:0]
			pal = append(pal, palettes[0]...)
			pal = append(pal, palettes[1][len(palettes[1])-14:]...)
		}
	}
	s := &Struct{}
	for i := 0; i < nf; i++ {
		s.Fields = append(s.Fields, pal[c.Choose(len(pal))])
	}
	ids := IDPatterns[c.Deviate(len(IDPatterns))]
	for i := range s.Fields {
		s.Fields[i].ID = ids[i]
	}
	return s.Build()
}

// ---- values

func scalarDomain(k Kind) []any {
	switch k {
	case Bool:
		return []any{true, false}
	case Int8:
		return []any{int8(1), int8(0), int8(-1), int8(127), int8(-128)}
	case Int16:
		return []any{int16(1), int16(0), int16(-1), int16(63), int16(64), int16(math.MaxInt16), int16(math.MinInt16)}
	case Int32:
		return []any{int32(1), int32(0), int32(-1), int32(63), int32(64), int32(8192), int32(math.MaxInt32), int32(math.MinInt32)}
	case Int64:
		return []any{int64(1), int64(0), int64(-1), int64(1) << 31, int64(math.MaxInt64), int64(math.MinInt64)}
	case Int:
		return []any{int(1), int(0), int(-1), int(1) << 40, int(math.MaxInt64), int(math.MinInt64)}
	case Float32:
		return []any{float32(1), float32(0), float32(-1.5), float32(math.Inf(1)), float32(math.MaxFloat32), float32(math.Copysign(0, -1))}
	case Float64:
		return []any{float64(1), float64(0), float64(-1.5), math.Inf(-1), math.MaxFloat64, math.SmallestNonzeroFloat64, math.Copysign(0, -1)}
	case String:
		return []any{"a", "", strings.Repeat("x", 127), strings.Repeat("y", 128), "\xff\x00"}
	case Bytes:
		return []any{[]byte{1, 2, 3}, []byte(nil), []byte{0}, make([]byte, 128)}
	}
	panic("scalarDomain")
}

// enumDomain restricts integer kinds to the int32 range (thrift enums are i32).
func enumDomain(f *Field) []reflect.Value {
	var out []reflect.Value
	for _, x := range []int64{1, 0, -1, 63, 64, math.MaxInt32, math.MinInt32} {
		v := reflect.New(f.Elem.GoType()).Elem()
		if v.OverflowInt(x) {
			continue
		}
		v.SetInt(x)
		out = append(out, v)
	}
	return out
}

func elemDomain(e Elem) []reflect.Value {
	if e.Kind == StructK {
		return structDomain(e.Msg)
	}
	var out []reflect.Value
	for _, v := range scalarDomain(e.Kind) {
		if v == nil {
			out = append(out, reflect.Zero(e.GoType()))
		} else {
			out = append(out, reflect.ValueOf(v))
		}
	}
	return out
}

func structDomain(s *Struct) []reflect.Value {
	mk := func(set func(v reflect.Value)) reflect.Value {
		v := reflect.New(s.Type).Elem()
		set(v)
		return v
	}
	out := []reflect.Value{mk(func(v reflect.Value) {
		for i := range s.Fields {
			v.Field(i).Set(FieldDomain(&s.Fields[i])[0])
		}
	}), mk(func(reflect.Value) {})}
	for i := range s.Fields {
		d := FieldDomain(&s.Fields[i])
		for j := 1; j < len(d) && j <= 3; j++ {
			i, j := i, j
			out = append(out, mk(func(v reflect.Value) { v.Field(i).Set(d[j]) }))
		}
	}
	return out
}

var listLens = []int{2, 0, 1, 14, 15, 16, 100}

var domainCache = map[string][]reflect.Value{}

// FieldDomain: index 0 typical non-zero value, index 1 the zero value.
func FieldDomain(f *Field) []reflect.Value {
	key := f.String() + "|" + f.GoType().String()
	if d, ok := domainCache[key]; ok {
		return d
	}
	d := fieldDomain(f)
	domainCache[key] = d
	return d
}

func fieldDomain(f *Field) []reflect.Value {
	t := f.GoType()
	ed := elemDomain(f.Elem)
	if f.Opt == "enum" {
		ed = enumDomain(f)
	}
	var out []reflect.Value
	switch f.Wrap {
	case Plain:
		return ed
	case Ptr:
		mkp := func(v reflect.Value) reflect.Value {
			p := reflect.New(f.Elem.GoType())
			p.Elem().Set(v)
			return p
		}
		out = append(out, mkp(ed[0]), reflect.Zero(t))
		for _, v := range ed[1:] {
			out = append(out, mkp(v))
		}
	case ListOf:
		for _, n := range listLens {
			s := reflect.MakeSlice(t, n, n)
			for i := 0; i < n; i++ {
				s.Index(i).Set(ed[i%len(ed)])
			}
			out = append(out, s)
			if n == 2 {
				out = append(out, reflect.Zero(t))
			}
		}
		for j := 1; j < len(ed); j++ {
			s := reflect.MakeSlice(t, 1, 1)
			s.Index(0).Set(ed[j])
			out = append(out, s)
		}
	case SetOf:
		mk := func(n int) reflect.Value {
			m := reflect.MakeMap(t)
			for i := 0; i < n && i < len(ed); i++ {
				if ed[i].CanFloat() && ed[i].Float() != ed[i].Float() {
					continue
				}
				m.SetMapIndex(ed[i], reflect.ValueOf(struct{}{}))
			}
			return m
		}
		out = append(out, mk(1), reflect.Zero(t), reflect.MakeMap(t), mk(2), mk(100))
	case MapOf:
		kd := elemDomain(Elem{Kind: f.Key})
		mk := func(n, koff, voff int) reflect.Value {
			m := reflect.MakeMap(t)
			for i := 0; i < n; i++ {
				var k reflect.Value
				if i < len(kd) {
					k = kd[(i+koff)%len(kd)]
				} else if f.Key == String {
					k = reflect.ValueOf(fmt.Sprintf("key%d", i))
				} else if f.Key == Bool {
					break
				} else {
					k = reflect.New(kindType(f.Key)).Elem()
					if k.CanInt() {
						k.SetInt(int64(20 + i))
					} else {
						k.SetFloat(float64(20 + i))
					}
				}
				m.SetMapIndex(k, ed[(i+voff)%len(ed)])
			}
			return m
		}
		out = append(out, mk(1, 0, 0), reflect.Zero(t), reflect.MakeMap(t), mk(1, 1, 1), mk(2, 0, 0), mk(16, 0, 0))
	}
	return out
}

// EnumValue builds one value: base all-typical / all-zero plus deviations. Required
// fields are always set (never nil) so that the value is encodable and decodable.
func EnumValue(c *explore.Ctx, s *Struct) reflect.Value {
	v := reflect.New(s.Type).Elem()
	base := c.Choose(2)
	for i := range s.Fields {
		d := FieldDomain(&s.Fields[i])
		k := c.Deviate(len(d))
		idx := base
		if k > 0 {
			idx = k - 1
			if idx >= base {
				idx++
			}
		}
		v.Field(i).Set(d[idx])
	}
	return v
}

// ---- Go value -> specification AST (model of what Marshal must write)

func scalarT(k Kind) thriftspec.T {
	switch k {
	case Bool:
		return thriftspec.Bool
	case Int8:
		return thriftspec.I8
	case Int16:
		return thriftspec.I16
	case Int32:
		return thriftspec.I32
	case Int64, Int:
		return thriftspec.I64
	case Float32, Float64:
		return thriftspec.Double
	case String, Bytes:
		return thriftspec.Binary
	case StructK:
		return thriftspec.Struct
	}
	panic("scalarT")
}

func elemT(e Elem, enum bool) thriftspec.T {
	if enum {
		return thriftspec.I32
	}
	return scalarT(e.Kind)
}

func fieldT(f *Field) thriftspec.T {
	switch f.Wrap {
	case ListOf:
		return thriftspec.List
	case SetOf:
		return thriftspec.Set
	case MapOf:
		return thriftspec.Map
	}
	return elemT(f.Elem, f.Opt == "enum")
}

func elemAST(e Elem, v reflect.Value, enum bool) thriftspec.Val {
	t := elemT(e, enum)
	out := thriftspec.Val{T: t}
	switch e.Kind {
	case Bool:
		out.B = v.Bool()
	case Int8, Int16, Int32, Int64, Int:
		out.I = v.Int()
		if enum {
			out.I = int64(int32(v.Int()))
		}
	case Float32, Float64:
		out.F = v.Float()
	case String:
		out.S = []byte(v.String())
	case Bytes:
		out.S = append([]byte{}, v.Bytes()...)
	case StructK:
		return ToAST(e.Msg, v)
	}
	return out
}

// ToAST converts a struct value to the AST the encoder must produce: fields
// sorted by id, zero-valued non-required fields and nil pointers omitted.
func ToAST(s *Struct, v reflect.Value) thriftspec.Val {
	out := thriftspec.Val{T: thriftspec.Struct}
	order := make([]int, len(s.Fields))
	for i := range order {
		order[i] = i
	}
	sort.SliceStable(order, func(a, b int) bool { return s.Fields[order[a]].ID < s.Fields[order[b]].ID })
	for _, i := range order {
		f := &s.Fields[i]
		fv := v.Field(i)
		if fv.Kind() == reflect.Ptr && fv.IsNil() {
			continue
		}
		if f.Opt != "required" && fv.IsZero() {
			continue
		}
		var x thriftspec.Val
		switch f.Wrap {
		case Plain:
			x = elemAST(f.Elem, fv, f.Opt == "enum")
		case Ptr:
			x = elemAST(f.Elem, fv.Elem(), f.Opt == "enum")
		case ListOf:
			x = thriftspec.Val{T: thriftspec.List, Elem: scalarT(f.Elem.Kind)}
			for j := 0; j < fv.Len(); j++ {
				x.Items = append(x.Items, elemAST(f.Elem, fv.Index(j), false))
			}
		case SetOf:
			x = thriftspec.Val{T: thriftspec.Set, Elem: scalarT(f.Elem.Kind)}
			it := fv.MapRange()
			for it.Next() {
				x.Items = append(x.Items, elemAST(f.Elem, it.Key(), false))
			}
		case MapOf:
			x = thriftspec.Val{T: thriftspec.Map, Key: scalarT(f.Key), Value: scalarT(f.Elem.Kind)}
			it := fv.MapRange()
			for it.Next() {
				x.Pairs = append(x.Pairs, [2]thriftspec.Val{elemAST(Elem{Kind: f.Key}, it.Key(), false), elemAST(f.Elem, it.Value(), false)})
			}
		}
		out.Fields = append(out.Fields, thriftspec.Field{ID: f.ID, V: x})
	}
	return out
}

// HasMultiEntryMap reports whether v contains a map or set with more than one
// entry (its encoding order is not deterministic).
func HasMultiEntryMap(v reflect.Value) bool {
	switch v.Kind() {
	case reflect.Map:
		if v.Len() > 1 {
			return true
		}
		it := v.MapRange()
		for it.Next() {
			if HasMultiEntryMap(it.Value()) {
				return true
			}
		}
	case reflect.Ptr:
		return !v.IsNil() && HasMultiEntryMap(v.Elem())
	case reflect.Slice:
		for i := 0; i < v.Len(); i++ {
			if HasMultiEntryMap(v.Index(i)) {
				return true
			}
		}
	case reflect.Struct:
		for i := 0; i < v.NumField(); i++ {
			if HasMultiEntryMap(v.Field(i)) {
				return true
			}
		}
	}
	return false
}

// Describe renders a value compactly.
func Describe(v reflect.Value) string {
	s := fmt.Sprintf("%+v", derefAll(v))
	if len(s) > 300 {
		s = s[:300] + "…"
	}
	return s
}

func derefAll(v reflect.Value) any {
	switch v.Kind() {
	case reflect.Ptr:
		if v.IsNil() {
			return nil
		}
		return map[string]any{"&": derefAll(v.Elem())}
	case reflect.Struct:
		m := map[string]any{}
		for i := 0; i < v.NumField(); i++ {
			m[v.Type().Field(i).Name] = derefAll(v.Field(i))
		}
		return m
	case reflect.Slice:
		if v.IsNil() {
			return "nil"
		}
		if v.Type().Elem().Kind() == reflect.Uint8 {
			if v.Len() > 8 {
				return fmt.Sprintf("bytes(len=%d)", v.Len())
			}
			return fmt.Sprintf("%x", v.Bytes())
		}
		if v.Len() > 3 {
			return fmt.Sprintf("list(len=%d,[0]=%v)", v.Len(), derefAll(v.Index(0)))
		}
		var out []any
		for i := 0; i < v.Len(); i++ {
			out = append(out, derefAll(v.Index(i)))
		}
		return out
	case reflect.Map:
		if v.IsNil() {
			return "nil"
		}
		if v.Len() > 2 {
			return fmt.Sprintf("map(len=%d)", v.Len())
		}
		m := map[string]any{}
		it := v.MapRange()
		for it.Next() {
			m[fmt.Sprint(it.Key())] = derefAll(it.Value())
		}
		return m
	case reflect.String:
		if v.Len() > 12 {
			return fmt.Sprintf("string(len=%d)", v.Len())
		}
		return v.String()
	}
	return v.Interface()
}

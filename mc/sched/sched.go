//go:build verifshim

// Package sched is the controlled scheduler used by C09 (DESIGN.md §3): managed threads are real
// goroutines of which exactly one runs at a time; at every hooked synchronisation operation the
// running thread asks the explorer who goes next. Switching away from a thread that could continue
// costs one deviation (a preemption); so does a pool miss.
package sched

import (
	"fmt"
	"reflect"
	"runtime"
	"strings"

	"github.com/segmentio/encoding/verifshim/hook"
	"verif/mc/explore"
)

type lockState struct {
	writer  int // thread id or -1
	readers map[int]int
}

type thread struct {
	id       int
	wake     chan struct{}
	done     bool
	waitLock any
	waitMode string
	panicked any
	site     string
}

type snapshot struct {
	cell any
	m    reflect.Value
	n    int
	fp   uint64
	by   int
}

// Exec is one controlled execution.
type Exec struct {
	c       *explore.Ctx
	threads []*thread
	cur     int
	locks   map[any]*lockState
	fin     chan struct{}
	aborted bool
	closed  bool
	rethrow any // engine panic raised inside a thread goroutine

	Points      int
	Switches    int
	Preemptions int
	Misses      int
	Deadlock    string
	Violations  [][2]string
	Trace       []string
	Order       []byte // thread ids in the order of their stores and pool gets
	snaps       []snapshot
	record      bool
	ops         map[string]int
}

type abortSignal struct{}

// Run executes the thread bodies under the scheduler, all choices being drawn from c.
// Thread bodies must only share state through the library under test.
func Run(c *explore.Ctx, bodies []func()) *Exec {
	e := &Exec{c: c, locks: map[any]*lockState{}, fin: make(chan struct{}), record: c.Replay(), ops: map[string]int{}}
	for i := range bodies {
		e.threads = append(e.threads, &thread{id: i, wake: make(chan struct{}, 1)})
	}
	hook.S = e
	defer func() { hook.S = nil }()
	for i, b := range bodies {
		t, body := e.threads[i], b
		go func() {
			<-t.wake
			defer e.finish(t)
			defer func() {
				if r := recover(); r != nil {
					if _, ok := r.(abortSignal); ok {
						return
					}
					if isEngine(r) {
						e.rethrow = r
						return
					}
					t.panicked = r
					t.site = stackSite()
				}
			}()
			body()
		}()
	}
	first := 0
	if len(bodies) > 1 {
		first = c.Choose(len(bodies))
	}
	e.cur = first
	e.threads[first].wake <- struct{}{}
	<-e.fin
	if e.rethrow != nil {
		panic(e.rethrow)
	}
	e.checkSnapshots(true)
	return e
}

func isEngine(r any) bool {
	n := fmt.Sprintf("%T", r)
	return strings.HasPrefix(n, "explore.")
}

func stackSite() string {
	buf := make([]byte, 16384)
	buf = buf[:runtime.Stack(buf, false)]
	lines := strings.Split(string(buf), "\n")
	for i := 0; i+1 < len(lines); i++ {
		loc := strings.TrimSpace(lines[i+1])
		if strings.HasPrefix(loc, explore.RepoPrefix()) && !strings.Contains(loc, "/verifshim/") {
			fn := lines[i]
			if j := strings.LastIndex(fn, "("); j > 0 {
				fn = fn[:j]
			}
			return strings.TrimPrefix(fn, "github.com/segmentio/encoding/")
		}
	}
	return "?"
}

// Panicked returns the recovered panic of thread i (nil if none) and its site.
func (e *Exec) Panicked(i int) (any, string) { return e.threads[i].panicked, e.threads[i].site }

// Ops returns the number of hooked operations by kind.
func (e *Exec) Ops() map[string]int { return e.ops }

func (e *Exec) canRun(t *thread) bool {
	if t.done {
		return false
	}
	if t.waitLock == nil {
		return true
	}
	ls := e.locks[t.waitLock]
	if ls == nil {
		return true
	}
	if t.waitMode == "r" {
		return ls.writer < 0
	}
	return ls.writer < 0 && len(ls.readers) == 0
}

// enabled lists runnable threads: the running one first (if runnable), then ascending ids.
func (e *Exec) enabled(running *thread) []int {
	var out []int
	if running != nil && e.canRun(running) {
		out = append(out, running.id)
	}
	for _, t := range e.threads {
		if t != running && e.canRun(t) {
			out = append(out, t.id)
		}
	}
	return out
}

func (e *Exec) choose(fn func() int) (v int) {
	defer func() {
		if r := recover(); r != nil {
			e.rethrow = r
			e.abort()
			panic(abortSignal{})
		}
	}()
	return fn()
}

// abort marks the execution as over; fin is closed by the aborting thread's wrapper (finish) once it
// has unwound, so that the main goroutine never runs concurrently with repository code.
func (e *Exec) abort() { e.aborted = true }

func (e *Exec) closeFin() {
	if !e.closed {
		e.closed = true
		close(e.fin)
	}
}

// yield decides who runs next at a point of thread t; it returns when t runs again.
func (e *Exec) yield(t *thread, kind string) {
	if e.aborted {
		panic(abortSignal{})
	}
	en := e.enabled(t)
	if len(en) == 0 {
		e.deadlock()
		panic(abortSignal{})
	}
	next := en[0]
	if len(en) > 1 {
		selfEnabled := en[0] == t.id
		k := e.choose(func() int {
			if selfEnabled {
				return e.c.Deviate(len(en))
			}
			return e.c.Choose(len(en))
		})
		next = en[k]
		if selfEnabled && k > 0 {
			e.Preemptions++
		}
	}
	if e.record {
		e.Trace = append(e.Trace, fmt.Sprintf("T%d %s -> T%d", t.id, kind, next))
	}
	if next != t.id {
		e.Switches++
		e.cur = next
		e.threads[next].wake <- struct{}{}
		<-t.wake
		if e.aborted {
			panic(abortSignal{})
		}
	}
}

func (e *Exec) deadlock() {
	var w []string
	for _, t := range e.threads {
		if !t.done {
			w = append(w, fmt.Sprintf("T%d waits for %T(%s)", t.id, t.waitLock, t.waitMode))
		}
	}
	e.Deadlock = strings.Join(w, "; ")
	e.abort()
}

func (e *Exec) finish(t *thread) {
	if e.aborted {
		e.closeFin()
		return
	}
	t.done = true
	// release nothing: a thread ending while holding a lock leaves it held (others then deadlock, which is reported)
	en := e.enabled(nil)
	if len(en) == 0 {
		all := true
		for _, o := range e.threads {
			if !o.done {
				all = false
			}
		}
		if !all {
			e.deadlock()
		}
		e.closeFin()
		return
	}
	next := en[0]
	if len(en) > 1 {
		ok := true
		func() {
			defer func() {
				if r := recover(); r != nil {
					e.rethrow = r
					e.abort()
					e.closeFin()
					ok = false
				}
			}()
			next = en[e.c.Choose(len(en))]
		}()
		if !ok {
			return
		}
	}
	if e.record {
		e.Trace = append(e.Trace, fmt.Sprintf("T%d ends -> T%d", t.id, next))
	}
	e.cur = next
	e.threads[next].wake <- struct{}{}
}

// ---- hook.Scheduler

func (e *Exec) Point(kind string, obj any) {
	t := e.threads[e.cur]
	e.Points++
	e.ops[kind]++
	if strings.HasSuffix(kind, ".store") || strings.HasSuffix(kind, "pool.get") {
		e.Order = append(e.Order, byte('0'+t.id))
	}
	e.checkSnapshots(false)
	e.yield(t, kind)
}

func (e *Exec) Acquire(m any, mode string) {
	t := e.threads[e.cur]
	e.Points++
	e.ops["lock."+mode]++
	t.waitLock, t.waitMode = m, mode
	e.yield(t, "lock."+mode)
	t.waitLock = nil
	ls := e.locks[m]
	if ls == nil {
		ls = &lockState{writer: -1, readers: map[int]int{}}
		e.locks[m] = ls
	}
	if mode == "r" {
		ls.readers[t.id]++
	} else {
		ls.writer = t.id
	}
}

func (e *Exec) Release(m any, mode string) {
	t := e.threads[e.cur]
	ls := e.locks[m]
	if ls == nil || (mode == "w" && ls.writer != t.id) || (mode == "r" && ls.readers[t.id] == 0) {
		if mode == "w" && ls != nil && ls.writer >= 0 {
			// unlocking a mutex locked by another thread is legal in Go; honour it
			ls.writer = -1
			return
		}
		e.Violation("lock:unlock-of-unlocked", fmt.Sprintf("T%d releases %T(%s) which is not held", t.id, m, mode))
		return
	}
	if mode == "r" {
		ls.readers[t.id]--
		if ls.readers[t.id] == 0 {
			delete(ls.readers, t.id)
		}
	} else {
		ls.writer = -1
	}
	e.Points++
	e.ops["unlock."+mode]++
	e.yield(t, "unlock."+mode)
}

func (e *Exec) PoolMiss(p any) bool {
	miss := e.choose(func() int { return e.c.Deviate(2) }) == 1
	if miss {
		e.Misses++
		if e.record {
			e.Trace = append(e.Trace, fmt.Sprintf("T%d pool miss", e.cur))
		}
	}
	return miss
}

func (e *Exec) Violation(sig, msg string) {
	e.Violations = append(e.Violations, [2]string{sig, msg})
}

// Published records a map stored into a shared cell; published maps must never change afterwards
// (the caches are copy-on-write).
func (e *Exec) Published(cell any, v any) {
	rv := reflect.ValueOf(v)
	for rv.IsValid() && (rv.Kind() == reflect.Ptr || rv.Kind() == reflect.Interface) && !rv.IsNil() {
		rv = rv.Elem()
	}
	if !rv.IsValid() || rv.Kind() != reflect.Map {
		return
	}
	e.snaps = append(e.snaps, snapshot{cell: cell, m: rv, n: rv.Len(), fp: fingerprint(rv), by: e.cur})
}

func fingerprint(m reflect.Value) uint64 {
	var fp uint64
	it := m.MapRange()
	for it.Next() {
		h := hashValue(it.Key())*1099511628211 ^ hashValue(it.Value())
		fp += h*0x9E3779B97F4A7C15 + 1
	}
	return fp
}

func hashValue(v reflect.Value) uint64 {
	for v.Kind() == reflect.Interface && !v.IsNil() {
		v = v.Elem()
	}
	switch v.Kind() {
	case reflect.Ptr, reflect.UnsafePointer, reflect.Func, reflect.Map, reflect.Chan:
		return uint64(v.Pointer())
	case reflect.Int, reflect.Int8, reflect.Int16, reflect.Int32, reflect.Int64:
		return uint64(v.Int())
	case reflect.Uint, reflect.Uint8, reflect.Uint16, reflect.Uint32, reflect.Uint64, reflect.Uintptr:
		return v.Uint()
	case reflect.String:
		var h uint64 = 14695981039346656037
		for _, b := range []byte(v.String()) {
			h = (h ^ uint64(b)) * 1099511628211
		}
		return h
	case reflect.Struct:
		var h uint64 = 7
		for i := 0; i < v.NumField(); i++ {
			h = h*31 + hashValue(v.Field(i))
		}
		return h
	}
	return 1
}

func (e *Exec) checkSnapshots(full bool) {
	for i := range e.snaps {
		s := &e.snaps[i]
		if s.n < 0 {
			continue
		}
		if s.m.Len() != s.n || (full && fingerprint(s.m) != s.fp) {
			e.Violation("cache:published-map-modified", fmt.Sprintf("a map published by T%d through %T had %d entries when stored and was modified afterwards (now %d entries)", s.by, s.cell, s.n, s.m.Len()))
			s.n = -1
		}
	}
}

// Package thriftspec is a reference model of the Apache Thrift binary and
// compact protocol encodings over a small value AST, written from the protocol
// specifications (thrift-binary-protocol.md, thrift-compact-protocol.md).
// DESIGN.md §4.3.
package thriftspec

import (
	"encoding/binary"
	"errors"
	"fmt"
	"math"
)

// T is a thrift type at the specification level.
type T int

const (
	Bool T = iota + 1
	I8
	I16
	I32
	I64
	Double
	Binary
	List
	Set
	Map
	Struct
)

func (t T) String() string {
	return [...]string{"?", "BOOL", "I8", "I16", "I32", "I64", "DOUBLE", "BINARY", "LIST", "SET", "MAP", "STRUCT"}[t]
}

// binary protocol type codes (thrift-binary-protocol.md, "Struct encoding")
var binCode = map[T]byte{Bool: 2, I8: 3, Double: 4, I16: 6, I32: 8, I64: 10, Binary: 11, Struct: 12, Map: 13, Set: 14, List: 15}

// compact protocol type codes (thrift-compact-protocol.md, "Struct encoding"); Bool is 1 (true) / 2 (false) in field headers and 2 in container headers
var cmpCode = map[T]byte{Bool: 2, I8: 3, I16: 4, I32: 5, I64: 6, Double: 7, Binary: 8, List: 9, Set: 10, Map: 11, Struct: 12}

// Val is a thrift value.
type Val struct {
	T      T
	B      bool
	I      int64
	F      float64
	S      []byte
	Elem   T // list / set element type
	Key    T // map key type
	Value  T // map value type
	Items  []Val
	Pairs  [][2]Val
	Fields []Field
}

// Field is a struct field (in the order it is to be written).
type Field struct {
	ID int16
	V  Val
}

// Protocol selects the encoding.
type Protocol int

const (
	BinaryStrict Protocol = iota
	BinaryNonStrict
	Compact
)

func (p Protocol) String() string {
	return [...]string{"binary-strict", "binary-nonstrict", "compact"}[p]
}

// Options select alternative, still conformant, encodings (compact only).
type Options struct {
	LongFieldHeaders bool // always use the long form (absolute zig-zag id) field header
	LongListHeaders  bool // always use the long form list/set header
	PadVarints       bool // write non-minimal ULEB128 varints (one extra byte)
	BoolElemType1    bool // list/set/map element type BOOL written as 1 instead of 2
	BoolElemFalse2   bool // compact: a false container element written as 2 (as the reference implementations do) instead of 0
}

func zigzag(v int64) uint64 { return uint64(v<<1) ^ uint64(v>>63) }

func uleb(b []byte, v uint64, pad bool) []byte {
	if v >= 1<<56 {
		pad = false // already 9 or 10 bytes: a longer varint is not a valid 64-bit varint
	}
	for v >= 0x80 {
		b = append(b, byte(v)|0x80)
		v >>= 7
	}
	if pad {
		return append(b, byte(v)|0x80, 0x00)
	}
	return append(b, byte(v))
}

// Encode appends the encoding of v (not a message).
func Encode(p Protocol, b []byte, v Val, o Options) []byte {
	if p == Compact {
		return encCompact(b, v, o)
	}
	return encBinary(b, v)
}

func encBinary(b []byte, v Val) []byte {
	switch v.T {
	case Bool:
		if v.B {
			return append(b, 1)
		}
		return append(b, 0)
	case I8:
		return append(b, byte(v.I))
	case I16:
		return binary.BigEndian.AppendUint16(b, uint16(v.I))
	case I32:
		return binary.BigEndian.AppendUint32(b, uint32(v.I))
	case I64:
		return binary.BigEndian.AppendUint64(b, uint64(v.I))
	case Double:
		return binary.BigEndian.AppendUint64(b, math.Float64bits(v.F))
	case Binary:
		b = binary.BigEndian.AppendUint32(b, uint32(len(v.S)))
		return append(b, v.S...)
	case List, Set:
		b = append(b, binCode[v.Elem])
		b = binary.BigEndian.AppendUint32(b, uint32(len(v.Items)))
		for _, x := range v.Items {
			b = encBinary(b, x)
		}
		return b
	case Map:
		b = append(b, binCode[v.Key], binCode[v.Value])
		b = binary.BigEndian.AppendUint32(b, uint32(len(v.Pairs)))
		for _, kv := range v.Pairs {
			b = encBinary(b, kv[0])
			b = encBinary(b, kv[1])
		}
		return b
	case Struct:
		for _, f := range v.Fields {
			b = append(b, binCode[f.V.T])
			b = binary.BigEndian.AppendUint16(b, uint16(f.ID))
			b = encBinary(b, f.V)
		}
		return append(b, 0) // stop field: a single zero byte
	}
	panic("encBinary")
}

func elemCode(t T, o Options) byte {
	if t == Bool && o.BoolElemType1 {
		return 1
	}
	return cmpCode[t]
}

func encCompact(b []byte, v Val, o Options) []byte {
	switch v.T {
	case Bool: // as a container element: one byte
		if v.B {
			return append(b, 1)
		}
		if o.BoolElemFalse2 {
			return append(b, 2)
		}
		return append(b, 0)
	case I8:
		return append(b, byte(v.I))
	case I16, I32, I64:
		return uleb(b, zigzag(v.I), o.PadVarints)
	case Double:
		return binary.LittleEndian.AppendUint64(b, math.Float64bits(v.F))
	case Binary:
		b = uleb(b, uint64(len(v.S)), o.PadVarints)
		return append(b, v.S...)
	case List, Set:
		n := len(v.Items)
		if n <= 14 && !o.LongListHeaders {
			b = append(b, byte(n)<<4|elemCode(v.Elem, o))
		} else {
			b = append(b, 0xF0|elemCode(v.Elem, o))
			b = uleb(b, uint64(n), o.PadVarints)
		}
		for _, x := range v.Items {
			b = encCompact(b, x, o)
		}
		return b
	case Map:
		if len(v.Pairs) == 0 {
			return append(b, 0)
		}
		b = uleb(b, uint64(len(v.Pairs)), o.PadVarints)
		// key and value types are element types: the 1-or-2 latitude for BOOL applies (the Java implementation writes 1)
		b = append(b, elemCode(v.Key, o)<<4|elemCode(v.Value, o))
		for _, kv := range v.Pairs {
			b = encCompact(b, kv[0], o)
			b = encCompact(b, kv[1], o)
		}
		return b
	case Struct:
		last := int16(0)
		for _, f := range v.Fields {
			code := cmpCode[f.V.T]
			if f.V.T == Bool {
				code = 2
				if f.V.B {
					code = 1
				}
			}
			delta := int(f.ID) - int(last)
			if delta > 0 && delta <= 15 && !o.LongFieldHeaders {
				b = append(b, byte(delta)<<4|code)
			} else {
				b = append(b, code)
				b = uleb(b, zigzag(int64(f.ID)), o.PadVarints)
			}
			if f.V.T != Bool {
				b = encCompact(b, f.V, o)
			}
			last = f.ID
		}
		return append(b, 0)
	}
	panic("encCompact")
}

// Message header.
type Message struct {
	Type  int // 1 call, 2 reply, 3 exception, 4 oneway
	Name  string
	SeqID int32
}

// EncodeMessage appends a message header.
func EncodeMessage(p Protocol, b []byte, m Message) []byte {
	switch p {
	case BinaryStrict:
		b = append(b, 0x80, 0x01, 0x00, byte(m.Type))
		b = binary.BigEndian.AppendUint32(b, uint32(len(m.Name)))
		b = append(b, m.Name...)
		return binary.BigEndian.AppendUint32(b, uint32(m.SeqID))
	case BinaryNonStrict:
		b = binary.BigEndian.AppendUint32(b, uint32(len(m.Name)))
		b = append(b, m.Name...)
		b = append(b, byte(m.Type))
		return binary.BigEndian.AppendUint32(b, uint32(m.SeqID))
	default:
		b = append(b, 0x82, byte(m.Type)<<5|1)
		b = uleb(b, uint64(uint32(m.SeqID)), false)
		b = uleb(b, uint64(len(m.Name)), false)
		return append(b, m.Name...)
	}
}

// ---- decoder (used to check self-consistency of the model and as the
// expected result for alternative encodings)

var errShort = errors.New("short input")

type dec struct {
	b []byte
	p Protocol
}

func (d *dec) byte() (byte, error) {
	if len(d.b) < 1 {
		return 0, errShort
	}
	x := d.b[0]
	d.b = d.b[1:]
	return x, nil
}

func (d *dec) take(n int) ([]byte, error) {
	if n < 0 || len(d.b) < n {
		return nil, errShort
	}
	x := d.b[:n]
	d.b = d.b[n:]
	return x, nil
}

func (d *dec) uvarint() (uint64, error) {
	var x uint64
	var s uint
	for i := 0; i < 10; i++ {
		c, err := d.byte()
		if err != nil {
			return 0, err
		}
		x |= uint64(c&0x7f) << s
		if c < 0x80 {
			return x, nil
		}
		s += 7
	}
	return 0, errors.New("varint too long")
}

func unzig(u uint64) int64 { return int64(u>>1) ^ -int64(u&1) }

func typeFromBin(c byte) (T, error) {
	for t, x := range binCode {
		if x == c {
			return t, nil
		}
	}
	return 0, fmt.Errorf("bad binary type code %d", c)
}

func typeFromCmp(c byte) (T, error) {
	if c == 1 {
		return Bool, nil
	}
	for t, x := range cmpCode {
		if x == c {
			return t, nil
		}
	}
	return 0, fmt.Errorf("bad compact type code %d", c)
}

// Decode decodes one value of type t and returns the remaining bytes.
func Decode(p Protocol, b []byte, t T) (Val, []byte, error) {
	d := &dec{b: b, p: p}
	v, err := d.value(t, 0)
	return v, d.b, err
}

func (d *dec) value(t T, depth int) (Val, error) {
	if depth > 64 {
		return Val{}, errors.New("too deep")
	}
	v := Val{T: t}
	compact := d.p == Compact
	switch t {
	case Bool:
		c, err := d.byte()
		v.B = c != 0 && !(compact && c == 2)
		return v, err
	case I8:
		c, err := d.byte()
		v.I = int64(int8(c))
		return v, err
	case I16, I32, I64:
		if compact {
			u, err := d.uvarint()
			v.I = unzig(u)
			return v, err
		}
		n := map[T]int{I16: 2, I32: 4, I64: 8}[t]
		x, err := d.take(n)
		if err != nil {
			return v, err
		}
		switch n {
		case 2:
			v.I = int64(int16(binary.BigEndian.Uint16(x)))
		case 4:
			v.I = int64(int32(binary.BigEndian.Uint32(x)))
		default:
			v.I = int64(binary.BigEndian.Uint64(x))
		}
		return v, nil
	case Double:
		x, err := d.take(8)
		if err != nil {
			return v, err
		}
		if compact {
			v.F = math.Float64frombits(binary.LittleEndian.Uint64(x))
		} else {
			v.F = math.Float64frombits(binary.BigEndian.Uint64(x))
		}
		return v, nil
	case Binary:
		var n uint64
		if compact {
			var err error
			if n, err = d.uvarint(); err != nil {
				return v, err
			}
		} else {
			x, err := d.take(4)
			if err != nil {
				return v, err
			}
			n = uint64(binary.BigEndian.Uint32(x))
		}
		if n > uint64(len(d.b)) {
			return v, errShort
		}
		x, _ := d.take(int(n))
		v.S = append([]byte{}, x...)
		return v, nil
	case List, Set:
		var n uint64
		var et T
		var err error
		if compact {
			h, err := d.byte()
			if err != nil {
				return v, err
			}
			if et, err = typeFromCmp(h & 0xf); err != nil {
				return v, err
			}
			n = uint64(h >> 4)
			if n == 15 {
				if n, err = d.uvarint(); err != nil {
					return v, err
				}
			}
		} else {
			c, err := d.byte()
			if err != nil {
				return v, err
			}
			if et, err = typeFromBin(c); err != nil {
				return v, err
			}
			x, err := d.take(4)
			if err != nil {
				return v, err
			}
			n = uint64(binary.BigEndian.Uint32(x))
		}
		if n > uint64(len(d.b)) {
			return v, errShort
		}
		v.Elem = et
		for i := uint64(0); i < n; i++ {
			x, err := d.value(et, depth+1)
			if err != nil {
				return v, err
			}
			v.Items = append(v.Items, x)
		}
		return v, err
	case Map:
		var n uint64
		if compact {
			var err error
			if n, err = d.uvarint(); err != nil {
				return v, err
			}
			if n == 0 {
				return v, nil
			}
			h, err := d.byte()
			if err != nil {
				return v, err
			}
			if v.Key, err = typeFromCmp(h >> 4); err != nil {
				return v, err
			}
			if v.Value, err = typeFromCmp(h & 0xf); err != nil {
				return v, err
			}
		} else {
			x, err := d.take(6)
			if err != nil {
				return v, err
			}
			if v.Key, err = typeFromBin(x[0]); err != nil {
				return v, err
			}
			if v.Value, err = typeFromBin(x[1]); err != nil {
				return v, err
			}
			n = uint64(binary.BigEndian.Uint32(x[2:]))
		}
		if n > uint64(len(d.b)) {
			return v, errShort
		}
		for i := uint64(0); i < n; i++ {
			k, err := d.value(v.Key, depth+1)
			if err != nil {
				return v, err
			}
			x, err := d.value(v.Value, depth+1)
			if err != nil {
				return v, err
			}
			v.Pairs = append(v.Pairs, [2]Val{k, x})
		}
		return v, nil
	case Struct:
		last := int16(0)
		for {
			h, err := d.byte()
			if err != nil {
				return v, err
			}
			if h == 0 {
				return v, nil
			}
			var ft T
			var id int16
			folded := false
			var fb bool
			if compact {
				code := h & 0xf
				if code == 1 || code == 2 {
					ft, folded, fb = Bool, true, code == 1
				} else if ft, err = typeFromCmp(code); err != nil {
					return v, err
				}
				if h>>4 != 0 {
					id = last + int16(h>>4)
				} else {
					u, err := d.uvarint()
					if err != nil {
						return v, err
					}
					id = int16(unzig(u))
				}
			} else {
				if ft, err = typeFromBin(h); err != nil {
					return v, err
				}
				x, err := d.take(2)
				if err != nil {
					return v, err
				}
				id = int16(binary.BigEndian.Uint16(x))
			}
			var fv Val
			if folded {
				fv = Val{T: Bool, B: fb}
			} else if fv, err = d.value(ft, depth+1); err != nil {
				return v, err
			}
			v.Fields = append(v.Fields, Field{ID: id, V: fv})
			last = id
		}
	}
	return v, fmt.Errorf("bad type %d", t)
}

// Package c20: ascii predicates equal their byte-wise definitions (DESIGN.md §5 C20).
package c20

import (
	"fmt"
	"unsafe"
	"verif/mc/guardpage"

	"github.com/segmentio/encoding/ascii"
	"verif/mc/explore"
)

func refValid(b []byte) bool {
	for _, c := range b {
		if c >= 0x80 {
			return false
		}
	}
	return true
}

func refValidPrint(b []byte) bool {
	for _, c := range b {
		if c < 0x20 || c > 0x7e {
			return false
		}
	}
	return true
}

func lower(c byte) byte {
	if c >= 'A' && c <= 'Z' {
		return c + 32
	}
	return c
}

func refEqualFold(a, b []byte) bool {
	if len(a) != len(b) {
		return false
	}
	for i := range a {
		if lower(a[i]) != lower(b[i]) {
			return false
		}
	}
	return true
}

func refHasPrefixFold(s, p []byte) bool {
	return len(s) >= len(p) && refEqualFold(s[:len(p)], p)
}

func refHasSuffixFold(s, p []byte) bool {
	return len(s) >= len(p) && refEqualFold(s[len(s)-len(p):], p)
}

// arena returns a 64-byte aligned window of n bytes starting at alignment off.
func arena(size int) []byte {
	raw := make([]byte, size+128)
	a := int(uintptr(unsafe.Pointer(&raw[0])) & 63)
	return raw[(64-a)&63:]
}

func str(b []byte) string { return unsafe.String(unsafe.SliceData(b), len(b)) }

func mix(h uint64, v uint64) uint64 {
	h ^= v + 0x9e3779b97f4a7c15 + (h << 6) + (h >> 2)
	return h
}

func maxLen(c *explore.Ctx, q, t int) int {
	if c.Thorough() {
		return t
	}
	return q
}

var fillers = []byte{'a', ' ', 'Z', '~'}

func validSweep(c *explore.Ctx) {
	n := c.Choose(maxLen(c, 131, 321)) // length 0..130 / 0..320
	nf := len(fillers)
	if !c.Thorough() {
		nf = 2
	}
	fill := fillers[c.Choose(nf)]
	ar := arena(512)
	var digest uint64
	var cases int64
	for off := 0; off < 32; off++ {
		b := ar[off : off+n : off+n]
		for i := range b {
			b[i] = fill
		}
		check := func(pos, val int) {
			wv, wp := refValid(b), refValidPrint(b)
			gv, gvs, gp, gps := ascii.Valid(b), ascii.ValidString(str(b)), ascii.ValidPrint(b), ascii.ValidPrintString(str(b))
			cases++
			var bits uint64
			if gv {
				bits |= 1
			}
			if gvs {
				bits |= 2
			}
			if gp {
				bits |= 4
			}
			if gps {
				bits |= 8
			}
			digest += mix(uint64(n)<<32|uint64(off)<<24|uint64(pos+1)<<8|uint64(val), bits)
			if gv != wv {
				c.Fail("Valid", "Valid len=%d off=%d pos=%d byte=%#x fill=%q got %v want %v", n, off, pos, val, fill, gv, wv)
			}
			if gvs != wv {
				c.Fail("ValidString", "ValidString len=%d off=%d pos=%d byte=%#x fill=%q got %v want %v", n, off, pos, val, fill, gvs, wv)
			}
			if gp != wp {
				c.Fail("ValidPrint", "ValidPrint len=%d off=%d pos=%d byte=%#x fill=%q got %v want %v", n, off, pos, val, fill, gp, wp)
			}
			if gps != wp {
				c.Fail("ValidPrintString", "ValidPrintString len=%d off=%d pos=%d byte=%#x fill=%q got %v want %v", n, off, pos, val, fill, gps, wp)
			}
		}
		check(-1, 0)
		for pos := 0; pos < n; pos++ {
			for val := 0; val < 256; val++ {
				b[pos] = byte(val)
				check(pos, val)
			}
			b[pos] = fill
		}
	}
	c.Inner(cases)
	c.Count("digest", int64(digest))
	c.Nontrivial(uint64(n)<<8 | uint64(fill))
	if c.Failed() {
		c.Outcome("fail")
	} else if n == 0 {
		c.Outcome("empty")
	} else {
		c.Outcome("accepts-and-rejects")
	}
	if c.WantSample() {
		c.Case(map[string]any{"len": n, "fill": string(fill), "alignments": "0..31", "positions": n, "byte_values": 256})
	}
}

var foldBases = []byte{'a', 'Q', '5', 0x00, 0x7f, '@', '[', '`', '{', ' '}

// ---- surroundings: the operands are windows of a larger buffer, with spare capacity behind them; what lies
// outside the window (before it, and behind it within the capacity) must not matter

var hostile = []byte{0x80, 0x7f, 0x5f, 0x00, 0xff, 0x1f, 'A', 0x20}

func surroundings(c *explore.Ctx) {
	n := c.Choose(maxLen(c, 41, 73)) // window length 0..40 / 0..72
	out := hostile[c.Choose(len(hostile))]
	ar := arena(512)
	var digest uint64
	var cases int64
	for _, fill := range []byte{'a', 'Z', '~', ' '} {
		for off := 0; off < 17; off++ {
			for _, spare := range []int{0, 1, 7, 8, 9, 64} {
				for i := range ar[:256] {
					ar[i] = out
				}
				b := ar[off : off+n : off+n+spare]
				for i := range b {
					b[i] = fill
				}
				// a second operand equal up to case, elsewhere in the same hostile buffer
				o := ar[300 : 300+n : 300+n+spare]
				for i := range ar[280:400] {
					ar[280+i] = out
				}
				for i := range o {
					o[i] = fill ^ 0x20
					if lower(fill) == fill && (fill < 'a' || fill > 'z') {
						o[i] = fill
					}
				}
				check := func(pos, val int) {
					wv, wp := refValid(b), refValidPrint(b)
					gv, gvs, gp, gps := ascii.Valid(b), ascii.ValidString(str(b)), ascii.ValidPrint(b), ascii.ValidPrintString(str(b))
					cases++
					var bits uint64
					for k, g := range []bool{gv, gvs, gp, gps} {
						if g {
							bits |= 1 << k
						}
					}
					if gv != wv || gvs != wv {
						c.Fail("Valid/surroundings", "Valid/ValidString of a %d-byte window (offset %d, %d spare bytes, %#x outside, fill %q, byte %#x at %d) = %v/%v, want %v", n, off, spare, out, fill, val, pos, gv, gvs, wv)
					}
					if gp != wp || gps != wp {
						c.Fail("ValidPrint/surroundings", "ValidPrint/ValidPrintString of a %d-byte window (offset %d, %d spare bytes, %#x outside, fill %q, byte %#x at %d) = %v/%v, want %v", n, off, spare, out, fill, val, pos, gp, gps, wp)
					}
					if val < 0x80 { // fold functions: ASCII operands only
						we, wpre, wsuf := refEqualFold(b, o), refHasPrefixFold(b, o), refHasSuffixFold(b, o)
						ge, ges := ascii.EqualFold(b, o), ascii.EqualFoldString(str(b), str(o))
						gpre, gsuf := ascii.HasPrefixFold(b, o), ascii.HasSuffixFold(b, o)
						for k, g := range []bool{ge, ges, gpre, gsuf} {
							if g {
								bits |= 16 << k
							}
						}
						if ge != we || ges != we || gpre != wpre || gsuf != wsuf {
							c.Fail("Fold/surroundings", "EqualFold/EqualFoldString/HasPrefixFold/HasSuffixFold of %d-byte windows (offset %d, %d spare bytes, %#x outside, fill %q, byte %#x at %d) = %v/%v/%v/%v, want %v/%v/%v/%v", n, off, spare, out, fill, val, pos, ge, ges, gpre, gsuf, we, we, wpre, wsuf)
						}
					}
					digest += mix(uint64(n)<<40|uint64(off)<<32|uint64(spare)<<24|uint64(pos+1)<<8|uint64(val&0xff), bits^uint64(fill)<<56)
				}
				check(-1, 0)
				for pos := 0; pos < n; pos++ {
					for _, val := range []int{0x80, 0x7f, 0x1f, 0x20, 0x7e, 'a', 'A'} {
						b[pos] = byte(val)
						check(pos, val)
					}
					b[pos] = fill
				}
			}
		}
	}
	c.Inner(cases)
	c.Count("digest", int64(digest))
	c.Nontrivial(uint64(n)<<8 | uint64(out))
	if c.Failed() {
		c.Outcome("fail")
	} else if n == 0 {
		c.Outcome("empty")
	} else {
		c.Outcome("accepts-and-rejects")
	}
	if c.WantSample() {
		c.Case(map[string]any{"len": n, "outside": fmt.Sprintf("%#x", out), "offsets": "0..16", "spare_capacities": "0,1,7,8,9,64"})
	}
}

// ---- page-edge: operands that end at the last accessible byte / start at the first one

var edgeA, edgeB *guardpage.Region

func pageEdge(c *explore.Ctx) {
	if edgeA == nil {
		edgeA, edgeB = guardpage.New(), guardpage.New()
	}
	n := c.Choose(maxLen(c, 131, 321))
	var cases int64
	var digest uint64
	plain := make([]byte, n)
	for _, fill := range []byte{'a', 'Z', ' '} {
		for i := range plain {
			plain[i] = fill
		}
		for _, atEnd := range []bool{true, false} {
			place := func(r *guardpage.Region, b []byte) []byte {
				if atEnd {
					return r.AtEnd(b)
				}
				return r.AtStart(b, 0x80)
			}
			where := map[bool]string{true: "ending at the last accessible byte", false: "starting at the first accessible byte"}[atEnd]
			for pos := -1; pos < n; pos++ {
				vals := []int{0x80, 0x7f, 0x1f, 'A', 'z'}
				if pos < 0 {
					vals = []int{0}
				}
				for _, val := range vals {
					if pos >= 0 {
						plain[pos] = byte(val)
					}
					b := place(edgeA, plain)
					var gv, gvs, gp, gps bool
					fault, msg := guardpage.Faults(func() {
						gv, gvs, gp, gps = ascii.Valid(b), ascii.ValidString(str(b)), ascii.ValidPrint(b), ascii.ValidPrintString(str(b))
					})
					cases++
					if fault {
						c.Fail("page-edge:reads-outside-the-operand", "Valid / ValidPrint of a %d-byte operand %s touches memory outside it (byte %#x at %d): %s", n, where, val, pos, msg)
					} else if wv, wp := refValid(plain), refValidPrint(plain); gv != wv || gvs != wv || gp != wp || gps != wp {
						c.Fail("page-edge:Valid-differs", "Valid/ValidString/ValidPrint/ValidPrintString of a %d-byte operand %s (byte %#x at %d) = %v/%v/%v/%v, want %v/%v", n, where, val, pos, gv, gvs, gp, gps, wv, wp)
					}
					if val < 0x80 {
						// fold functions: the other operand differs in case only, at the edge of another region;
						// prefixes and suffixes of every length up to 9 and the full length
						other := make([]byte, n)
						for i := range other {
							other[i] = plain[i] ^ 0x20
							if lower(plain[i]) == plain[i] && (plain[i] < 'a' || plain[i] > 'z') {
								other[i] = plain[i]
							}
						}
						o := place(edgeB, other)
						var ge, ges, gpre, gsuf bool
						fault, msg := guardpage.Faults(func() {
							ge, ges = ascii.EqualFold(b, o), ascii.EqualFoldString(str(b), str(o))
							gpre, gsuf = ascii.HasPrefixFold(b, o), ascii.HasSuffixFold(b, o)
						})
						if fault {
							c.Fail("page-edge:reads-outside-the-operand", "EqualFold / HasPrefixFold / HasSuffixFold of %d-byte operands %s touch memory outside them: %s", n, where, msg)
						} else if we := refEqualFold(plain, other); ge != we || ges != we || gpre != refHasPrefixFold(plain, other) || gsuf != refHasSuffixFold(plain, other) {
							c.Fail("page-edge:Fold-differs", "EqualFold/EqualFoldString/HasPrefixFold/HasSuffixFold of %d-byte operands %s = %v/%v/%v/%v, want %v", n, where, ge, ges, gpre, gsuf, we)
						}
						for _, k := range []int{0, 1, 7, 8, 9, 15, 16, 17} {
							if k > n {
								continue
							}
							pre, suf := place(edgeB, other[:k]), other[n-k:]
							var g1, g2 bool
							fault, msg := guardpage.Faults(func() { g1 = ascii.HasPrefixFold(b, pre) })
							if !fault {
								sufP := place(edgeB, suf)
								fault, msg = guardpage.Faults(func() { g2 = ascii.HasSuffixFold(b, sufP) })
							}
							if fault {
								c.Fail("page-edge:reads-outside-the-operand", "HasPrefixFold / HasSuffixFold (%d-byte operand, %d-byte affix) %s touch memory outside them: %s", n, k, where, msg)
							} else if !g1 || !g2 {
								c.Fail("page-edge:Fold-differs", "HasPrefixFold/HasSuffixFold (%d-byte operand, %d-byte affix equal up to case) %s = %v/%v, want true", n, k, where, g1, g2)
							}
						}
						cases += 10
					}
					var bits uint64
					for k, g := range []bool{gv, gvs, gp, gps} {
						if g {
							bits |= 1 << k
						}
					}
					digest += mix(uint64(n)<<32|uint64(pos+1)<<8|uint64(val), bits)
				}
				if pos >= 0 {
					plain[pos] = fill
				}
			}
		}
	}
	c.Inner(cases)
	c.Count("digest", int64(digest))
	c.Nontrivial(uint64(n))
	if c.Failed() {
		c.Outcome("fail")
	} else if n == 0 {
		c.Outcome("empty")
	} else {
		c.Outcome("accepts-and-rejects")
	}
	if c.WantSample() {
		c.Case(map[string]any{"len": n, "placements": "ending at the last accessible byte; starting at the first accessible byte"})
	}
}

func foldSweep(c *explore.Ctx) {
	n := 1 + c.Choose(maxLen(c, 72, 136))
	// the bytes around the varied pair: word-at-a-time folding lets a neighbour's borrow or carry leak into a lane,
	// so short inputs (where such paths live) are swept with every class of neighbour
	nb := 3
	if !c.Thorough() {
		nb = 1
	}
	if n <= 12 || (c.Thorough() && n <= 24) {
		nb = len(foldBases)
	}
	base := foldBases[c.Choose(nb)]
	ar1, ar2 := arena(512), arena(512)
	off := (n * 7) & 31
	a := ar1[off : off+n : off+n]
	b := ar2[(off+3)&31 : ((off+3)&31)+n]
	b = b[:n:n]
	for i := range a {
		a[i], b[i] = base, base
	}
	var digest uint64
	var cases int64
	for pos := 0; pos < n; pos++ {
		for x := 0; x < 128; x++ {
			a[pos] = byte(x)
			for y := 0; y < 128; y++ {
				b[pos] = byte(y)
				want := lower(byte(x)) == lower(byte(y))
				g1, g2 := ascii.EqualFold(a, b), ascii.EqualFoldString(str(a), str(b))
				g3, g4 := ascii.HasPrefixFold(a, b), ascii.HasPrefixFoldString(str(a), str(b))
				g5, g6 := ascii.HasSuffixFold(a, b), ascii.HasSuffixFoldString(str(a), str(b))
				cases++
				var bits uint64
				for i, g := range [...]bool{g1, g2, g3, g4, g5, g6} {
					if g {
						bits |= 1 << i
					}
					if g != want {
						name := [...]string{"EqualFold", "EqualFoldString", "HasPrefixFold", "HasPrefixFoldString", "HasSuffixFold", "HasSuffixFoldString"}[i]
						c.Fail(name, "%s len=%d pos=%d x=%#x y=%#x base=%q got %v want %v", name, n, pos, x, y, base, g, want)
					}
				}
				digest += mix(uint64(n)<<32|uint64(pos)<<16|uint64(x)<<8|uint64(y), bits)
			}
		}
		a[pos], b[pos] = base, base
	}
	c.Inner(cases)
	c.Count("digest", int64(digest))
	c.Nontrivial(1<<40 | uint64(n)<<8 | uint64(base))
	if c.Failed() {
		c.Outcome("fail")
	} else {
		c.Outcome("equal-and-unequal")
	}
	if c.WantSample() {
		c.Case(map[string]any{"len": n, "base": string(base), "pairs": "all 128x128 ASCII byte pairs at every position"})
	}
}

// affixSweep: prefix/suffix with every length combination and one deviating
// position in either operand.
func affixSweep(c *explore.Ctx) {
	ls := c.Choose(maxLen(c, 41, 81))
	lp := c.Choose(maxLen(c, 44, 84))
	ar1, ar2 := arena(256), arena(256)
	s := ar1[5 : 5+ls : 5+ls]
	p := ar2[9 : 9+lp : 9+lp]
	devs := []byte{'M', 'n', '[', '@', '`', 0x00, 0x7f, 'm'}
	var cases int64
	var digest uint64
	run := func(tag uint64) {
		w1, w2, w3 := refEqualFold(s, p), refHasPrefixFold(s, p), refHasSuffixFold(s, p)
		got := [...]bool{ascii.EqualFold(s, p), ascii.EqualFoldString(str(s), str(p)), ascii.HasPrefixFold(s, p), ascii.HasPrefixFoldString(str(s), str(p)), ascii.HasSuffixFold(s, p), ascii.HasSuffixFoldString(str(s), str(p))}
		want := [...]bool{w1, w1, w2, w2, w3, w3}
		cases++
		var bits uint64
		for i := range got {
			if got[i] {
				bits |= 1 << i
			}
			if got[i] != want[i] {
				name := [...]string{"EqualFold", "EqualFoldString", "HasPrefixFold", "HasPrefixFoldString", "HasSuffixFold", "HasSuffixFoldString"}[i]
				c.Fail(name+"/affix", "%s(%q,%q) got %v want %v", name, s, p, got[i], want[i])
			}
		}
		digest += mix(uint64(ls)<<48|uint64(lp)<<32|tag, bits)
	}
	fillS := func() {
		for i := range s {
			s[i] = 'a' + byte(i%26)
		}
	}
	// p is the fold-equal prefix, then the fold-equal suffix, of s (upper-cased), extended with 'x' when longer
	for mode := 0; mode < 2; mode++ {
		fillS()
		for i := range p {
			var src int
			if mode == 0 {
				src = i
			} else {
				src = ls - lp + i
			}
			if src >= 0 && src < ls {
				p[i] = s[src] - 32
			} else {
				p[i] = 'X'
			}
		}
		run(uint64(mode) << 24)
		for pos := 0; pos < lp; pos++ {
			old := p[pos]
			for di, d := range devs {
				p[pos] = d
				run(uint64(mode)<<24 | uint64(pos+1)<<8 | uint64(di+1))
			}
			p[pos] = old
		}
		for pos := 0; pos < ls; pos++ {
			old := s[pos]
			for di, d := range devs {
				s[pos] = d
				run(uint64(mode)<<24 | 1<<20 | uint64(pos+1)<<8 | uint64(di+1))
			}
			s[pos] = old
		}
	}
	c.Inner(cases)
	c.Count("digest", int64(digest))
	c.Nontrivial(2<<40 | uint64(ls)<<16 | uint64(lp))
	switch {
	case c.Failed():
		c.Outcome("fail")
	case lp > ls:
		c.Outcome("longer-affix")
	case lp == ls:
		c.Outcome("same-length")
	default:
		c.Outcome("proper-affix")
	}
	if c.WantSample() {
		c.Case(map[string]any{"len_s": ls, "len_affix": lp, "deviations": string(devs)})
	}
}

// aliasSweep: both operands are views of one buffer (same or overlapping memory, any two lengths).
func aliasSweep(c *explore.Ctx) {
	off1 := []int{0, 1, 7, 8, 9}[c.Choose(5)]
	off2 := []int{0, 1, 7, 8, 9}[c.Choose(5)]
	pattern := c.Choose(3)
	buf := arena(160)[3:131]
	for i := range buf {
		switch pattern {
		case 0:
			buf[i] = 'a'
		case 1:
			buf[i] = "aA"[i%2]
		case 2:
			buf[i] = 'a' + byte(i%26)
		}
	}
	maxN := maxLen(c, 41, 73)
	var cases int64
	var digest uint64
	for n := 0; n < maxN; n++ {
		for m := 0; m < maxN; m++ {
			s := buf[off1 : off1+n : off1+n]
			p := buf[off2 : off2+m : off2+m]
			w1, w2, w3 := refEqualFold(s, p), refHasPrefixFold(s, p), refHasSuffixFold(s, p)
			got := [...]bool{ascii.EqualFold(s, p), ascii.EqualFoldString(str(s), str(p)), ascii.HasPrefixFold(s, p), ascii.HasPrefixFoldString(str(s), str(p)), ascii.HasSuffixFold(s, p), ascii.HasSuffixFoldString(str(s), str(p))}
			want := [...]bool{w1, w1, w2, w2, w3, w3}
			cases++
			var bits uint64
			for i := range got {
				if got[i] {
					bits |= 1 << i
				}
				if got[i] != want[i] {
					name := [...]string{"EqualFold", "EqualFoldString", "HasPrefixFold", "HasPrefixFoldString", "HasSuffixFold", "HasSuffixFoldString"}[i]
					c.Fail(name+"/aliased", "%s on two views of one buffer (offsets %d and %d, lengths %d and %d, pattern %d) got %v want %v", name, off1, off2, n, m, pattern, got[i], want[i])
				}
			}
			digest += mix(uint64(n)<<48|uint64(m)<<32|uint64(off1)<<8|uint64(off2), bits)
		}
	}
	c.Inner(cases)
	c.Count("digest", int64(digest))
	c.Nontrivial(3<<40 | uint64(off1)<<16 | uint64(off2)<<8 | uint64(pattern))
	c.Outcome(fmt.Sprintf("same-start=%v", off1 == off2))
	if c.WantSample() {
		c.Case(map[string]any{"offset_s": off1, "offset_p": off2, "pattern": pattern, "lengths": "all pairs"})
	}
}

func singles(c *explore.Ctx) {
	which := c.Choose(2)
	var digest uint64
	if which == 0 {
		for v := 0; v < 256; v++ {
			b := byte(v)
			g1, g2 := ascii.ValidByte(b), ascii.ValidPrintByte(b)
			if g1 != (b < 0x80) {
				c.Fail("ValidByte", "ValidByte(%#x)=%v", b, g1)
			}
			if g2 != (b >= 0x20 && b <= 0x7e) {
				c.Fail("ValidPrintByte", "ValidPrintByte(%#x)=%v", b, g2)
			}
			var bits uint64
			if g1 {
				bits |= 1
			}
			if g2 {
				bits |= 2
			}
			digest += mix(uint64(v), bits)
		}
		c.Inner(256)
		c.Outcome("bytes")
	} else {
		// Every rune 0..0x110000 plus boundary values. Negative runes are not
		// code points and "below 0x80" does not settle ValidRune on them, so
		// they are fed to ValidPrintRune only (0x20..0x7E is unambiguous).
		var n int64
		check := func(r rune) {
			g1, g2 := ascii.ValidRune(r), ascii.ValidPrintRune(r)
			if r >= 0 && g1 != (r < 0x80) {
				c.Fail("ValidRune", "ValidRune(%#x)=%v", r, g1)
			}
			if g2 != (r >= 0x20 && r <= 0x7e) {
				c.Fail("ValidPrintRune", "ValidPrintRune(%#x)=%v", r, g2)
			}
			var bits uint64
			if g1 && r >= 0 {
				bits |= 1
			}
			if g2 {
				bits |= 2
			}
			digest += mix(uint64(uint32(r)), bits)
			n++
		}
		for r := rune(0); r <= 0x110000; r++ {
			check(r)
		}
		for sh := 0; sh < 31; sh++ {
			for d := rune(-0x100); d <= 0x100; d++ {
				check(rune(1)<<sh + d)
				check(-(rune(1) << sh) + d)
			}
		}
		check(-1 << 31)
		check(1<<31 - 1)
		runes := make([]struct{}, n)
		c.Inner(int64(len(runes)))
		c.Outcome("runes")
	}
	c.Count("digest", int64(digest))
	c.Nontrivial(3<<40 | uint64(which))
	c.Case(map[string]any{"single_value_predicates": []string{"bytes 0..255", "runes"}[which]})
}

// Spec returns the C20 check.
func Spec() *explore.Spec {
	both := []string{"default", "purego"}
	return &explore.Spec{
		ID: "C20",
		Families: []*explore.Family{
			{Name: "valid-sweep", Variants: both, ShardDepth: 2, Body: validSweep, Doc: "every (length, alignment 0..31, position, byte value 0..255) single deviation from an all-valid string, 4 fillers"},
			{Name: "surroundings", Variants: both, ShardDepth: 2, Body: surroundings, Doc: "operands that are windows of a larger buffer: window length 0..40 (thorough 72) x 17 offsets x spare capacity {0,1,7,8,9,64} x 8 values of the bytes outside the window (0x80, 0x7f, 0x5f, 0x00, 0xff, 0x1f, 'A', space) x 4 fillers x 7 deviating bytes at every position: Valid / ValidPrint / EqualFold / HasPrefixFold / HasSuffixFold and their String variants answer from the window alone"},
			{Name: "page-edge", Variants: both, ShardDepth: 1, Body: pageEdge, Doc: "operands of every length 0..130 (thorough 320) placed so that they end at the last byte before an inaccessible page, and so that they start at the first byte behind one (3 fillers, a deviating byte at every position, affixes of 8 lengths): no function touches memory outside its operands (a fault is caught) and every answer equals the byte-wise definition"},
			{Name: "fold-pairs", Variants: both, ShardDepth: 2, Body: foldSweep, Doc: "every ordered pair of ASCII bytes at every position of equal-length operands, the other positions filled with each of 10 neighbour classes (letters of both cases, digit, NUL, DEL, space, and the bytes next to the letter ranges) for lengths <= 12 (thorough 24), one (thorough three) above"},
			{Name: "affix-lengths", Variants: both, ShardDepth: 2, Body: affixSweep, Doc: "every (len s, len affix) combination with single deviations"},
			{Name: "aliased-operands", Variants: both, ShardDepth: 2, Body: aliasSweep, Doc: "both operands are views of one buffer: 5 x 5 start offsets x every pair of lengths x 3 contents"},
			{Name: "singles", Variants: both, Body: singles, Doc: "byte and rune predicates"},
		},
		Rule: "exhaustive single-deviation sweeps; a distinct non-trivial case is one (family, length[, filler/affix length]) block, each containing both accepted and rejected inputs",
		Assumptions: []string{
			"byte-wise definitions in props/c20 are the specification (one-line loops)",
			"fold functions are only specified for ASCII operands: non-ASCII bytes are not fed to them",
			"asm kernels live in the github.com/segmentio/asm dependency; they are checked through this repository's wrappers",
		},
		Post: func(rs []explore.FamView) []explore.Violation {
			var out []explore.Violation
			dig := map[string]map[string]int64{}
			for _, r := range rs {
				if dig[r.Family] == nil {
					dig[r.Family] = map[string]int64{}
				}
				dig[r.Family][r.Variant] = r.Counters["digest"]
			}
			for fam, m := range dig {
				if a, ok := m["default"]; ok {
					if b, ok := m["purego"]; ok && a != b {
						out = append(out, explore.Violation{Family: fam, Variant: "purego", Sig: "digest-mismatch:" + fam, Msg: fmt.Sprintf("answer-table digests differ between default (%x) and purego (%x) builds", uint64(a), uint64(b))})
					}
				}
			}
			return out
		},
	}
}

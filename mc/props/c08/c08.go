// Package c08: thrift decoding is total, bounded and skips unknown fields (DESIGN.md §5 C08).
package c08

import (
	"bufio"
	"bytes"
	"encoding/binary"
	"errors"
	"fmt"
	"io"
	"reflect"
	"runtime/metrics"
	"strings"
	"testing/iotest"

	"github.com/segmentio/encoding/thrift"
	"verif/mc/explore"
	"verif/mc/gen/pgen"
	"verif/mc/gen/tgen"
	"verif/mc/props/c04"
	spec "verif/mc/ref/thriftspec"
)

var protos = []spec.Protocol{spec.BinaryStrict, spec.BinaryNonStrict, spec.Compact}

func impl(p spec.Protocol) thrift.Protocol { return c04.Protocols[int(p)].P }

var allocSample = []metrics.Sample{{Name: "/gc/heap/allocs:bytes"}}

func allocated() uint64 {
	metrics.Read(allocSample)
	return allocSample[0].Value.Uint64()
}

func budget(n int) uint64 { return 1<<20 + 1024*uint64(n) }

func trunc(b []byte) []byte {
	if len(b) > 40 {
		return b[:40]
	}
	return b
}

func proto3(p spec.Protocol) string {
	if p == spec.Compact {
		return "compact"
	}
	return "binary"
}

// decode runs Unmarshal (or a strict Decoder) under the panic / allocation monitors.
func decode(c *explore.Ctx, p spec.Protocol, t reflect.Type, in []byte, strict bool, site string) (reflect.Value, error, bool) {
	return decodeVia(c, p, t, in, strict, site, nil)
}

// onlyRead hides everything but Read (no Len, no ReadByte, no WriteTo): what a network connection or a file looks like.
type onlyRead struct{ r io.Reader }

func (o onlyRead) Read(p []byte) (int, error) { return o.r.Read(p) }

// decodeVia: mk == nil decodes with Unmarshal (or a strict Decoder on a bytes.Reader); otherwise with a
// Decoder on the reader mk builds. The allocation budget applies either way.
func decodeVia(c *explore.Ctx, p spec.Protocol, t reflect.Type, in []byte, strict bool, site string, mk func([]byte) io.Reader) (reflect.Value, error, bool) {
	out := reflect.New(t)
	var err error
	warm(p, t)
	run := func(dst any) error {
		if mk != nil {
			d := thrift.NewDecoder(impl(p).NewReader(mk(in)))
			d.SetStrict(strict)
			return d.Decode(dst)
		}
		return thrift.Unmarshal(impl(p), in, dst)
	}
	before := allocated()
	pv, ps := explore.Catch(func() {
		if mk != nil {
			err = run(out.Interface())
		} else if strict {
			d := thrift.NewDecoder(impl(p).NewReader(bytes.NewReader(in)))
			d.SetStrict(true)
			err = d.Decode(out.Interface())
		} else {
			err = thrift.Unmarshal(impl(p), in, out.Interface())
		}
	})
	used := allocated() - before
	if pv != nil {
		c.Fail("decode:panic:"+site+":"+ps+":"+explore.PanicClass(pv), "decoding % x (%s) into %s panicked: %v [%s]", trunc(in), p, t, pv, site)
		return out, nil, false
	}
	// allocation statistics are flushed lazily by the runtime, so one reading can
	// include earlier allocations: only a reproducible excess counts
	for rep := 0; rep < 3 && used > budget(len(in)); rep++ {
		b0 := allocated()
		explore.Catch(func() { run(reflect.New(t).Interface()) })
		if u := allocated() - b0; u < used {
			used = u
		}
	}
	if used > budget(len(in)) {
		c.Fail("decode:alloc:"+site+":"+proto3(p), "decoding %d bytes % x (%s) allocated %d bytes [%s]", len(in), trunc(in), p, used, site)
	}
	return out, err, true
}

var warmed = map[reflect.Type]bool{}

// warm makes the implementation build (and cache) its codec for t before a
// measured call: the copy-on-write codec cache copies itself on every first use
// of a type, which is unrelated to the input being decoded.
func warm(p spec.Protocol, t reflect.Type) {
	if !warmed[t] {
		warmed[t] = true
		explore.Catch(func() { thrift.Unmarshal(impl(p), []byte{0}, reflect.New(t).Interface()) })
	}
}

func eofClass(err error) string {
	switch {
	case err == nil:
		return "nil"
	case err == io.EOF:
		return "io.EOF"
	case errors.Is(err, io.ErrUnexpectedEOF):
		return "unexpected-EOF"
	case errors.Is(err, io.EOF):
		return "wrapped-io.EOF"
	}
	return "other"
}

// ---- family: Reader methods on short byte strings

var readerMethods = []struct {
	name string
	call func(r thrift.Reader) (any, error)
	// need is the number of bytes without which the value cannot be complete (0: it depends on the content)
	needBinary, needCompact int
}{
	{"ReadBool", func(r thrift.Reader) (any, error) { return r.ReadBool() }, 1, 1},
	{"ReadInt8", func(r thrift.Reader) (any, error) { return r.ReadInt8() }, 1, 1},
	{"ReadInt16", func(r thrift.Reader) (any, error) { return r.ReadInt16() }, 2, 1},
	{"ReadInt32", func(r thrift.Reader) (any, error) { return r.ReadInt32() }, 4, 1},
	{"ReadInt64", func(r thrift.Reader) (any, error) { return r.ReadInt64() }, 8, 1},
	{"ReadFloat64", func(r thrift.Reader) (any, error) { return r.ReadFloat64() }, 8, 8},
	{"ReadBytes", func(r thrift.Reader) (any, error) { return r.ReadBytes() }, 4, 1},
	{"ReadString", func(r thrift.Reader) (any, error) { return r.ReadString() }, 4, 1},
	{"ReadLength", func(r thrift.Reader) (any, error) { n, e := r.ReadLength(); lastCount = int64(n); return n, e }, 4, 1},
	{"ReadMessage", func(r thrift.Reader) (any, error) { return r.ReadMessage() }, 0, 4},
	{"ReadField", func(r thrift.Reader) (any, error) { return r.ReadField() }, 1, 1},
	{"ReadList", func(r thrift.Reader) (any, error) { l, e := r.ReadList(); lastCount = int64(l.Size); return l, e }, 5, 1},
	{"ReadSet", func(r thrift.Reader) (any, error) { l, e := r.ReadSet(); lastCount = int64(l.Size); return l, e }, 5, 1},
	{"ReadMap", func(r thrift.Reader) (any, error) { l, e := r.ReadMap(); lastCount = int64(l.Size); return l, e }, 6, 1},
}

// readerKinds are the io.Readers the protocol readers are put on top of (they look at the concrete type
// for byte-wise reads and for discarding).
var readerKinds = []struct {
	name string
	mk   func(in []byte) io.Reader
}{
	{"bytes.Reader", func(in []byte) io.Reader { return bytes.NewReader(in) }},
	{"bytes.Buffer", func(in []byte) io.Reader { return bytes.NewBuffer(append([]byte{}, in...)) }},
	{"bufio.Reader", func(in []byte) io.Reader { return bufio.NewReaderSize(bytes.NewReader(in), 16) }},
	{"one-byte reads", func(in []byte) io.Reader { return iotest.OneByteReader(bytes.NewReader(in)) }},
	{"data with EOF", func(in []byte) io.Reader { return iotest.DataErrReader(bytes.NewReader(in)) }},
}

// lastCount is the length or element count returned by the last ReadLength / ReadList / ReadSet / ReadMap call.
var lastCount int64

var classBytes = []byte{0x00, 0x01, 0x02, 0x05, 0x08, 0x0b, 0x0c, 0x0f, 0x10, 0x15, 0x7f, 0x80, 0x82, 0xf0, 0xf5, 0xff}

func readerBytes(c *explore.Ctx) {
	p := protos[c.Choose(3)]
	m := readerMethods[c.Choose(len(readerMethods))]
	mode := c.Choose(2)
	rk := readerKinds[c.Choose(len(readerKinds))]
	need := m.needBinary
	if p == spec.Compact {
		need = m.needCompact
	}
	var n int64
	run := func(in []byte) {
		n++
		var err error
		var res any
		lastCount = 0
		before := allocated()
		pv, ps := explore.Catch(func() { res, err = m.call(impl(p).NewReader(rk.mk(in))) })
		used := allocated() - before
		if pv != nil {
			c.Fail("Reader:panic:"+m.name+":"+ps+":"+explore.PanicClass(pv), "%s on % x (%s over %s) panicked: %v", m.name, in, p, rk.name, pv)
			return
		}
		if err == nil && lastCount < 0 {
			c.Fail("Reader:negative-count-accepted:"+m.name+":"+proto3(p), "%s on % x (%s) returns the count %d without an error", m.name, in, p, lastCount)
		}
		for rep := 0; rep < 3 && used > budget(len(in)); rep++ { // lazily flushed allocation statistics: only a reproducible excess counts
			b0 := allocated()
			explore.Catch(func() { m.call(impl(p).NewReader(rk.mk(in))) })
			if u := allocated() - b0; u < used {
				used = u
			}
		}
		if used > budget(len(in)) {
			c.Fail("Reader:alloc:"+m.name+":"+proto3(p), "%s on %d bytes % x (%s) allocated %d bytes", m.name, len(in), in, p, used)
		}
		if len(in) == 0 && err != io.EOF {
			c.Fail("Reader:empty-input-not-io.EOF:"+m.name+":"+proto3(p), "%s on empty input (%s over %s) returned %v, want io.EOF", m.name, p, rk.name, err)
		}
		if len(in) > 0 && err == io.EOF {
			c.Fail("Reader:plain-io.EOF-on-truncated-input:"+m.name+":"+proto3(p), "%s on non-empty truncated input % x (%s over %s) returned plain io.EOF", m.name, in, p, rk.name)
		}
		// a value that takes `need` bytes cannot come out of fewer
		if err == nil && len(in) < need {
			c.Fail("Reader:value-from-truncated-input:"+m.name+":"+proto3(p), "%s on the %d bytes % x (%s over %s) returns %v without an error; the value takes at least %d bytes", m.name, len(in), in, p, rk.name, res, need)
		}
		// the Reader consumes its input front to back: what it returns for a complete input it cannot have
		// returned, differently, for a proper prefix of that input
		if err == nil {
			for j := 0; j < len(in); j++ {
				var perr error
				var pres any
				if pv, _ := explore.Catch(func() { pres, perr = m.call(impl(p).NewReader(rk.mk(in[:j]))) }); pv != nil || perr != nil {
					continue
				}
				if !reflect.DeepEqual(pres, res) {
					c.Fail("Reader:prefix-gives-another-value:"+m.name+":"+proto3(p), "%s (%s over %s) returns %v for % x but %v, also without an error, for its %d-byte prefix", m.name, p, rk.name, res, in, pres, j)
					break
				}
			}
		}
	}
	if mode == 0 {
		run(nil)
		for a := 0; a < 256; a++ {
			run([]byte{byte(a)})
			if rk.name != "bytes.Reader" && bytes.IndexByte(classBytes, byte(a)) < 0 {
				continue // the other kinds of reader: second bytes only after a first byte of the class alphabet
			}
			for b := 0; b < 256; b++ {
				run([]byte{byte(a), byte(b)})
			}
		}
	} else {
		maxL := 5
		if c.Thorough() {
			maxL = 6
		}
		if rk.name != "bytes.Reader" {
			maxL -= 2 // the other kinds of reader differ in how bytes are fetched, not in what they mean
		}
		buf := make([]byte, 0, 8)
		var rec func(d int)
		rec = func(d int) {
			run(buf)
			if d == maxL {
				return
			}
			for _, x := range classBytes {
				buf = append(buf, x)
				rec(d + 1)
				buf = buf[:len(buf)-1]
			}
		}
		rec(0)
	}
	c.Inner(n)
	c.NontrivialStr("reader", p.String(), m.name, fmt.Sprint(mode), rk.name)
	c.Outcome("reader-" + proto3(p))
	if c.WantSample() {
		c.Case(map[string]any{"protocol": p.String(), "method": m.name, "reader": rk.name, "inputs": n, "mode": []string{"all byte strings <=2", "class alphabet <=5"}[mode]})
	}
}

// ---- valid encodings of boundary values

func enumCase(c *explore.Ctx) (*tgen.Struct, reflect.Value, spec.Protocol, spec.Val) {
	s := tgen.EnumStruct(c, tgen.Options{MaxFields: 2, Thorough: c.Thorough()})
	v := tgen.EnumValue(c, s)
	p := protos[c.Choose(3)]
	return s, v, p, tgen.ToAST(s, v)
}

func shapeOf(s *tgen.Struct) string {
	var parts []string
	for _, f := range s.Fields {
		parts = append(parts, f.Shape())
	}
	out := strings.Join(parts, ";")
	if len(out) > 90 {
		out = out[:90]
	}
	return out
}

func truncations(c *explore.Ctx) {
	pgen.FloatsByValue = true
	s, v, p, ast := enumCase(c)
	e := spec.Encode(p, nil, ast, spec.Options{})
	if len(e) > 700 {
		c.Outcome("skipped-long")
		return
	}
	desc := fmt.Sprintf("%s = %s over %s", s, tgen.Describe(v), p)
	var n int64
	for cut := 0; cut < len(e); cut++ {
		n++
		_, err, ok := decode(c, p, s.Type, e[:cut], false, "truncation")
		if !ok {
			continue
		}
		cls := eofClass(err)
		switch {
		case cut == 0 && err != io.EOF:
			c.Fail("truncation:empty-input:"+cls+":"+proto3(p), "Unmarshal of empty input returned %v, want io.EOF (%s)", err, desc)
		case cut > 0 && cls != "unexpected-EOF":
			c.Fail("truncation:"+cls+":"+proto3(p)+":"+shapeOf(s), "Unmarshal of the %d-byte prefix % x of % x returned %v, want an unexpected-EOF class error (%s)", cut, trunc(e[:cut]), trunc(e), err, desc)
		}
	}
	// trailing byte
	for _, extra := range []byte{0x00, 0x01, 0xff} {
		n++
		_, err, ok := decode(c, p, s.Type, append(append([]byte{}, e...), extra), false, "trailing")
		if ok && err == nil {
			c.Fail("trailing-bytes-accepted:"+proto3(p), "Unmarshal accepts % x followed by %#02x (%s)", trunc(e), extra, desc)
		}
	}
	// every single-byte corruption: totality only
	maxCorrupt := 12
	if c.Thorough() {
		maxCorrupt = 120
	}
	if len(e) <= maxCorrupt {
		buf := make([]byte, len(e))
		for pos := 0; pos < len(e); pos++ {
			for x := 0; x < 256; x++ {
				copy(buf, e)
				buf[pos] = byte(x)
				decode(c, p, s.Type, buf, false, "corruption")
				if x%16 == 0 {
					decode(c, p, s.Type, buf, true, "corruption-strict")
				}
				n++
			}
		}
	}
	c.Inner(n)
	c.NontrivialStr("trunc", s.String(), tgen.Describe(v), p.String())
	c.Outcome(fmt.Sprintf("%s len>16=%v", proto3(p), len(e) > 16))
	if c.WantSample() || c.Failed() {
		c.Case(map[string]any{"type": s.String(), "value": tgen.Describe(v), "protocol": p.String(), "encoding": fmt.Sprintf("%x", trunc(e)), "inputs": n})
	}
}

// ---- unknown field insertion

func unknownValues() []spec.Val {
	i32 := func(x int64) spec.Val { return spec.Val{T: spec.I32, I: x} }
	str := spec.Val{T: spec.Binary, S: []byte("unknown")}
	inner := spec.Val{T: spec.Struct, Fields: []spec.Field{{ID: 1, V: spec.Val{T: spec.Bool, B: true}}, {ID: 2, V: str}, {ID: 30, V: spec.Val{T: spec.List, Elem: spec.I32, Items: []spec.Val{i32(1), i32(-2)}}}}}
	return []spec.Val{
		{T: spec.Bool, B: true}, {T: spec.Bool, B: false}, {T: spec.I8, I: -1}, {T: spec.I16, I: 300}, i32(1 << 20), {T: spec.I64, I: -1 << 40}, {T: spec.Double, F: 1.5}, str, {T: spec.Binary},
		{T: spec.List, Elem: spec.I32, Items: []spec.Val{i32(7)}},
		{T: spec.List, Elem: spec.Bool, Items: []spec.Val{{T: spec.Bool, B: true}, {T: spec.Bool}}},
		{T: spec.List, Elem: spec.Struct, Items: []spec.Val{inner, {T: spec.Struct}}},
		{T: spec.List, Elem: spec.I64, Items: make([]spec.Val, 0)},
		{T: spec.Set, Elem: spec.Binary, Items: []spec.Val{str}},
		{T: spec.Map, Key: spec.I32, Value: spec.Struct, Pairs: [][2]spec.Val{{i32(1), inner}}},
		{T: spec.Map, Key: spec.Binary, Value: spec.List, Pairs: [][2]spec.Val{{str, {T: spec.List, Elem: spec.I8, Items: []spec.Val{{T: spec.I8, I: 1}}}}}},
		{T: spec.Map, Key: spec.I32, Value: spec.I32},
		inner, {T: spec.Struct},
		{T: spec.Struct, Fields: []spec.Field{{ID: 5, V: inner}, {ID: 100, V: spec.Val{T: spec.Bool}}}},
	}
}

var unkVals = unknownValues()

func fixupListItems(v spec.Val) spec.Val {
	for i := range v.Items {
		if v.Items[i].T == 0 {
			v.Items[i].T = v.Elem
		}
	}
	return v
}

func unknownIDs(fs []spec.Field) []int16 {
	used := map[int16]bool{}
	mn, mx := int16(32767), int16(0)
	for _, f := range fs {
		used[f.ID] = true
		if f.ID < mn {
			mn = f.ID
		}
		if f.ID > mx {
			mx = f.ID
		}
	}
	var out []int16
	add := func(id int16) {
		if id > 0 && !used[id] {
			used[id] = true
			out = append(out, id)
		}
	}
	if len(fs) == 0 {
		mn, mx = 1, 1
	}
	add(mn - 1)
	for id := mn + 1; id < mx; id++ { // first gap
		if !used[id] {
			add(id)
			break
		}
	}
	add(mx + 1)
	add(mx + 16)
	add(mn + 65)
	add(32767)
	return out
}

// insertAll returns every AST with one unknown field inserted at one field boundary (depth <= 2).
func insertAll(ast spec.Val, s *tgen.Struct, depth int, visit func(spec.Val, string)) {
	ids := unknownIDs(allDeclared(s))
	for pos := 0; pos <= len(ast.Fields); pos++ {
		for _, id := range ids {
			for _, uv := range unkVals {
				a := ast
				a.Fields = append(append(append([]spec.Field{}, ast.Fields[:pos]...), spec.Field{ID: id, V: fixupListItems(uv)}), ast.Fields[pos:]...)
				visit(a, fmt.Sprintf("%s@%d", uv.T, id))
			}
		}
		// runs: the same undeclared id twice in a row (with the same and with another type), and two undeclared ids
		for k, uv := range unkVals {
			if k%5 != 0 {
				continue // runs start with every fifth of the unknown values
			}
			other := unkVals[(k+1)%len(unkVals)]
			for _, second := range []spec.Field{{ID: ids[0], V: fixupListItems(uv)}, {ID: ids[0], V: fixupListItems(other)}, {ID: ids[len(ids)-1], V: fixupListItems(uv)}} {
				if second.ID < ids[0] {
					continue
				}
				a := ast
				a.Fields = append(append(append([]spec.Field{}, ast.Fields[:pos]...), spec.Field{ID: ids[0], V: fixupListItems(uv)}, second), ast.Fields[pos:]...)
				visit(a, fmt.Sprintf("run:%s,%s@%d,%d", uv.T, second.V.T, ids[0], second.ID))
			}
		}
	}
	if depth == 0 {
		return
	}
	for i, f := range ast.Fields {
		var sub *tgen.Struct
		for j := range s.Fields {
			if s.Fields[j].ID == f.ID && s.Fields[j].Elem.Kind == tgen.StructK && (s.Fields[j].Wrap == tgen.Plain || s.Fields[j].Wrap == tgen.Ptr) {
				sub = s.Fields[j].Elem.Msg
			}
		}
		if sub == nil || f.V.T != spec.Struct {
			continue
		}
		insertAll(f.V, sub, depth-1, func(inner spec.Val, what string) {
			a := ast
			a.Fields = append([]spec.Field{}, ast.Fields...)
			a.Fields[i].V = inner
			visit(a, "nested:"+what)
		})
	}
}

func allDeclared(s *tgen.Struct) []spec.Field {
	var out []spec.Field
	for _, f := range s.Fields {
		out = append(out, spec.Field{ID: f.ID})
	}
	return out
}

func unknownInsertion(c *explore.Ctx) {
	pgen.FloatsByValue = true
	s, v, p, ast := enumCase(c)
	if len(spec.Encode(p, nil, ast, spec.Options{})) > 300 {
		c.Outcome("skipped-long")
		return
	}
	desc := fmt.Sprintf("%s = %s over %s", s, tgen.Describe(v), p)
	var n int64
	insertAll(ast, s, 1, func(a spec.Val, what string) {
		n++
		in := spec.Encode(p, nil, a, spec.Options{})
		got, err, ok := decode(c, p, s.Type, in, false, "unknown-insertion")
		if !ok {
			return
		}
		kind := what
		if i := strings.IndexByte(what, '@'); i > 0 {
			kind = what[:i]
		}
		if err != nil {
			c.Fail("unknown-insertion:rejected:"+proto3(p)+":"+kind, "unknown field %s inserted: Unmarshal(% x) fails: %v (%s)", what, trunc(in), err, desc)
			return
		}
		if ds := pgen.Diffs(v, got.Elem()); len(ds) > 0 {
			c.Fail("unknown-insertion:value-changed:"+proto3(p)+":"+kind, "unknown field %s inserted: Unmarshal(% x) differs at %s: %s (%s)", what, trunc(in), ds[0].Path, ds[0].Why, desc)
		}
		// the same through a Decoder on another kind of reader (skipping discards through the reader's own means)
		rk := readerKinds[1+int(n)%(len(readerKinds)-1)]
		out := reflect.New(s.Type)
		var derr error
		if pv, ps := explore.Catch(func() { derr = thrift.NewDecoder(impl(p).NewReader(rk.mk(in))).Decode(out.Interface()) }); pv != nil {
			c.Fail("decode:panic:unknown-insertion:"+ps+":"+explore.PanicClass(pv), "Decoder over %s on % x (%s) panicked: %v", rk.name, trunc(in), p, pv)
		} else if derr != nil {
			c.Fail("unknown-insertion:rejected:"+proto3(p)+":"+kind+":"+rk.name, "unknown field %s inserted: Decoder over %s fails on % x: %v (%s)", what, rk.name, trunc(in), derr, desc)
		} else if ds := pgen.Diffs(v, out.Elem()); len(ds) > 0 {
			c.Fail("unknown-insertion:value-changed:"+proto3(p)+":"+kind+":"+rk.name, "unknown field %s inserted: Decoder over %s on % x differs at %s: %s (%s)", what, rk.name, trunc(in), ds[0].Path, ds[0].Why, desc)
		}
	})
	c.Inner(n)
	c.NontrivialStr("ins", s.String(), tgen.Describe(v), p.String())
	c.Outcome(fmt.Sprintf("%s variants>200=%v", proto3(p), n > 200))
	if c.WantSample() || c.Failed() {
		c.Case(map[string]any{"type": s.String(), "value": tgen.Describe(v), "protocol": p.String(), "insertions": n})
	}
}

// ---- depth ladder: values nested by the sender, in fields the target skips or (thorough) decodes recursively

type deepT struct {
	A int32   `thrift:"1"`
	R *deepT  `thrift:"2"`
	L []deepL `thrift:"3"`
}

type deepL struct {
	L []deepL `thrift:"1"`
}

var ladderDepths = []int{100, 1000, 9999, 10000, 10001, 100000, 1000000, 4000000}

func depthLadder(c *explore.Ctx)      { depthLadderBody(c, false) }
func depthLadderTyped(c *explore.Ctx) { depthLadderBody(c, true) }

func depthLadderBody(c *explore.Ctx, typed bool) {
	p := protos[c.Choose(3)]
	var shape int
	if typed {
		shape = 4 + c.Choose(2)
	} else {
		shape = c.Choose(4)
	}
	depth := ladderDepths[c.Choose(len(ladderDepths))]
	if typed && !c.Thorough() && depth > 100000 {
		c.Outcome("typed-deep-thorough-only")
		return
	}
	bin := p != spec.Compact
	var in []byte
	name := ""
	fieldHdr := func(id byte, binType, cmpType byte) []byte {
		if bin {
			return []byte{binType, 0, id}
		}
		return []byte{id<<4 | cmpType}
	}
	switch shape {
	case 0: // unknown field 5: list of lists of ... (each of size 1)
		name = "unknown field: nested lists"
		in = fieldHdr(5, 15, 9)
		for i := 0; i < depth; i++ {
			if bin {
				in = append(in, 15, 0, 0, 0, 1)
			} else {
				in = append(in, 0x19)
			}
		}
	case 1: // unknown field 5: struct in struct in ...
		name = "unknown field: nested structs"
		for i := 0; i < depth; i++ {
			in = append(in, fieldHdr(5, 12, 12)...)
		}
	case 2: // unknown field 5: map<i32, map<i32, ...>>
		name = "unknown field: nested maps"
		in = fieldHdr(5, 13, 11)
		for i := 0; i < depth; i++ {
			if bin {
				in = append(in, 8, 13, 0, 0, 0, 1, 0, 0, 0, 7)
			} else {
				in = append(in, 1, 0x5b, 14)
			}
		}
	case 3: // declared field 1 (i32) sent as nested sets: skipped in non-strict mode
		name = "mismatching field: nested sets"
		in = fieldHdr(1, 14, 10)
		for i := 0; i < depth; i++ {
			if bin {
				in = append(in, 14, 0, 0, 0, 1)
			} else {
				in = append(in, 0x1a)
			}
		}
	case 4: // declared recursive field R
		name = "declared recursive struct field"
		for i := 0; i < depth; i++ {
			in = append(in, fieldHdr(2, 12, 12)...)
		}
	case 5: // declared recursive list field L
		name = "declared recursive list-of-struct field"
		in = fieldHdr(3, 15, 9)
		for i := 0; i < depth; i++ {
			if bin {
				in = append(in, 12, 0, 0, 0, 1, 15, 0, 1)
			} else {
				in = append(in, 0x1c, 0x19)
			}
		}
	}
	// typed shapes are also sent complete (last choice, so that the rung stays the third one)
	complete := typed && c.Choose(2) == 1
	if complete {
		name += " (complete)"
		if shape == 5 { // the innermost list is empty
			if bin {
				in = append(in, 12, 0, 0, 0, 0)
			} else {
				in = append(in, 0x0c)
			}
		}
		in = append(in, make([]byte, depth+1)...) // one stop field per struct
	}
	var out deepT
	var err error
	if pv, ps := explore.Catch(func() { err = thrift.Unmarshal(impl(p), in, &out) }); pv != nil {
		c.Fail("depth:panic:"+ps+":"+explore.PanicClass(pv), "Unmarshal panics on %s nested %d deep over %s: %v", name, depth, p, pv)
	} else if err == nil && !complete {
		c.Fail("depth:accepted-truncated:"+proto3(p), "Unmarshal accepts %s nested %d deep over %s although the input stops inside the value", name, depth, p)
	} else if complete && depth <= 1000 {
		// moderate nesting is ordinary content: it decodes, to a value nested as deep
		got := 0
		if shape == 4 {
			for x := out.R; x != nil; x = x.R {
				got++
			}
		} else {
			for l := out.L; len(l) == 1; l = l[0].L {
				got++
			}
		}
		if err != nil {
			c.Fail("depth:rejected-moderate-nesting:"+proto3(p), "Unmarshal rejects the complete %s nested %d deep over %s: %v", name, depth, p, err)
		} else if got != depth {
			c.Fail("depth:wrong-nesting:"+proto3(p), "Unmarshal of the complete %s nested %d deep over %s yields a value nested %d deep", name, depth, p, got)
		}
	}
	c.NontrivialStr("depth", p.String(), name, fmt.Sprint(depth))
	c.Outcome(fmt.Sprintf("%s typed=%v", proto3(p), typed))
	c.Case(map[string]any{"protocol": p.String(), "shape": name, "depth": depth, "input_bytes": len(in)})
}

// ---- containers whose item types the target does not expect: skipped as a whole (non-strict), TypeMismatch (strict)

type mismT struct {
	A  string              `thrift:"1"`
	L  []string            `thrift:"2"`
	M  map[string]string   `thrift:"3"`
	E  map[string]struct{} `thrift:"4"`
	B  int32               `thrift:"5"`
	LL [][]string          `thrift:"6"`
}

func containerMismatch(c *explore.Ctx) {
	p := protos[c.Choose(3)]
	which := c.Choose(5) // list, map (key), map (value), set, nested list
	n := []int{1, 3, 16, 1025}[c.Choose(4)]
	itemKind := c.Choose(3) // items sent: i32, double, struct
	item := func() spec.Val {
		switch itemKind {
		case 0:
			return spec.Val{T: spec.I32, I: 7}
		case 1:
			return spec.Val{T: spec.Double, F: 1.5}
		}
		return spec.Val{T: spec.Struct, Fields: []spec.Field{{ID: 1, V: spec.Val{T: spec.I64, I: 9}}}}
	}
	var bad spec.Field
	name := ""
	switch which {
	case 0:
		v := spec.Val{T: spec.List, Elem: item().T}
		for i := 0; i < n; i++ {
			v.Items = append(v.Items, item())
		}
		bad, name = spec.Field{ID: 2, V: v}, "list"
	case 1:
		v := spec.Val{T: spec.Map, Key: spec.I32, Value: spec.Binary}
		for i := 0; i < n; i++ {
			v.Pairs = append(v.Pairs, [2]spec.Val{{T: spec.I32, I: int64(i)}, {T: spec.Binary, S: []byte("v")}})
		}
		bad, name = spec.Field{ID: 3, V: v}, "map with another key type"
	case 2:
		v := spec.Val{T: spec.Map, Key: spec.Binary, Value: item().T}
		for i := 0; i < n; i++ {
			v.Pairs = append(v.Pairs, [2]spec.Val{{T: spec.Binary, S: []byte(fmt.Sprint("k", i))}, item()})
		}
		bad, name = spec.Field{ID: 3, V: v}, "map with another value type"
	case 3:
		v := spec.Val{T: spec.Set, Elem: spec.I32}
		for i := 0; i < n; i++ {
			v.Items = append(v.Items, spec.Val{T: spec.I32, I: int64(i)})
		}
		bad, name = spec.Field{ID: 4, V: v}, "set"
	case 4:
		inner := spec.Val{T: spec.List, Elem: spec.I64, Items: []spec.Val{{T: spec.I64, I: 1}, {T: spec.I64, I: 2}}}
		v := spec.Val{T: spec.List, Elem: spec.List}
		for i := 0; i < n; i++ {
			v.Items = append(v.Items, inner)
		}
		bad, name = spec.Field{ID: 6, V: v}, "list of lists with another item type"
	}
	ast := spec.Val{T: spec.Struct, Fields: []spec.Field{{ID: 1, V: spec.Val{T: spec.Binary, S: []byte("x")}}, bad, {ID: 5, V: spec.Val{T: spec.I32, I: 7}}}}
	in := spec.Encode(p, nil, ast, spec.Options{})
	desc := fmt.Sprintf("%s of %d items (item kind %d) between two good fields over %s", name, n, itemKind, p)
	got, err, ok := decode(c, p, reflect.TypeOf(mismT{}), in, false, "container-mismatch")
	if ok {
		if p == spec.BinaryStrict {
			// the strict protocol variant only changes message headers; the strict decoding flag is exercised below
		}
		if err != nil {
			c.Fail("container-mismatch:rejected:"+proto3(p)+":"+name, "non-strict Unmarshal fails: %v for %s (% x)", err, desc, trunc(in))
		} else if m := got.Elem().Interface().(mismT); m.A != "x" || m.B != 7 {
			c.Fail("container-mismatch:other-fields-changed:"+proto3(p)+":"+name, "non-strict Unmarshal decodes A=%q B=%d (want \"x\", 7): the items of the mismatching container were not consumed, for %s", m.A, m.B, desc)
		} else if len(m.L) != 0 || len(m.M) != 0 || len(m.E) != 0 || !allEmpty(m.LL) {
			c.Fail("container-mismatch:filled:"+name, "the mismatching container was decoded into the target: %+v for %s", m, desc)
		}
	}
	// strict decoding reports the mismatch - also through a Decoder that is Reset onto the input after
	// SetStrict, or made strict after a Reset
	for mode, how := range []string{"fresh decoder", "SetStrict then Reset", "Reset then SetStrict"} {
		var serr error
		var out mismT
		if pv, ps := explore.Catch(func() {
			var d *thrift.Decoder
			switch mode {
			case 0:
				d = thrift.NewDecoder(impl(p).NewReader(bytes.NewReader(in)))
				d.SetStrict(true)
			case 1:
				d = thrift.NewDecoder(impl(p).NewReader(bytes.NewReader(nil)))
				d.SetStrict(true)
				d.Reset(impl(p).NewReader(bytes.NewReader(in)))
			case 2:
				d = thrift.NewDecoder(impl(p).NewReader(bytes.NewReader(nil)))
				d.Reset(impl(p).NewReader(bytes.NewReader(in)))
				d.SetStrict(true)
			}
			serr = d.Decode(&out)
		}); pv != nil {
			c.Fail("container-mismatch:strict:panic:"+ps, "strict Decode (%s) panics: %v for %s", how, pv, desc)
		} else {
			var tm *thrift.TypeMismatch
			if !errors.As(serr, &tm) {
				c.Fail("container-mismatch:strict:not-reported:"+how+":"+name, "strict Decode (%s) returns %v, want a TypeMismatch, for %s", how, serr, desc)
			}
		}
	}
	c.NontrivialStr("mism", p.String(), name, fmt.Sprint(n, itemKind))
	c.Outcome(fmt.Sprintf("%s %s", proto3(p), name))
	if c.WantSample() || c.Failed() {
		c.Case(map[string]any{"protocol": p.String(), "container": name, "items": n, "item_kind": itemKind, "input_bytes": len(in)})
	}
}

func allEmpty(ll [][]string) bool {
	for _, l := range ll {
		if len(l) != 0 {
			return false
		}
	}
	return true
}

// many maps with mismatching types inside a list: nothing may be allocated per announced entry
func mismatchAlloc(c *explore.Ctx) {
	p := protos[c.Choose(3)]
	count := []int{10, 1000, 60000}[c.Choose(3)]
	bin := p != spec.Compact
	var in []byte
	// field 1: list<map>, each map header announces 1024 i32/i32 entries and carries none
	if bin {
		in = append(in, 15, 0, 1, 13)
		in = append(in, be32(int64(count))...)
		for i := 0; i < count; i++ {
			in = append(in, 8, 8, 0, 0, 4, 0)
		}
	} else {
		in = append(in, 0x19, 0xfb)
		in = append(in, uvar(uint64(count))...)
		for i := 0; i < count; i++ {
			in = append(in, 0x80, 0x08, 0x55)
		}
	}
	type T struct {
		L []map[string]string `thrift:"1"`
	}
	_, err, _ := decode(c, p, reflect.TypeOf(T{}), in, false, "mismatch-alloc")
	if err == nil {
		c.Fail("mismatch-alloc:accepted:"+proto3(p), "Unmarshal accepts %d map headers announcing 1024 entries each with no entry present", count)
	}
	c.NontrivialStr("mismalloc", p.String(), fmt.Sprint(count))
	c.Outcome(proto3(p))
	c.Case(map[string]any{"protocol": p.String(), "maps": count, "input_bytes": len(in)})
}

// ---- unions: a skipped field must not disturb the member decoded so far

type unionT struct {
	A bool   `thrift:"1"`
	B int32  `thrift:"2"`
	C string `thrift:"3"`
	F any    `thrift:",union"`
}

func unionFamily(c *explore.Ctx) {
	p := protos[c.Choose(3)]
	member := c.Choose(4) // A, B, C, none
	var fields []spec.Field
	switch member {
	case 0:
		fields = []spec.Field{{ID: 1, V: spec.Val{T: spec.Bool, B: true}}}
	case 1:
		fields = []spec.Field{{ID: 2, V: spec.Val{T: spec.I32, I: 42}}}
	case 2:
		fields = []spec.Field{{ID: 3, V: spec.Val{T: spec.Binary, S: []byte("hello")}}}
	}
	where := c.Choose(4) // no extra field, before, after, before and after the member
	extraKind := c.Choose(len(unkVals) + 1)
	var extra spec.Field
	what := ""
	if extraKind < len(unkVals) {
		extra = spec.Field{ID: 9, V: fixupListItems(unkVals[extraKind])}
		what = "unknown " + extra.V.T.String() + " field 9"
	} else {
		// a declared field with another wire type (skipped in non-strict mode)
		if p == spec.BinaryStrict || member == 1 {
			c.Outcome("n/a")
			return
		}
		extra = spec.Field{ID: 2, V: spec.Val{T: spec.I64, I: 7}}
		what = "field 2 with wire type i64"
	}
	ast := spec.Val{T: spec.Struct}
	if where&1 != 0 {
		ast.Fields = append(ast.Fields, extra)
	}
	ast.Fields = append(ast.Fields, fields...)
	if where&2 != 0 {
		e2 := extra
		if extraKind < len(unkVals) {
			e2.ID = 10
		}
		ast.Fields = append(ast.Fields, e2)
	}
	in := spec.Encode(p, nil, ast, spec.Options{})
	got, err, ok := decode(c, p, reflect.TypeOf(unionT{}), in, false, "union")
	desc := fmt.Sprintf("union member %d with %s (position mask %d) over %s: % x", member, what, where, p, trunc(in))
	if ok {
		if err != nil {
			c.Fail("union:rejected:"+proto3(p), "Unmarshal fails: %v for %s", err, desc)
		} else {
			u := got.Elem().Interface().(unionT)
			want := unionT{}
			switch member {
			case 0:
				want.A = true
			case 1:
				want.B = 42
			case 2:
				want.C = "hello"
			}
			good := u.A == want.A && u.B == want.B && u.C == want.C
			switch f := u.F.(type) {
			case nil:
				good = good && member == 3
			case *bool:
				good = good && member == 0 && *f
			case *int32:
				good = good && member == 1 && *f == 42
			case *string:
				good = good && member == 2 && *f == "hello"
			default:
				good = false
			}
			if !good {
				c.Fail("union:value-changed-by-skipped-field:"+proto3(p), "decoded %+v (F=%T) for %s", u, u.F, desc)
			}
		}
	}
	c.NontrivialStr("union", p.String(), fmt.Sprint(member, where, extraKind))
	c.Outcome(fmt.Sprintf("%s member=%d", proto3(p), member))
	if c.WantSample() || c.Failed() {
		c.Case(map[string]any{"protocol": p.String(), "member": member, "extra": what, "position_mask": where, "input": fmt.Sprintf("%x", trunc(in))})
	}
}

// ---- required fields and strict type checking

func zeroOf(t spec.T) spec.Val {
	switch t {
	case spec.List, spec.Set:
		return spec.Val{T: t, Elem: spec.I32}
	case spec.Map:
		return spec.Val{T: t, Key: spec.I32, Value: spec.I32}
	}
	return spec.Val{T: t}
}

func requiredAndStrict(c *explore.Ctx) {
	s, v, p, ast := enumCase(c)
	desc := fmt.Sprintf("%s = %s over %s", s, tgen.Describe(v), p)
	var n int64
	// each required field removed in turn
	for i, f := range ast.Fields {
		var decl *tgen.Field
		for j := range s.Fields {
			if s.Fields[j].ID == f.ID {
				decl = &s.Fields[j]
			}
		}
		if decl != nil && decl.Opt == "required" {
			a := ast
			a.Fields = append(append([]spec.Field{}, ast.Fields[:i]...), ast.Fields[i+1:]...)
			in := spec.Encode(p, nil, a, spec.Options{})
			n++
			_, err, ok := decode(c, p, s.Type, in, false, "missing-required")
			if ok {
				var mf *thrift.MissingField
				if !errors.As(err, &mf) {
					c.Fail("missing-required:not-reported:"+proto3(p), "required field %d removed: Unmarshal(% x) returned %v, want MissingField (%s)", f.ID, trunc(in), err, desc)
				} else if mf.Field.ID != f.ID {
					c.Fail("missing-required:wrong-field:"+proto3(p), "required field %d removed: MissingField names field %d (%s)", f.ID, mf.Field.ID, desc)
				}
			}
		}
		// strict mode: the field sent with every other wire type
		for _, t := range []spec.T{spec.Bool, spec.I8, spec.I16, spec.I32, spec.I64, spec.Double, spec.Binary, spec.List, spec.Set, spec.Map, spec.Struct} {
			if t == f.V.T {
				continue
			}
			a := ast
			a.Fields = append([]spec.Field{}, ast.Fields...)
			a.Fields[i].V = zeroOf(t)
			in := spec.Encode(p, nil, a, spec.Options{})
			n++
			_, err, ok := decode(c, p, s.Type, in, true, "strict-mismatch")
			if ok {
				var tm *thrift.TypeMismatch
				if !errors.As(err, &tm) {
					c.Fail("strict-mismatch:not-reported:"+proto3(p)+":"+f.V.T.String()+"<-"+t.String(), "field %d (%s) sent as %s: strict Decode(% x) returned %v, want TypeMismatch (%s)", f.ID, f.V.T, t, trunc(in), err, desc)
				}
			}
			// non-strict: the other fields must still decode (the mismatched value is skipped)
			n++
			got, err, ok := decode(c, p, s.Type, in, false, "nonstrict-mismatch")
			if ok && err != nil {
				c.Fail("nonstrict-mismatch:rejected:"+proto3(p)+":"+f.V.T.String()+"<-"+t.String(), "field %d (%s) sent as %s: Unmarshal(% x) fails: %v (%s)", f.ID, f.V.T, t, trunc(in), err, desc)
			} else if ok {
				exp := reflect.New(s.Type).Elem()
				exp.Set(v)
				for j := range s.Fields {
					if s.Fields[j].ID == f.ID {
						exp.Field(j).Set(reflect.Zero(exp.Field(j).Type()))
						got.Elem().Field(j).Set(reflect.Zero(exp.Field(j).Type()))
					}
				}
				pgen.FloatsByValue = true
				if ds := pgen.Diffs(exp, got.Elem()); len(ds) > 0 {
					c.Fail("nonstrict-mismatch:other-fields-changed:"+proto3(p)+":"+f.V.T.String()+"<-"+t.String(), "field %d (%s) sent as %s: the other fields differ at %s: %s (%s, input % x)", f.ID, f.V.T, t, ds[0].Path, ds[0].Why, desc, trunc(in))
				}
			}
		}
	}
	// strict mode at depth: a field of a nested struct (directly, behind a pointer, in a list or as map value)
	// sent with another wire type, and list/set element types changed
	deepMismatch(ast, func(a spec.Val, what string) {
		in := spec.Encode(p, nil, a, spec.Options{})
		n++
		_, err, ok := decode(c, p, s.Type, in, true, "strict-mismatch-nested")
		if ok {
			var tm *thrift.TypeMismatch
			if !errors.As(err, &tm) {
				c.Fail("strict-mismatch-nested:not-reported:"+proto3(p)+":"+what, "%s: strict Decode(% x) returned %v, want TypeMismatch (%s)", what, trunc(in), err, desc)
			}
		}
	})
	c.Inner(n)
	c.NontrivialStr("req", s.String(), tgen.Describe(v), p.String())
	c.Outcome(fmt.Sprintf("%s n>0=%v", proto3(p), n > 0))
	if c.WantSample() || c.Failed() {
		c.Case(map[string]any{"type": s.String(), "value": tgen.Describe(v), "protocol": p.String(), "variants": n})
	}
}

// deepMismatch visits copies of ast in which one field of a struct below the top
// level, or the element type of one list/set, has another wire type.
func deepMismatch(ast spec.Val, visit func(spec.Val, string)) {
	var rec func(v spec.Val, rebuild func(spec.Val) spec.Val, depth int, where string)
	rec = func(v spec.Val, rebuild func(spec.Val) spec.Val, depth int, where string) {
		switch v.T {
		case spec.Struct:
			for i, f := range v.Fields {
				i, f := i, f
				sub := func(x spec.Val) spec.Val {
					c := v
					c.Fields = append([]spec.Field{}, v.Fields...)
					c.Fields[i].V = x
					return rebuild(c)
				}
				if depth > 0 {
					other := spec.I64
					if f.V.T == spec.I64 {
						other = spec.Binary
					}
					visit(sub(zeroOf(other)), where+"struct-field:"+f.V.T.String()+"<-"+other.String())
				}
				rec(f.V, sub, depth+1, where)
			}
		case spec.List, spec.Set:
			other := spec.I64
			if v.Elem == spec.I64 {
				other = spec.Binary
			}
			c := v
			c.Elem, c.Items = other, []spec.Val{zeroOf(other)} // one element: an empty collection of another type is harmless
			visit(rebuild(c), where+v.T.String()+"-elem:"+v.Elem.String()+"<-"+other.String())
			if len(v.Items) > 0 {
				rec(v.Items[0], func(x spec.Val) spec.Val {
					c := v
					c.Items = append([]spec.Val{x}, v.Items[1:]...)
					return rebuild(c)
				}, depth+1, where+"in-list:")
			}
		case spec.Map:
			if len(v.Pairs) > 0 {
				rec(v.Pairs[0][1], func(x spec.Val) spec.Val {
					c := v
					c.Pairs = append([][2]spec.Val{{v.Pairs[0][0], x}}, v.Pairs[1:]...)
					return rebuild(c)
				}, depth+1, where+"in-map:")
			}
		}
	}
	rec(ast, func(x spec.Val) spec.Val { return x }, 0, "")
}

// ---- top-level targets that are not structs

var toplevelValues = []any{
	true, false, int8(-3), int16(300), int16(-1), int32(70000), int32(-2), int64(1) << 40, int64(-1), int64(5), 1.5, 0.0,
	"", "a", "hello, world", strings.Repeat("x", 200), []byte{}, []byte{1, 2, 3},
	[]int32{}, []int32{1, -1, 70000}, []int64{1 << 50, 2}, []float64{1.5, -2}, []bool{true, false, true}, []string{"a", "", "bcd"}, []int16{1, 2, 3, 4, 5, 6, 7, 8, 9, 10, 11, 12, 13, 14, 15, 16},
	[][]int16{{1}, {}, {2, 3}}, map[string]int32{"k": 7}, map[int32]float64{3: 1.5}, map[int64]struct{}{9: {}}, map[string][]int64{"k": {1, 2}},
	struct {
		A int32  `thrift:"1"`
		B string `thrift:"2"`
	}{7, "b"},
}

// toplevelTruncations: the encoding of a value that is not a struct, cut at every offset.
func toplevelTruncations(c *explore.Ctx) {
	p := protos[c.Choose(3)]
	val := toplevelValues[c.Choose(len(toplevelValues))]
	rk := c.Choose(len(readerKinds) + 1) // 0: Unmarshal, else a Decoder on that kind of reader
	t := reflect.TypeOf(val)
	e, err := thrift.Marshal(impl(p), val)
	if err != nil {
		c.Fail("toplevel:Marshal-error", "Marshal(%s, %#v): %v", p, val, err)
		return
	}
	how := "Unmarshal"
	if rk > 0 {
		how = "Decoder over " + readerKinds[rk-1].name
	}
	dec := func(in []byte) (reflect.Value, error, bool) {
		out := reflect.New(t)
		var err error
		pv, ps := explore.Catch(func() {
			if rk == 0 {
				err = thrift.Unmarshal(impl(p), in, out.Interface())
			} else {
				err = thrift.NewDecoder(impl(p).NewReader(readerKinds[rk-1].mk(in))).Decode(out.Interface())
			}
		})
		if pv != nil {
			c.Fail("toplevel:panic:"+ps+":"+explore.PanicClass(pv), "%s of % x (%s) into %s panicked: %v", how, trunc(in), p, t, pv)
			return out, nil, false
		}
		return out, err, true
	}
	got, err, ok := dec(e)
	if ok && err != nil {
		c.Fail("toplevel:complete-input-rejected:"+proto3(p)+":"+t.String(), "%s of the complete encoding % x of %#v (%s): %v", how, trunc(e), val, p, err)
	} else if ok {
		pgen.FloatsByValue = true
		if ds := pgen.Diffs(reflect.ValueOf(val), got.Elem()); len(ds) > 0 {
			c.Fail("toplevel:value-differs:"+proto3(p)+":"+t.String(), "%s of % x (%s) gives %#v, want %#v", how, trunc(e), p, got.Elem().Interface(), val)
		}
	}
	for cut := 0; cut < len(e); cut++ {
		_, err, ok := dec(e[:cut])
		if !ok {
			continue
		}
		cls := eofClass(err)
		switch {
		case cut == 0 && err != io.EOF:
			c.Fail("toplevel:empty-input:"+cls+":"+proto3(p)+":"+t.String(), "%s of empty input into %s (%s) returned %v, want io.EOF", how, t, p, err)
		case cut > 0 && cls != "unexpected-EOF":
			c.Fail("toplevel:truncation:"+cls+":"+proto3(p)+":"+t.String(), "%s of the %d-byte prefix % x of % x into %s (%s) returned %v, want an unexpected-EOF class error", how, cut, trunc(e[:cut]), trunc(e), t, p, err)
		}
	}
	if rk == 0 {
		for _, extra := range []byte{0x00, 0x01, 0xff} {
			if _, err, ok := dec(append(append([]byte{}, e...), extra)); ok && err == nil {
				c.Fail("toplevel:trailing-bytes-accepted:"+proto3(p)+":"+t.String(), "Unmarshal into %s accepts % x followed by %#02x (%s)", t, trunc(e), extra, p)
			}
		}
	}
	c.Inner(int64(len(e)) + 4)
	c.NontrivialStr("toplevel", p.String(), fmt.Sprintf("%#v", val), how)
	c.Outcome(fmt.Sprintf("%s %s", proto3(p), t.Kind()))
	if c.WantSample() || c.Failed() {
		c.Case(map[string]any{"protocol": p.String(), "value": fmt.Sprintf("%#v", val), "how": how, "encoding": fmt.Sprintf("%x", trunc(e))})
	}
}

// ---- hostile sizes

type T1 struct {
	L  []int32            `thrift:"1"`
	B  []byte             `thrift:"2"`
	S  string             `thrift:"3"`
	M  map[string]int32   `thrift:"4"`
	E  map[int32]struct{} `thrift:"5"`
	LS []struct {
		A bool `thrift:"1"`
	} `thrift:"6"`
	LL [][]int64 `thrift:"7"`
	LB []bool    `thrift:"8"`
}

func be32(n int64) []byte { return binary.BigEndian.AppendUint32(nil, uint32(n)) }

func uvar(n uint64) []byte {
	var b []byte
	for n >= 0x80 {
		b = append(b, byte(n)|0x80)
		n >>= 7
	}
	return append(b, byte(n))
}

func hostileSizes(c *explore.Ctx) {
	p := protos[c.Choose(3)]
	field := c.Choose(8) // which field of T1 carries the hostile size
	sizes := []int64{-1, -2147483648, 2147483647, 1 << 20, 1 << 16, 3, 1 << 40, 1 << 28, 1 << 29, 1 << 30, 1<<29 + 1, 1<<30 + 1, 1<<27 + 3}
	size := sizes[c.Choose(len(sizes))]
	// item types announced by the sender: the declared ones, or other ones (the items are then skipped, in
	// bulk or one by one); and the field carrying them: the declared one, or an id the target does not declare
	alts := []struct {
		name     string
		bin, cmp byte
	}{{"", 0, 0}, {"bool", 2, 2}, {"i8", 3, 3}, {"i16", 6, 4}, {"i32", 8, 5}, {"i64", 10, 6}, {"double", 4, 7}, {"binary", 11, 8}, {"struct", 12, 12}, {"list", 15, 9}}
	alt := alts[c.Choose(len(alts))]
	unknown := c.Choose(2) == 1
	avail := c.Choose(5)          // bytes of payload actually present after the header: 0, 2, 64, 70000 (more than one read chunk)
	fill := byte(1 - c.Choose(2)) // the bytes present are 01s, or 00s (which read as stop fields / empty items once the decoder has lost its place)
	payload := bytes.Repeat([]byte{fill}, []int{0, 1, 2, 64, 70000}[avail])
	var in []byte
	name := []string{"list<i32>", "binary", "string", "map<string,i32>", "set<i32>", "list<struct>", "list<list<i64>>", "list<bool>"}[field]
	bin := p != spec.Compact
	hdr := func(binType, cmpType byte) {
		id := byte(field + 1)
		if unknown {
			id = 12
		}
		if bin {
			in = append(in, binType, 0, id)
		} else {
			in = append(in, id<<4|cmpType)
		}
	}
	listHdr := func(binElem, cmpElem byte) {
		if alt.name != "" {
			binElem, cmpElem = alt.bin, alt.cmp
		}
		if bin {
			in = append(append(in, binElem), be32(size)...)
		} else {
			in = append(append(in, 0xF0|cmpElem), uvar(uint64(size))...)
		}
	}
	if !bin && size < 0 {
		size = int64(uint32(size)) // negative counts cannot be written as such in a uvarint: use the same bits
	}
	switch field {
	case 0:
		hdr(15, 9)
		listHdr(8, 5)
	case 1, 2:
		hdr(11, 8)
		if bin {
			in = append(in, be32(size)...)
		} else {
			in = append(in, uvar(uint64(size))...)
		}
	case 3:
		hdr(13, 11)
		bk, bv, ck, cv := byte(11), byte(8), byte(8), byte(5)
		if alt.name != "" {
			bk, bv, ck, cv = alt.bin, alt.bin, alt.cmp, alt.cmp
		}
		if bin {
			in = append(append(in, bk, bv), be32(size)...)
		} else {
			in = append(append(in, uvar(uint64(size))...), ck<<4|cv)
		}
	case 4:
		hdr(14, 10)
		listHdr(8, 5)
	case 5:
		hdr(15, 9)
		listHdr(12, 12)
	case 6:
		hdr(15, 9)
		listHdr(15, 9)
	case 7:
		hdr(15, 9)
		listHdr(2, 2)
	}
	in = append(in, payload...)
	if (field == 1 || field == 2) && alt.name != "" {
		return // strings and binaries have no item type
	}
	if alt.name != "" {
		name += " sent with " + alt.name + " items"
	}
	if unknown {
		name += " in an undeclared field"
	}
	// through Unmarshal, and through a Decoder on a reader that can only Read / on a small bufio.Reader
	via := c.Choose(3)
	var mk func([]byte) io.Reader
	switch via {
	case 1:
		mk = func(in []byte) io.Reader { return onlyRead{bytes.NewReader(in)} }
		name += " (Decoder on a plain io.Reader)"
	case 2:
		mk = func(in []byte) io.Reader { return bufio.NewReaderSize(bytes.NewReader(in), 64) }
		name += " (Decoder on a bufio.Reader)"
	}
	_, err, ok := decodeVia(c, p, reflect.TypeOf(T1{}), in, false, "hostile-size:"+name, mk)
	// the claimed count can never be satisfied by the bytes present (size > len(payload) for every case but size=3 with 64 bytes, which is excluded from the must-fail set)
	eff := size
	if bin {
		eff = int64(int32(uint32(size))) // the binary protocol carries 32 bits: 2^40 is written as 0
	}
	mustFail := eff < 0 || eff > int64(len(payload))
	if ok && mustFail && err == nil {
		c.Fail("hostile-size:accepted:"+proto3(p)+":"+name, "%s with claimed size %d and %d payload bytes: Unmarshal(% x) returns nil error", name, size, len(payload), trunc(in))
	}
	c.NontrivialStr("size", p.String(), name, fmt.Sprint(size, avail))
	c.Outcome(fmt.Sprintf("%s err=%v", proto3(p), err != nil))
	if c.WantSample() || c.Failed() {
		c.Case(map[string]any{"protocol": p.String(), "field": name, "claimed_size": size, "payload_bytes": len(payload), "input": fmt.Sprintf("%x", trunc(in))})
	}
}

// Spec returns the C08 check.
func Spec() *explore.Spec {
	return &explore.Spec{
		ID: "C08",
		Families: []*explore.Family{
			{Name: "reader-bytes", ShardDepth: 4, Body: readerBytes, Doc: "every Reader method of the 3 protocols over 5 kinds of io.Reader (bytes.Reader, bytes.Buffer, bufio.Reader, one-byte reads, data delivered together with EOF) on all byte strings <=2 over all 256 values (for the kinds other than bytes.Reader the first of two bytes from the class alphabet) and <=5 (6; <=3 (4) for those other kinds) over a 16-byte class alphabet: no panic, bounded allocation, io.EOF exactly for empty input, no value out of fewer bytes than the value takes, and no proper prefix of an accepted input yields another value"},
			{Name: "toplevel-truncations", ShardDepth: 2, Body: toplevelTruncations, Doc: "31 values that are not structs (every scalar kind, strings, binaries, lists, lists of lists, maps, sets; one struct as control) x 3 protocols x {Unmarshal, Decoder over 5 kinds of io.Reader}: the complete encoding decodes to the value, every proper prefix fails with an unexpected-EOF class error (io.EOF for the empty one), Unmarshal reports a trailing byte"},
			{Name: "truncations", ShardDepth: 2, Body: truncations, Bound: func(string) int { return 1 }, Doc: "valid encodings (struct types of 1-2 fields x id layouts x values x 3 protocols): every prefix must fail with an unexpected-EOF class error (io.EOF for the empty prefix), a trailing byte must be reported, every (position x 256) corruption decodes without panic and within the allocation budget (also in strict mode)"},
			{Name: "unknown-insertion", ShardDepth: 2, Body: unknownInsertion, Bound: func(string) int { return 1 }, Doc: "one unknown field (ids below/in a gap/above/64+ above the declared ids, 32767) of every thrift type with nested values (20 values, depth 2) inserted at every field boundary of the top-level and nested structs, alone and in runs of two (the same id with the same and with another type, two ids): decoded value unchanged, through Unmarshal and through a Decoder over one of 4 other kinds of io.Reader (bytes.Buffer, 16-byte bufio.Reader, one-byte reads, data delivered with EOF) in rotation"},
			{Name: "required-and-strict", ShardDepth: 2, Body: requiredAndStrict, Bound: func(string) int { return 1 }, Doc: "each required field removed -> MissingField naming it; each field sent with each of the other 10 wire types -> TypeMismatch in strict mode, skipped without disturbing the other fields otherwise"},
			{Name: "depth-ladder", ShardDepth: 3, HangSeconds: 300, MaxWorkers: 8, FatalPerCase: true, Body: depthLadder, Doc: "values nested 100 ... 4,000,000 deep by the sender in a field the target skips (lists, structs, maps in an unknown field; sets in a field of another declared type) x 3 protocols, cut off inside the innermost value: an error, no panic, no stack overflow"},
			{Name: "depth-ladder-typed", ShardDepth: 3, HangSeconds: 300, MaxWorkers: 8, Body: depthLadderTyped, FatalKey: func(ch []int) string {
				if len(ch) >= 3 && ch[2] < len(ladderDepths) {
					return fmt.Sprintf("typed-decode:depth=%d", ladderDepths[ch[2]])
				}
				return "typed-decode"
			}, Doc: "the same ladder for declared recursive struct / list-of-struct fields, which the decoder follows recursively, cut off and complete (complete and nested <= 1000: decodes to a value nested as deep; rungs above 100,000 in the thorough tier only)"},
			{Name: "container-mismatch", ShardDepth: 3, Body: containerMismatch, Doc: "a list / map (key or value) / set / list of lists whose item types differ from the declared ones (3 item kinds, 1..1025 items) between two good fields x 3 protocols: non-strict decoding consumes it and leaves the other fields intact, strict decoding reports TypeMismatch"},
			{Name: "mismatch-alloc", ShardDepth: 2, Body: mismatchAlloc, Doc: "10..60000 map headers with mismatching key/value types, each announcing 1024 entries, inside a list: error, allocation within the bound"},
			{Name: "embedded-targets", ShardDepth: 2, Body: embeddedTargets, Doc: "5 targets with embedded structs (pointer to an unexported / exported struct, unexported struct by value, unions whose members sit in an embedded pointer) x 4 field selections x 3 protocols: no panic; the value (or, where the embedded pointer cannot be set, an error); a decoded member is not lost"},
			{Name: "union", ShardDepth: 2, Body: unionFamily, Doc: "a struct with a `thrift:\",union\"` field: each member (or none) x an unknown field of every thrift type, or a declared field with another wire type (non-strict), placed before / after / around the member: the member and the union interface keep their values"},
			{Name: "hostile-sizes", ShardDepth: 2, Body: hostileSizes, Doc: "list/set/map/binary/string sizes replaced by {-1, MinInt32, MaxInt32, 2^20, 2^16, 3, 2^40, 2^27+3, 2^28, 2^29, 2^29+1, 2^30, 2^30+1} with 0/1/2/64/70000 payload bytes (01s or 00s) present, the items announced with the declared or with each of 9 other types (then skipped), in the declared field or in an undeclared one, decoded by Unmarshal and by a Decoder on a reader that can only Read / on a 64-byte bufio.Reader: error, no panic, allocation within 1 MiB + 1024 x len(input)"},
		},
		Rule: "exhaustive short inputs per Reader method and complete truncation / corruption / insertion / substitution sets per valid encoding; distinct non-trivial = distinct (type, value, protocol) or (protocol, method) blocks",
		Assumptions: []string{
			"valid encodings are produced by the specification model (thriftspec), so the check does not depend on the implementation's encoder",
			"allocation budget per call: 1 MiB + 1024 x len(input), measured with runtime/metrics",
			"'unexpected-EOF class' = errors.Is(err, io.ErrUnexpectedEOF)",
		},
	}
}

package c08

import (
	"fmt"
	"reflect"

	"github.com/segmentio/encoding/thrift"
	"verif/mc/explore"
	spec "verif/mc/ref/thriftspec"
)

// ---- targets with embedded structs: decoding allocates the embedded pointers it goes through, or says why it cannot

type embInner struct {
	A int32  `thrift:"1"`
	S string `thrift:"3"`
}

type EmbExported struct {
	A int32  `thrift:"1"`
	S string `thrift:"3"`
}

type embPtrUnexported struct {
	*embInner
	B int32 `thrift:"2"`
}

type embValUnexported struct {
	embInner
	B int32 `thrift:"2"`
}

type embPtrExported struct {
	*EmbExported
	B int32 `thrift:"2"`
}

type embUnionMembers struct {
	A int32  `thrift:"1"`
	S string `thrift:"3"`
}

type embUnion struct {
	*embUnionMembers
	F any `thrift:",union"`
}

type EmbUnionMembers struct {
	A int32  `thrift:"1"`
	S string `thrift:"3"`
}

type embUnionExported struct {
	*EmbUnionMembers
	F any `thrift:",union"`
}

var embTargets = []struct {
	name    string
	mk      func() any
	read    func(any) (a int32, s string, b int32, ok bool) // ok=false: the embedded pointer is nil
	union   bool
	mayFail bool // an error instead of a value is acceptable (the embedded pointer cannot be set)
}{
	{"embedded pointer to an unexported struct", func() any { return new(embPtrUnexported) }, func(x any) (int32, string, int32, bool) {
		v := x.(*embPtrUnexported)
		if v.embInner == nil {
			return 0, "", v.B, false
		}
		return v.A, v.S, v.B, true
	}, false, true},
	{"embedded unexported struct by value", func() any { return new(embValUnexported) }, func(x any) (int32, string, int32, bool) {
		v := x.(*embValUnexported)
		return v.A, v.S, v.B, true
	}, false, false},
	{"embedded pointer to an exported struct", func() any { return new(embPtrExported) }, func(x any) (int32, string, int32, bool) {
		v := x.(*embPtrExported)
		if v.EmbExported == nil {
			return 0, "", v.B, false
		}
		return v.A, v.S, v.B, true
	}, false, false},
	{"union whose members sit in an embedded pointer to an exported struct", func() any { return new(embUnionExported) }, func(x any) (int32, string, int32, bool) {
		v := x.(*embUnionExported)
		if v.EmbUnionMembers == nil {
			return 0, "", 0, false
		}
		return v.A, v.S, 0, true
	}, true, false},
	{"union whose members sit in an embedded pointer to an unexported struct", func() any { return new(embUnion) }, func(x any) (int32, string, int32, bool) {
		v := x.(*embUnion)
		if v.embUnionMembers == nil {
			return 0, "", 0, false
		}
		return v.A, v.S, 0, true
	}, true, true},
}

func embeddedTargets(c *explore.Ctx) {
	p := protos[c.Choose(3)]
	tg := embTargets[c.Choose(len(embTargets))]
	which := c.Choose(4) // which fields are sent: A; S; B (or A again for unions); A and S (only the last one counts for a union)
	var fields []spec.Field
	wantA, wantS, wantB := int32(0), "", int32(0)
	switch which {
	case 0:
		fields, wantA = []spec.Field{{ID: 1, V: spec.Val{T: spec.I32, I: 5}}}, 5
	case 1:
		fields, wantS = []spec.Field{{ID: 3, V: spec.Val{T: spec.Binary, S: []byte("s")}}}, "s"
	case 2:
		if tg.union {
			fields, wantA = []spec.Field{{ID: 9, V: spec.Val{T: spec.I64, I: 1}}, {ID: 1, V: spec.Val{T: spec.I32, I: 7}}}, 7
		} else {
			fields, wantB = []spec.Field{{ID: 2, V: spec.Val{T: spec.I32, I: 6}}}, 6
		}
	case 3:
		fields = []spec.Field{{ID: 1, V: spec.Val{T: spec.I32, I: 5}}, {ID: 3, V: spec.Val{T: spec.Binary, S: []byte("s")}}}
		wantA, wantS = 5, "s"
		if tg.union {
			wantA = 0 // the later member replaces the earlier one
		}
	}
	in := spec.Encode(p, nil, spec.Val{T: spec.Struct, Fields: fields}, spec.Options{})
	out := tg.mk()
	var err error
	if pv, ps := explore.Catch(func() { err = thrift.Unmarshal(impl(p), in, out) }); pv != nil {
		c.Fail("embedded-target:panic:"+ps, "Unmarshal(% x) into a struct with an %s panics: %v (%s)", in, tg.name, pv, p)
	} else if err != nil {
		touches := which != 2 || tg.union
		if !(tg.mayFail && touches) {
			c.Fail("embedded-target:error", "Unmarshal(% x) into a struct with an %s fails: %v (%s)", in, tg.name, err, p)
		}
	} else {
		a, s, b, ok := tg.read(out)
		needs := which != 2 || tg.union
		if needs && !ok {
			c.Fail("embedded-target:member-lost", "Unmarshal(% x) into a struct with an %s succeeds but the embedded pointer is nil: the decoded member is lost (%s)", in, tg.name, p)
		} else if ok && (a != wantA || s != wantS || b != wantB) || (!ok && b != wantB) {
			c.Fail("embedded-target:value-differs", "Unmarshal(% x) into a struct with an %s gives A=%d S=%q B=%d, want A=%d S=%q B=%d (%s)", in, tg.name, a, s, b, wantA, wantS, wantB, p)
		}
		if tg.union && ok {
			f := reflect.ValueOf(out).Elem().FieldByName("F")
			if f.IsNil() {
				c.Fail("embedded-target:union-not-set", "Unmarshal(% x) into a %s leaves the union interface nil (%s)", in, tg.name, p)
			}
		}
	}
	c.NontrivialStr("embedded-target", p.String(), tg.name, fmt.Sprint(which))
	c.Outcome(fmt.Sprintf("%s err=%v", proto3(p), err != nil))
	c.Case(map[string]any{"protocol": p.String(), "target": tg.name, "fields": which, "input": fmt.Sprintf("%x", in), "error": fmt.Sprint(err)})
}

package c14

import (
	"bytes"
	"fmt"
	"reflect"
	"strings"

	"github.com/segmentio/encoding/json"
	"verif/mc/explore"
)

// ---- histories of Decoder setter calls: the Decoder behaves like Parse with the union of the flags selected

type decSetterT struct {
	A int
	B string
	N json.Number
	R json.RawMessage
	I any
}

var decSetters = []struct {
	name string
	call func(*json.Decoder)
	flag json.ParseFlags
}{
	{"UseNumber", (*json.Decoder).UseNumber, json.UseNumber},
	{"DisallowUnknownFields", (*json.Decoder).DisallowUnknownFields, json.DisallowUnknownFields},
	{"DontCopyString", (*json.Decoder).DontCopyString, json.DontCopyString},
	{"DontCopyNumber", (*json.Decoder).DontCopyNumber, json.DontCopyNumber},
	{"DontCopyRawMessage", (*json.Decoder).DontCopyRawMessage, json.DontCopyRawMessage},
	{"DontMatchCaseInsensitiveStructFields", (*json.Decoder).DontMatchCaseInsensitiveStructFields, json.DontMatchCaseInsensitiveStructFields},
	{"ZeroCopy", (*json.Decoder).ZeroCopy, json.ZeroCopy},
}

var decSetterDocs = []string{
	`{"A":1,"B":"x","N":12.50,"R":[1, 2],"I":{"k":3}}`,
	`{"a":1,"b":"lower-case keys","i":[1.5,2]}`,
	`{"A":2,"zz":"unknown member","I":7}`,
	`{"B":"esc\nape","I":"str","N":1e2}`,
}

// aliases reports which leaves of v point into the bytes of doc.
func aliases(v *decSetterT, doc []byte) string {
	in := func(p *byte, n int) bool {
		if n == 0 || len(doc) == 0 {
			return false
		}
		a, lo := uintptrOf(p), uintptrOf(&doc[0])
		return a >= lo && a < lo+uintptr(len(doc))
	}
	var out []string
	if len(v.B) > 0 && in(strData(v.B), len(v.B)) {
		out = append(out, "B")
	}
	if len(v.N) > 0 && in(strData(string(v.N)), len(v.N)) {
		out = append(out, "N")
	}
	if len(v.R) > 0 && in(&v.R[0], len(v.R)) {
		out = append(out, "R")
	}
	if s, ok := v.I.(string); ok && len(s) > 0 && in(strData(s), len(s)) {
		out = append(out, "I")
	}
	return strings.Join(out, ",")
}

func decoderSetters(c *explore.Ctx) {
	n := c.Choose(4)
	var hist []string
	var flags json.ParseFlags
	var calls []int
	for i := 0; i < n; i++ {
		k := c.Choose(len(decSetters))
		calls = append(calls, k)
		hist = append(hist, decSetters[k].name)
		flags |= decSetters[k].flag
	}
	desc := "NewDecoder; " + strings.Join(hist, "; ")
	for _, doc := range decSetterDocs {
		var got, want decSetterT
		var gerr, werr error
		if pv, ps := explore.Catch(func() {
			d := json.NewDecoder(bytes.NewReader([]byte(doc)))
			for _, k := range calls {
				decSetters[k].call(d)
			}
			gerr = d.Decode(&got)
		}); pv != nil {
			c.Fail("dec-setters:panic:"+ps, "Decode(%s) panics after %s: %v", doc, desc, pv)
			continue
		}
		pdoc := []byte(doc)
		_, werr = json.Parse(pdoc, &want, flags)
		if (gerr == nil) != (werr == nil) {
			c.Fail("dec-setters:error-differs", "after %s, Decode(%s) gives error %v; Parse with the flags these calls select gives %v", desc, doc, gerr, werr)
			continue
		}
		if gerr != nil {
			continue
		}
		if !reflect.DeepEqual(got, want) {
			c.Fail("dec-setters:value-differs", "after %s, Decode(%s) gives %+v; Parse with the flags these calls select gives %+v", desc, doc, got, want)
		}
		// what Parse may leave pointing into its input is decided by the same flags (the Decoder's own buffer is not visible here)
		wantAlias := aliases(&want, pdoc)
		for _, part := range strings.Split(wantAlias, ",") {
			ok := true
			switch part {
			case "B", "I":
				ok = flags&json.DontCopyString != 0
			case "N":
				ok = flags&json.DontCopyNumber != 0
			case "R":
				ok = flags&json.DontCopyRawMessage != 0
			}
			if !ok {
				c.Fail("dec-setters:Parse-aliases-without-flag:"+part, "Parse(%s) with flags %b leaves %s pointing into the input", doc, flags, part)
			}
		}
	}
	c.NontrivialStr("dec-setters", desc)
	c.Outcome(fmt.Sprintf("calls=%d", n))
	if c.WantSample() || c.Failed() {
		c.Case(map[string]any{"history": desc, "flags": int(flags)})
	}
}

package c14

import "unsafe"

func uintptrOf(p *byte) uintptr { return uintptr(unsafe.Pointer(p)) }
func strData(s string) *byte    { return unsafe.StringData(s) }

// Package c14: json flags change representation or copying, never meaning (DESIGN.md §5 C14).
package c14

import (
	"bytes"
	stdjson "encoding/json"
	"fmt"
	"math"
	"math/big"
	"reflect"
	"regexp"
	"strings"

	"github.com/segmentio/encoding/json"
	"verif/mc/explore"
	"verif/mc/gen/jgen"
	"verif/mc/props/c01"
)

const defaultFlags = json.EscapeHTML | json.SortMapKeys

func typeName(t reflect.Type) string {
	s := strings.ReplaceAll(strings.ReplaceAll(t.String(), "jgen.", ""), "interface {}", "any")
	if len(s) > 90 {
		s = s[:90]
	}
	return s
}

func trunc(b []byte) string {
	if len(b) > 90 {
		return string(b[:90]) + "…"
	}
	return string(b)
}

var types []reflect.Type

func typeList() []reflect.Type {
	if types != nil {
		return types
	}
	seen := map[reflect.Type]bool{}
	add := func(t reflect.Type) {
		if !seen[t] {
			seen[t] = true
			types = append(types, t)
		}
	}
	for _, t := range jgen.KeyedMaps() {
		add(t)
	}
	for _, t := range jgen.Leaves {
		add(t)
	}
	for _, t := range jgen.Statics {
		add(t)
	}
	add(jgen.WideStruct(33))
	add(jgen.LongNameStruct())
	for _, t := range []reflect.Type{jgen.T[stdjson.RawMessage](), jgen.T[stdjson.Number](), jgen.T[any](), jgen.T[string](), jgen.T[float64](), jgen.T[jgen.ErrM](), jgen.T[jgen.VMStruct](), jgen.T[jgen.PMStruct](), jgen.T[jgen.Base]()} {
		for _, w := range jgen.Wrappers(t, true) {
			add(w)
		}
		for _, m := range jgen.KeyedMaps()[:6] {
			add(reflect.MapOf(m.Key(), t))
		}
	}
	return types
}

// rawsValid reports whether every RawMessage reachable from v is valid JSON
// (TrustRawMessage is only specified for such values).
func rawsValid(v reflect.Value, depth int) bool {
	if !v.IsValid() || depth > 10 {
		return true
	}
	if v.Type() == jgen.T[stdjson.RawMessage]() {
		return v.IsNil() || stdjson.Valid(v.Bytes())
	}
	switch v.Kind() {
	case reflect.Ptr, reflect.Interface:
		return v.IsNil() || rawsValid(v.Elem(), depth+1)
	case reflect.Slice, reflect.Array:
		for i := 0; i < v.Len(); i++ {
			if !rawsValid(v.Index(i), depth+1) {
				return false
			}
		}
	case reflect.Map:
		it := v.MapRange()
		for it.Next() {
			if !rawsValid(it.Value(), depth+1) {
				return false
			}
		}
	case reflect.Struct:
		for i := 0; i < v.NumField(); i++ {
			if !rawsValid(v.Field(i), depth+1) {
				return false
			}
		}
	}
	return true
}

func generic(b []byte) (any, error) {
	d := stdjson.NewDecoder(bytes.NewReader(b))
	d.UseNumber()
	var x any
	if err := d.Decode(&x); err != nil {
		return nil, err
	}
	if d.More() {
		return nil, fmt.Errorf("trailing data")
	}
	return x, nil
}

var copyFlagSets = func() []json.ParseFlags {
	base := []json.ParseFlags{json.DontCopyString, json.DontCopyNumber, json.DontCopyRawMessage, json.DontMatchCaseInsensitiveStructFields}
	var out []json.ParseFlags
	for m := 0; m < 16; m++ {
		var f json.ParseFlags
		for i, b := range base {
			if m&(1<<i) != 0 {
				f |= b
			}
		}
		out = append(out, f)
	}
	return out
}()

var thoroughTypes []reflect.Type

// thoroughTypeList adds C01's whole quick universe of type shapes (depth 2) to the list.
func thoroughTypeList() []reflect.Type {
	if thoroughTypes == nil {
		seen := map[reflect.Type]bool{}
		for _, t := range append(append([]reflect.Type{}, typeList()...), c01.TypeList(false)...) {
			if !seen[t] {
				seen[t] = true
				thoroughTypes = append(thoroughTypes, t)
			}
		}
	}
	return thoroughTypes
}

func appendFlags(c *explore.Ctx) {
	ts := typeList()
	if c.Thorough() {
		ts = thoroughTypeList()
	}
	t := ts[c.Choose(len(ts))]
	dom := jgen.CachedDomain(t)
	v := dom[c.Choose(len(dom))]
	shape := typeName(t)
	desc := fmt.Sprintf("%s = %s", shape, jgen.Describe(v))
	x := v.Interface()
	var def []byte
	var derr error
	if pv, _ := explore.Catch(func() { def, derr = json.Append(nil, x, defaultFlags) }); pv != nil {
		c.Outcome("panic(C06)")
		return
	}
	var defVal any
	if derr == nil {
		var gerr error
		if defVal, gerr = generic(def); gerr != nil {
			c.Fail("default-output-invalid:"+shape, "Append with the default flags returns invalid JSON %s (%v) for %s", trunc(def), gerr, desc)
			return
		}
	}
	trusted := rawsValid(v, 0)
	roundTrips := false
	if derr == nil {
		// the value belongs to the round-trippable universe if encoding/json itself restores it
		back := reflect.New(t)
		explore.Catch(func() {
			if sb, serr := stdjson.Marshal(x); serr == nil && stdjson.Unmarshal(sb, back.Interface()) == nil {
				roundTrips, _ = jgen.DeepEq(v, back.Elem())
			}
		})
	}
	var n int64
	for fl := json.AppendFlags(0); fl < 8; fl++ {
		if fl&json.TrustRawMessage != 0 && !trusted {
			continue
		}
		n++
		var out []byte
		var err error
		if pv, ps := explore.Catch(func() { out, err = json.Append(nil, x, fl) }); pv != nil {
			c.Fail(fmt.Sprintf("panic:flags=%03b:%s", fl, ps), "Append(flags %03b) panicked: %v for %s", fl, pv, desc)
			continue
		}
		if (err == nil) != (derr == nil) {
			c.Fail(fmt.Sprintf("error-depends-on-flags:%03b:%s", fl, shape), "Append(flags %03b) error %v, default flags error %v (output %s) for %s", fl, err, derr, trunc(out), desc)
			continue
		}
		if err != nil {
			continue
		}
		val, gerr := generic(out)
		if gerr != nil {
			c.Fail(fmt.Sprintf("invalid-json:%03b:%s", fl, shape), "Append(flags %03b) returns invalid JSON %s (%v) for %s", fl, trunc(out), gerr, desc)
			continue
		}
		if !reflect.DeepEqual(val, defVal) && !sameTyped(t, out, def) {
			c.Fail(fmt.Sprintf("meaning-differs:%03b:%s", fl, shape), "Append(flags %03b) = %s decodes differently from the default output %s for %s", fl, trunc(out), trunc(def), desc)
			continue
		}
		if fl&json.EscapeHTML == 0 && fl&json.SortMapKeys != 0 && !c01.ContainsDuration(t, 0) {
			var buf bytes.Buffer
			e := stdjson.NewEncoder(&buf)
			e.SetEscapeHTML(false)
			if eerr := e.Encode(x); eerr == nil {
				if want := bytes.TrimSuffix(buf.Bytes(), []byte("\n")); !bytes.Equal(out, want) && !(fl&json.TrustRawMessage != 0) {
					c.Fail(fmt.Sprintf("noescape-bytes-differ:%03b:%s", fl, shape), "Append(flags %03b) = %s, encoding/json Encoder(SetEscapeHTML(false)) %s for %s", fl, trunc(out), trunc(want), desc)
				}
			}
		}
		if fl&json.SortMapKeys == 0 && len(out) != len(appendWith(x, fl|json.SortMapKeys)) {
			c.Fail(fmt.Sprintf("unsorted-not-a-permutation:%03b:%s", fl, shape), "Append(flags %03b) = %s has another length than the sorted output for %s", fl, trunc(out), desc)
		}
		// Encoder setters are equivalent to the flags
		var ebuf bytes.Buffer
		enc := json.NewEncoder(&ebuf)
		enc.SetEscapeHTML(fl&json.EscapeHTML != 0)
		enc.SetSortMapKeys(fl&json.SortMapKeys != 0)
		enc.SetTrustRawMessage(fl&json.TrustRawMessage != 0)
		enc.SetAppendNewline(false)
		if eerr := enc.Encode(x); eerr != nil || (fl&json.SortMapKeys != 0 && !bytes.Equal(ebuf.Bytes(), out)) || len(ebuf.Bytes()) != len(out) {
			c.Fail(fmt.Sprintf("encoder-setters-differ:%03b:%s", fl, shape), "Encoder with setters for flags %03b wrote %s (%v), Append %s for %s", fl, trunc(ebuf.Bytes()), eerr, trunc(out), desc)
		}
		// parsing the output back with every subset of the non-semantic flags restores the value
		if roundTrips {
			for _, pf := range copyFlagSets {
				n++
				back := reflect.New(t)
				in := append([]byte{}, out...)
				var perr error
				var rest []byte
				if pv, ps := explore.Catch(func() { rest, perr = json.Parse(in, back.Interface(), pf) }); pv != nil {
					c.Fail("parse-panic:"+ps, "Parse(flags %b) of %s panicked: %v for %s", pf, trunc(out), pv, desc)
					continue
				}
				if perr != nil || len(rest) != 0 {
					c.Fail(fmt.Sprintf("parse-back-fails:%b:%s", pf, shape), "Parse(%s, flags %b) fails: %v (rest %q) for %s", trunc(out), pf, perr, trunc(rest), desc)
					continue
				}
				if ok, why := jgen.DeepEq(v, back.Elem()); !ok {
					c.Fail(fmt.Sprintf("parse-back-differs:%b:%s", pf, shape), "Parse(%s, flags %b) differs from the original at %s for %s", trunc(out), pf, why, desc)
				}
			}
		}
	}
	c.Inner(n)
	c.NontrivialStr(shape, jgen.Describe(v))
	c.Outcome(fmt.Sprintf("err=%v trusted=%v roundtrips=%v", derr != nil, trusted, roundTrips))
	if c.WantSample() || c.Failed() {
		c.Case(map[string]any{"type": shape, "value": jgen.Describe(v), "default_output": trunc(def), "flag_subsets_checked": n})
	}
}

// sameTyped: both outputs decode (with encoding/json) to the same value of type t.
// Needed for string fields tagged ",string": their text is JSON inside a JSON
// string, so HTML escaping of the inner text is visible at the generic level
// although the decoded field is the same (encoding/json behaves identically).
func sameTyped(t reflect.Type, a, b []byte) bool {
	x, y := reflect.New(t), reflect.New(t)
	if stdjson.Unmarshal(a, x.Interface()) != nil || stdjson.Unmarshal(b, y.Interface()) != nil {
		return false
	}
	ok, _ := jgen.DeepEq(x.Elem(), y.Elem())
	return ok
}

func appendWith(x any, fl json.AppendFlags) []byte {
	b, _ := json.Append(nil, x, fl)
	return b
}

// ---- Use* flags: dynamic type and value of numbers stored in interfaces

var numberLits = []string{"0", "-0", "1", "-1", "12", "9223372036854775807", "9223372036854775808", "-9223372036854775808", "-9223372036854775809", "18446744073709551615", "18446744073709551616",
	"123456789012345678901234567890", "-123456789012345678901234567890", "1.0", "1.5", "-1.5e3", "1e2", "1E+2", "0.0", "1e400", "100", "4294967296", "-2147483649"}

var reInt = regexp.MustCompile(`^-?(0|[1-9][0-9]*)$`)

// modelKind is the documented precedence of the Use* flags.
func modelKind(lit string, f json.ParseFlags) string {
	isInt := reInt.MatchString(lit)
	neg := strings.HasPrefix(lit, "-")
	n := new(big.Int)
	if isInt {
		n.SetString(lit, 10)
	}
	switch {
	case isInt && !neg && f&json.UseUint64 != 0 && n.IsUint64():
		return "uint64"
	case isInt && f&json.UseInt64 != 0 && n.IsInt64():
		return "int64"
	case isInt && f&json.UseBigInt != 0:
		return "*big.Int"
	case f&json.UseNumber != 0:
		return "json.Number"
	}
	return "float64"
}

// ---- values that cannot be encoded: the error must not depend on the flags (nor on the map iteration order)

var failingMembers = []struct {
	name string
	v    any
}{
	{"NaN", math.NaN()}, {"chan", make(chan int)}, {"failing Marshaler", jgen.ErrM{A: 1}}, {"invalid RawMessage", stdjson.RawMessage(`{"a":}`)}, {"invalid Number", stdjson.Number("1x")}, {"+Inf in a slice", []any{1, math.Inf(1)}},
}

// ---- values that share memory without being cyclic, deep enough for the cycle bookkeeping to be active

func deepSharedFlags(c *explore.Ctx) {
	sh := c01.SharedShapes[c.Choose(len(c01.SharedShapes))]
	depth := []int{0, 999, 1000, 1001, 1100}[c.Choose(5)]
	wrap := c.Choose(3)
	v := sh.Mk()
	for i := 0; i < depth; i++ {
		switch wrap {
		case 0:
			v = []any{v}
		case 1:
			v = map[string]any{"k": v}
		case 2:
			x := v
			v = &x
		}
	}
	var base []byte
	var baseErr error
	for m := 0; m < 8; m++ {
		fl := json.AppendFlags(m)
		if fl&json.TrustRawMessage != 0 {
			continue
		}
		var b []byte
		var err error
		if pv, ps := explore.Catch(func() { b, err = json.Append(nil, v, fl) }); pv != nil {
			c.Fail("deep-shared:panic:"+ps, "Append(flags %03b) panics for a %s under %d levels: %v", m, sh.Name, depth, pv)
			return
		}
		if m == 0 {
			base, baseErr = b, err
			continue
		}
		if (err == nil) != (baseErr == nil) {
			c.Fail(fmt.Sprintf("deep-shared:error-depends-on-flags:%03b", m), "Append of a %s under %d levels (wrapper %d): flags %03b give error %v, flags 000 give %v", sh.Name, depth, wrap, m, err, baseErr)
		} else if err == nil && len(b) != len(base) {
			c.Fail(fmt.Sprintf("deep-shared:length-depends-on-flags:%03b", m), "Append of a %s under %d levels: %d bytes with flags %03b, %d with flags 000", sh.Name, depth, len(b), m, len(base))
		}
	}
	c.NontrivialStr("deepshared", sh.Name, fmt.Sprint(depth, wrap))
	c.Outcome(fmt.Sprintf("err=%v", baseErr != nil))
	c.Case(map[string]any{"value": sh.Name, "levels": depth, "wrapper": wrap})
}

func failingValues(c *explore.Ctx) {
	fm := failingMembers[c.Choose(len(failingMembers))]
	shape := c.Choose(6)
	entries := 2 + c.Choose(4)
	mk := func() map[string]any {
		m := map[string]any{"bad": fm.v}
		for i := 1; i < entries; i++ {
			m[fmt.Sprintf("k%d", i)] = i
		}
		return m
	}
	var x any
	name := ""
	switch shape {
	case 0:
		x, name = mk(), "map[string]any"
	case 1:
		x, name = map[string]any{"outer": mk(), "z": 1}, "map in map"
	case 2:
		x, name = []any{mk(), 2}, "map in slice"
	case 3:
		x, name = struct {
			M map[string]any
			Z int
		}{mk(), 1}, "map in struct"
	case 4:
		x, name = &struct{ M map[string]any }{mk()}, "map in *struct"
	case 5:
		m := map[string]stdjson.RawMessage{"bad": stdjson.RawMessage(`{"a":}`)}
		for i := 1; i < entries; i++ {
			m[fmt.Sprintf("k%d", i)] = stdjson.RawMessage("1")
		}
		x, name = m, "map[string]RawMessage"
	}
	var n int64
	for fl := json.AppendFlags(0); fl < 8; fl++ {
		if fl&json.TrustRawMessage != 0 && (shape == 5 || fm.name == "invalid RawMessage") {
			continue // the caller vouches for the raw messages
		}
		for rep := 0; rep < 12; rep++ {
			n++
			var out []byte
			var err error
			if pv, ps := explore.Catch(func() { out, err = json.Append([]byte("pre"), x, fl) }); pv != nil {
				c.Fail("failing-values:panic:"+ps, "Append(flags %03b) panicked: %v for %s with a %s member", fl, pv, name, fm.name)
				break
			}
			if err == nil {
				c.Fail(fmt.Sprintf("failing-values:no-error:%03b:%s", fl, name), "Append(flags %03b) of a %s with a %s member (%d entries) returns %s and no error", fl, name, fm.name, entries, trunc(out))
				break
			}
			if !bytes.HasPrefix(out, []byte("pre")) {
				c.Fail(fmt.Sprintf("failing-values:prefix-lost:%03b", fl), "Append(flags %03b) returns %q with an error: the destination's bytes are gone", fl, trunc(out))
				break
			}
		}
	}
	c.Inner(n)
	c.NontrivialStr("failing", fm.name, name, fmt.Sprint(entries))
	c.Outcome("failing=" + fm.name)
	c.Case(map[string]any{"member": fm.name, "shape": name, "entries": entries, "encodings": n})
}

// places where a number can land in an interface: the Use* flags must reach all of them
type namedEmptyIface interface{}

type ifaceHolder struct{ K any }

type numberPlace struct {
	name   string
	doc    func(lit string) string
	target func() any
	get    func(target any) any
}

func anyOf(target any) any { return *(target.(*any)) }

var numberPlaces = []numberPlace{
	{"bare", func(l string) string { return l }, func() any { return new(any) }, anyOf},
	{"in array", func(l string) string { return "[" + l + "]" }, func() any { return new(any) }, func(t any) any {
		if a, ok := anyOf(t).([]any); ok && len(a) == 1 {
			return a[0]
		}
		return anyOf(t)
	}},
	{"object member", func(l string) string { return `{"k":` + l + "}" }, func() any { return new(any) }, func(t any) any {
		if o, ok := anyOf(t).(map[string]any); ok {
			return o["k"]
		}
		return anyOf(t)
	}},
	{"object member followed by other members", func(l string) string { return `{"k":` + l + `,"m":7,"z":"s","y":[1,"t"],"o":{"q":2}}` }, func() any { return new(any) }, func(t any) any {
		if o, ok := anyOf(t).(map[string]any); ok && len(o) == 5 && o["z"] == "s" {
			return o["k"]
		}
		return anyOf(t)
	}},
	{"object member after another number", func(l string) string { return `{"a":5,"k":` + l + `,"m":7}` }, func() any { return new(any) }, func(t any) any {
		if o, ok := anyOf(t).(map[string]any); ok && len(o) == 3 {
			return o["k"]
		}
		return anyOf(t)
	}},
	{"array element followed by other elements", func(l string) string { return `[` + l + `,7,"s",[2]]` }, func() any { return new(any) }, func(t any) any {
		if a, ok := anyOf(t).([]any); ok && len(a) == 4 && a[2] == "s" {
			return a[0]
		}
		return anyOf(t)
	}},
	{"named empty interface field", func(l string) string { return `{"K":` + l + "}" }, func() any { return new(struct{ K namedEmptyIface }) }, func(t any) any {
		return t.(*struct{ K namedEmptyIface }).K
	}},
	{"any holding a pointer to a struct with an any field", func(l string) string { return `{"K":` + l + "}" }, func() any { var x any = &ifaceHolder{}; return &x }, func(t any) any {
		if h, ok := anyOf(t).(*ifaceHolder); ok {
			return h.K
		}
		return anyOf(t)
	}},
	{"[]any field", func(l string) string { return `{"K":[0,` + l + "]}" }, func() any { return new(struct{ K []any }) }, func(t any) any {
		if k := t.(*struct{ K []any }).K; len(k) == 2 {
			return k[1]
		}
		return nil
	}},
	{"map[string]any held by a pointer in a named interface", func(l string) string { return `{"k":` + l + "}" }, func() any {
		var x namedEmptyIface = &map[string]any{}
		return &x
	}, func(t any) any {
		if m, ok := (*(t.(*namedEmptyIface))).(*map[string]any); ok {
			return (*m)["k"]
		}
		return *(t.(*namedEmptyIface))
	}},
}

func numberKinds(c *explore.Ctx) {
	lit := numberLits[c.Choose(len(numberLits))]
	ctx := c.Choose(len(numberPlaces)) // where the interface that receives the number sits
	place := numberPlaces[ctx]
	doc := place.doc(lit)
	var n int64
	for m := 0; m < 512; m++ {
		f := json.ParseFlags(m) // the nine public flags are bits 0..8
		n++
		target := place.target()
		var err error
		if pv, ps := explore.Catch(func() { _, err = json.Parse([]byte(doc), target, f) }); pv != nil {
			c.Fail("use-flags:panic:"+ps, "Parse(%s, flags %09b) panicked: %v", doc, m, pv)
			continue
		}
		// reference: float64 decoding fails on overflow (1e400) unless another representation is selected
		want := modelKind(lit, f)
		var sx any
		serr := stdjson.Unmarshal([]byte(doc), &sx)
		if want == "float64" && serr != nil {
			if err == nil {
				c.Fail("use-flags:accepts-overflow", "Parse(%s, flags %09b) succeeds, encoding/json fails: %v", doc, m, serr)
			}
			continue
		}
		if err != nil {
			c.Fail("use-flags:error:"+want, "Parse(%s, flags %09b) fails: %v (expected a %s)", doc, m, err, want)
			continue
		}
		got := place.get(target)
		gk := fmt.Sprintf("%T", got)
		if gk != want {
			c.Fail(fmt.Sprintf("use-flags:dynamic-type:%s-for-%s", gk, want), "Parse(%s, flags %09b) stores a %s, the documented precedence gives %s", doc, m, gk, want)
			continue
		}
		// numeric value preserved exactly
		exact, _, _ := big.ParseFloat(lit, 10, 2000, big.ToNearestEven)
		var gf *big.Float
		switch g := got.(type) {
		case uint64:
			gf = new(big.Float).SetPrec(2000).SetUint64(g)
		case int64:
			gf = new(big.Float).SetPrec(2000).SetInt64(g)
		case *big.Int:
			gf = new(big.Float).SetPrec(2000).SetInt(g)
		case json.Number:
			if string(g) != lit {
				c.Fail("use-flags:number-text", "Parse(%s, flags %09b) stores Number(%q)", doc, m, string(g))
			}
			continue
		case float64:
			var sf float64
			stdjson.Unmarshal([]byte(lit), &sf)
			if g != sf {
				c.Fail("use-flags:float-value", "Parse(%s, flags %09b) stores %v, encoding/json %v", doc, m, g, sf)
			}
			continue
		}
		if exact != nil && gf.Cmp(exact) != 0 {
			c.Fail("use-flags:value:"+want, "Parse(%s, flags %09b) stores %v", doc, m, got)
		}
	}
	// Decoder setters: UseNumber
	d := json.NewDecoder(strings.NewReader(doc))
	d.UseNumber()
	var y any
	if err := d.Decode(&y); err == nil {
		var z any
		json.Parse([]byte(doc), &z, json.UseNumber)
		if !reflect.DeepEqual(y, z) {
			c.Fail("use-flags:Decoder.UseNumber", "Decoder.UseNumber over %s gives %#v, Parse with UseNumber %#v", doc, y, z)
		}
	}
	c.Inner(n)
	c.NontrivialStr("num", doc)
	c.Outcome(fmt.Sprintf("int=%v", reInt.MatchString(lit)))
	if c.WantSample() || c.Failed() {
		c.Case(map[string]any{"document": doc, "parse_flag_subsets": 512})
	}
}

// all 512 ParseFlags subsets on typed targets: the non-semantic flags never change the decoded value
func parseFlags(c *explore.Ctx) {
	ts := typeList()
	t := ts[c.Choose(len(ts))]
	dom := jgen.CachedDomain(t)
	v := dom[c.Choose(min(len(dom), 4))]
	shape := typeName(t)
	var doc []byte
	var err error
	if pv, _ := explore.Catch(func() { doc, err = stdjson.Marshal(v.Interface()) }); pv != nil || err != nil {
		c.Outcome("unencodable")
		return
	}
	ref := reflect.New(t)
	if _, err := json.Parse(append([]byte{}, doc...), ref.Interface(), 0); err != nil {
		c.Outcome("undecodable")
		return
	}
	var n int64
	for m := 0; m < 512; m++ {
		f := json.ParseFlags(m)
		if f&(json.DisallowUnknownFields|json.UseNumber|json.UseBigInt|json.UseInt64|json.UseUint64) != 0 {
			if f&json.DisallowUnknownFields != 0 {
				continue // may legitimately turn success into failure
			}
			if containsInterface(t, 0) {
				continue // the Use* flags change dynamic types inside interfaces (checked by number-kinds)
			}
		}
		n++
		got := reflect.New(t)
		in := append([]byte{}, doc...)
		var perr error
		if pv, ps := explore.Catch(func() { _, perr = json.Parse(in, got.Interface(), f) }); pv != nil {
			c.Fail("parse-flags:panic:"+ps, "Parse(%s, flags %09b) panicked: %v", trunc(doc), m, pv)
			continue
		}
		if perr != nil {
			c.Fail(fmt.Sprintf("parse-flags:error:%09b:%s", m&^0x3c, shape), "Parse(%s, flags %09b) into %s fails: %v (flags 0 succeed)", trunc(doc), m, shape, perr)
			continue
		}
		if !bytes.Equal(in, doc) {
			// the same bytes must parse again, with any other subset
			c.Fail(fmt.Sprintf("parse-flags:document-rewritten:%09b", m&^0x3c), "Parse(%s, flags %09b) into %s changes the document it parses to %s", trunc(doc), m, shape, trunc(in))
		}
		if ok, why := jgen.DeepEq(ref.Elem(), got.Elem()); !ok {
			c.Fail(fmt.Sprintf("parse-flags:value:%09b:%s", m&^0x3c, shape), "Parse(%s, flags %09b) into %s differs from flags 0 at %s", trunc(doc), m, shape, why)
		}
	}
	c.Inner(n)
	c.NontrivialStr("pf", shape, string(doc))
	c.Outcome("parse-flags")
	if c.WantSample() || c.Failed() {
		c.Case(map[string]any{"type": shape, "document": trunc(doc), "flag_subsets": n})
	}
}

func containsInterface(t reflect.Type, depth int) bool {
	if depth > 6 {
		return false
	}
	switch t.Kind() {
	case reflect.Interface:
		return true
	case reflect.Ptr, reflect.Slice, reflect.Array:
		return containsInterface(t.Elem(), depth+1)
	case reflect.Map:
		return containsInterface(t.Elem(), depth+1)
	case reflect.Struct:
		for i := 0; i < t.NumField(); i++ {
			if containsInterface(t.Field(i).Type, depth+1) {
				return true
			}
		}
	}
	return false
}

// Spec returns the C14 check.
func Spec() *explore.Spec {
	return &explore.Spec{
		ID: "C14",
		Families: []*explore.Family{
			{Name: "append-flags", ShardDepth: 1, Body: appendFlags, Doc: "~500 (thorough: ~3500, all of C01's depth-2 universe) type shapes (all specialised and generic maps with 0/1/2/many entries, RawMessage valid/compact/whitespace/invalid, Number, any, marshalers that fail, HTML-sensitive keys) x boundary values x all 8 AppendFlags subsets (TrustRawMessage only for valid raws): error iff default flags error, valid JSON, same generic value as the default output, bytes equal to the standard Encoder with SetEscapeHTML(false), unsorted output of the same length, Encoder setters equivalent; every output parsed back with all 16 subsets of the non-semantic ParseFlags and compared with the original (for values encoding/json round-trips)"},
			{Name: "deep-shared", ShardDepth: 2, Body: deepSharedFlags, Doc: "6 values that share memory without being cyclic (the same map / pointer / slice reached twice, views of one array) under 0, 999..1001, 1100 levels of []any / map / pointer nesting x the AppendFlags subsets: an error for one subset iff an error for all (the cycle bookkeeping starts at depth 1000), same length"},
			{Name: "failing-values", ShardDepth: 2, Body: failingValues, Doc: "values one of whose members cannot be encoded (NaN, channel, failing Marshaler, invalid RawMessage / Number) inside maps of 2-5 entries, nested maps, slices and structs x all 8 AppendFlags subsets, each encoded 12 times (map iteration order is the runtime's): an error for every flag subset, and the destination prefix is kept"},
			{Name: "number-kinds", ShardDepth: 2, Body: numberKinds, Doc: "23 number literals at every int64/uint64 boundary and beyond x {bare, in array, in object} x all 512 ParseFlags subsets: dynamic type per the documented precedence, numeric value preserved exactly (big.Float)"},
			{Name: "decoder-setters", ShardDepth: 2, Body: decoderSetters, Doc: "every history of 0-3 calls of the 7 Decoder setters followed by 4 documents (unknown member, lower-case keys, numbers, raw message, strings) decoded into a struct with Number / RawMessage / any fields: error presence and value equal Parse with the union of the selected flags"},
			{Name: "parse-flags", ShardDepth: 1, Body: parseFlags, Doc: "typed targets x valid documents x all 512 ParseFlags subsets (minus DisallowUnknownFields): same decoded value as with no flags"},
		},
		Rule: "every (value, AppendFlags subset) and every (document, ParseFlags subset); distinct non-trivial = distinct (type, value) and documents",
		Assumptions: []string{
			"the default flags are EscapeHTML|SortMapKeys (what Marshal uses); generic values are compared after decoding with encoding/json (UseNumber), so map order cannot change a verdict",
			"the round-trippable universe is decided dynamically: values that encoding/json itself restores exactly",
			"number-kind model transcribed from the doc comments of UseNumber/UseBigInt/UseInt64/UseUint64",
		},
	}
}

// Package c01: json.Marshal is byte-for-byte encoding/json.Marshal (DESIGN.md §5 C01).
package c01

import (
	"bytes"
	stdjson "encoding/json"
	"errors"
	"fmt"
	"io"
	"math"
	"reflect"
	"strings"

	"github.com/segmentio/encoding/json"
	"verif/mc/explore"
	"verif/mc/gen/jgen"
)

// TypeList builds the deterministic list of type shapes for a tier.
func TypeList(thorough bool) []reflect.Type {
	seen := map[reflect.Type]bool{}
	var out []reflect.Type
	add := func(t reflect.Type) {
		if !seen[t] {
			seen[t] = true
			out = append(out, t)
		}
	}
	var l0 []reflect.Type
	l0 = append(l0, jgen.Leaves...)
	l0 = append(l0, jgen.Statics...)
	for _, t := range l0 {
		add(t)
	}
	for _, t := range jgen.KeyedMaps() {
		add(t)
	}
	for _, n := range []int{1, 31, 32, 33, 40} {
		add(jgen.WideStruct(n))
	}
	add(jgen.LongNameStruct())
	add(jgen.T[jgen.Durations]())
	var l1 []reflect.Type
	for _, t := range l0 {
		for _, w := range jgen.Wrappers(t, true) {
			add(w)
		}
		l1 = append(l1, jgen.Wrappers(t, false)...)
	}
	for _, t := range jgen.KeyedMaps() {
		for _, w := range jgen.Wrappers(t, false) {
			add(w)
		}
	}
	for _, t := range l1 {
		for _, w := range jgen.Wrappers(t, thorough) {
			add(w)
		}
	}
	return out
}

var types = map[bool][]reflect.Type{}

func typesFor(thorough bool) []reflect.Type {
	if t, ok := types[thorough]; ok {
		return t
	}
	t := TypeList(thorough)
	types[thorough] = t
	return t
}

func typeName(t reflect.Type) string {
	s := strings.ReplaceAll(t.String(), "jgen.", "")
	s = strings.ReplaceAll(s, "interface {}", "any")
	if len(s) > 110 {
		s = s[:110]
	}
	return s
}

func trunc(b []byte) string {
	if len(b) > 120 {
		return string(b[:120]) + "…"
	}
	return string(b)
}

type result struct {
	b   []byte
	err error
	pv  any
	ps  string
}

func guard(f func() ([]byte, error)) (r result) {
	r.pv, r.ps = explore.Catch(func() { r.b, r.err = f() })
	return
}

// Disagreement is one configuration on which the two libraries differ.
type Disagreement struct{ Config, Kind, Msg string }

// Compare classifies the outcome of a segmentio call against its encoding/json counterpart.
func Compare(config string, seg, std result) (kind, msg string) {
	switch {
	case std.pv != nil:
		return "", "" // encoding/json itself panics: outside the comparison
	case seg.pv != nil:
		return "panic:" + seg.ps + ":" + explore.PanicClass(seg.pv), fmt.Sprintf("%s panicked: %v", config, seg.pv)
	case (seg.err == nil) != (std.err == nil):
		if seg.err == nil {
			return "error-missing", fmt.Sprintf("%s succeeds (%s) but encoding/json fails: %v", config, trunc(seg.b), std.err)
		}
		return "error-spurious", fmt.Sprintf("%s fails (%v) but encoding/json returns %s", config, seg.err, trunc(std.b))
	case seg.err == nil && !bytes.Equal(seg.b, std.b):
		return "bytes-differ", fmt.Sprintf("%s returns %s, encoding/json %s", config, trunc(seg.b), trunc(std.b))
	}
	return "", ""
}

type encCfg struct {
	name           string
	escape         bool
	prefix, indent string
}

var encCfgs = []encCfg{
	{"Encoder", true, "", ""}, {"Encoder(noescape)", false, "", ""}, {"Encoder(indent)", true, "", " "}, {"Encoder(noescape,prefix+tab)", false, ">", "\t"},
}

// Configs runs every encoder configuration on x and returns the disagreements.
func Configs(x any) (ds []Disagreement, ok bool) {
	add := func(config string, seg, std result) {
		if k, m := Compare(config, seg, std); k != "" {
			ds = append(ds, Disagreement{config, k, m})
		}
	}
	std := guard(func() ([]byte, error) { return stdjson.Marshal(x) })
	add("Marshal", guard(func() ([]byte, error) { return json.Marshal(x) }), std)
	add("Append", guard(func() ([]byte, error) { return json.Append(nil, x, json.EscapeHTML|json.SortMapKeys) }), std)
	add("MarshalIndent", guard(func() ([]byte, error) { return json.MarshalIndent(x, "", " ") }), guard(func() ([]byte, error) { return stdjson.MarshalIndent(x, "", " ") }))
	add("MarshalIndent(prefix)", guard(func() ([]byte, error) { return json.MarshalIndent(x, ">", "\t") }), guard(func() ([]byte, error) { return stdjson.MarshalIndent(x, ">", "\t") }))
	for _, ec := range encCfgs {
		ec := ec
		seg := guard(func() ([]byte, error) {
			var buf bytes.Buffer
			e := json.NewEncoder(&buf)
			e.SetEscapeHTML(ec.escape)
			if ec.indent != "" || ec.prefix != "" {
				e.SetIndent(ec.prefix, ec.indent)
			}
			err := e.Encode(x)
			return buf.Bytes(), err
		})
		ref := guard(func() ([]byte, error) {
			var buf bytes.Buffer
			e := stdjson.NewEncoder(&buf)
			e.SetEscapeHTML(ec.escape)
			if ec.indent != "" || ec.prefix != "" {
				e.SetIndent(ec.prefix, ec.indent)
			}
			err := e.Encode(x)
			return buf.Bytes(), err
		})
		add(ec.name, seg, ref)
		// a writer that fails: the error comes back from the same Encode call, as with encoding/json
		failing := func(enc func(w io.Writer) (error, error)) result {
			return guard(func() ([]byte, error) {
				e1, e2 := enc(&failingWriter{})
				return []byte(fmt.Sprintf("first=%v second=%v", e1 != nil, e2 != nil)), nil
			})
		}
		add(ec.name+"(failing writer)", failing(func(w io.Writer) (error, error) {
			e := json.NewEncoder(w)
			e.SetEscapeHTML(ec.escape)
			if ec.indent != "" || ec.prefix != "" {
				e.SetIndent(ec.prefix, ec.indent)
			}
			return e.Encode(x), e.Encode(x)
		}), failing(func(w io.Writer) (error, error) {
			e := stdjson.NewEncoder(w)
			e.SetEscapeHTML(ec.escape)
			if ec.indent != "" || ec.prefix != "" {
				e.SetIndent(ec.prefix, ec.indent)
			}
			return e.Encode(x), e.Encode(x)
		}))
		// a writer that uses the package itself before consuming the bytes it is handed (framing, logging)
		add(ec.name+"(re-entrant writer)", guard(func() ([]byte, error) {
			w := &reentrantWriter{}
			e := json.NewEncoder(w)
			e.SetEscapeHTML(ec.escape)
			if ec.indent != "" || ec.prefix != "" {
				e.SetIndent(ec.prefix, ec.indent)
			}
			err := e.Encode(x)
			return w.buf.Bytes(), err
		}), ref)
	}
	return ds, std.err == nil
}

// marshalKind is the disagreement kind of plain Marshal on x ("" if none).
func marshalKind(x any) string {
	k, _ := Compare("Marshal", guard(func() ([]byte, error) { return json.Marshal(x) }), guard(func() ([]byte, error) { return stdjson.Marshal(x) }))
	return k
}

// Minimal strips wrappers around the part of the value that still shows the
// same kind of disagreement under Marshal, so that signatures name the smallest
// type shape responsible (DESIGN.md §6.2).
func Minimal(v reflect.Value, kind string, depth int) reflect.Value {
	if depth > 8 || !v.IsValid() {
		return v
	}
	try := func(c reflect.Value) (reflect.Value, bool) {
		if !c.IsValid() || !c.CanInterface() {
			return c, false
		}
		if c.Kind() == reflect.Interface {
			if c.IsNil() {
				return c, false
			}
			c = c.Elem()
		}
		if marshalKind(c.Interface()) == kind {
			return Minimal(c, kind, depth+1), true
		}
		return c, false
	}
	switch v.Kind() {
	case reflect.Ptr, reflect.Interface:
		if !v.IsNil() {
			if m, ok := try(v.Elem()); ok {
				return m
			}
		}
	case reflect.Slice, reflect.Array:
		for i := 0; i < v.Len() && i < 16; i++ {
			if m, ok := try(v.Index(i)); ok {
				return m
			}
		}
	case reflect.Map:
		it := v.MapRange()
		for it.Next() {
			if m, ok := try(it.Value()); ok {
				return m
			}
		}
	case reflect.Struct:
		for i := 0; i < v.NumField(); i++ {
			if v.Type().Field(i).PkgPath == "" {
				if m, ok := try(v.Field(i)); ok {
					return m
				}
			}
		}
	}
	return v
}

// Report files the disagreements of one value under localised signatures.
func Report(c *explore.Ctx, v reflect.Value, prefix string, ds []Disagreement, desc string) {
	cache := map[string]string{}
	for _, d := range ds {
		shape, ok := cache[d.Kind]
		if !ok {
			shape = prefix + typeName(Minimal(v, d.Kind, 0).Type())
			if marshalKind(v.Interface()) != d.Kind {
				shape = prefix + typeName(v.Type()) // only this configuration disagrees: keep the full shape
			}
			cache[d.Kind] = shape
		}
		c.Fail(d.Kind+":"+d.Config+":"+shape, "%s; for %s", d.Msg, desc)
	}
}

// ContainsDuration reports whether values of t contain a time.Duration (the sanctioned difference).
func ContainsDuration(t reflect.Type, depth int) bool { return containsDuration(t, depth) }

func containsDuration(t reflect.Type, depth int) bool {
	if depth > 6 {
		return false
	}
	if t == jgen.T[jgen.Durations]() {
		return true
	}
	switch t.Kind() {
	case reflect.Ptr, reflect.Slice, reflect.Array:
		return containsDuration(t.Elem(), depth+1)
	case reflect.Map:
		return containsDuration(t.Elem(), depth+1) || containsDuration(t.Key(), depth+1)
	case reflect.Struct:
		for i := 0; i < t.NumField(); i++ {
			if containsDuration(t.Field(i).Type, depth+1) {
				return true
			}
		}
	}
	return false
}

func typed(c *explore.Ctx) {
	ts := typesFor(true) // the full type list is cheap enough for the quick tier too
	t := ts[c.Choose(len(ts))]
	dom := jgen.CachedDomain(t)
	v := dom[c.Choose(len(dom))]
	shape := typeName(t)
	desc := fmt.Sprintf("%s = %s", shape, jgen.Describe(v))
	if containsDuration(t, 0) {
		// the sanctioned difference: durations are written as quoted strings
		b, err := json.Marshal(v.Interface())
		if err != nil || !bytes.Contains(b, []byte(`"D":"`)) {
			c.Fail("duration-not-quoted", "time.Duration must be written as a quoted duration string: %s, %v", trunc(b), err)
		}
		c.Outcome("duration")
		return
	}
	ds, ok := Configs(v.Interface())
	Report(c, v, "", ds, desc)
	// also through a pointer (addressable value: pointer-receiver methods apply)
	p := reflect.New(t)
	p.Elem().Set(v)
	ds2, _ := Configs(p.Interface())
	Report(c, p, "", ds2, "&"+desc)
	c.NontrivialStr(shape, jgen.Describe(v))
	c.Outcome(fmt.Sprintf("kind=%s ok=%v", t.Kind(), ok))
	if c.WantSample() || c.Failed() {
		c.Case(map[string]any{"type": shape, "value": jgen.Describe(v)})
	}
}

// ---- deeply nested values that share memory without being cyclic (cycle tracking starts 1000 levels down)

type viewOfSelf struct {
	Arr [2]int
	S   []int
}

var SharedShapes = []struct {
	Name string
	Mk   func() any
}{
	{"slice holding a shorter view of itself", func() any { s := make([]any, 2); s[1] = s[:1]; return s }},
	{"struct whose slice field views its own leading array", func() any { v := &viewOfSelf{Arr: [2]int{1, 2}}; v.S = v.Arr[:]; return v }},
	{"the same map twice as siblings", func() any { m := map[string]any{"a": 1}; return []any{m, m, map[string]any{"k": m}} }},
	{"the same pointer twice as siblings", func() any { p := &viewOfSelf{}; return []any{p, p, []any{p}} }},
	{"the same slice at two depths", func() any { s := []any{1, 2}; return []any{s, []any{s, []any{s}}} }},
	{"empty slices of one backing array", func() any { b := make([]any, 0, 4); return []any{b, b[:0], []any{b}} }},
}

func deepShared(c *explore.Ctx) {
	sh := SharedShapes[c.Choose(len(SharedShapes))]
	depth := []int{0, 998, 999, 1000, 1001, 1100}[c.Choose(6)]
	wrap := c.Choose(3)
	v := sh.Mk()
	for i := 0; i < depth; i++ {
		switch wrap {
		case 0:
			v = []any{v}
		case 1:
			v = map[string]any{"k": v}
		case 2:
			x := v
			v = &x
		}
	}
	seg := guard(func() ([]byte, error) { return json.Marshal(v) })
	ref := guard(func() ([]byte, error) { return stdjson.Marshal(v) })
	switch {
	case seg.pv != nil:
		c.Fail("deep-shared:panic:"+seg.ps, "Marshal panics for a %s under %d levels: %v", sh.Name, depth, seg.pv)
	case (seg.err == nil) != (ref.err == nil):
		c.Fail("deep-shared:error-differs:"+sh.Name, "Marshal of a %s under %d levels (wrapper %d): error %v, encoding/json %v", sh.Name, depth, wrap, seg.err, ref.err)
	case seg.err == nil && !bytes.Equal(seg.b, ref.b):
		c.Fail("deep-shared:bytes-differ:"+sh.Name, "Marshal of a %s under %d levels differs from encoding/json", sh.Name, depth)
	}
	c.NontrivialStr("deepshared", sh.Name, fmt.Sprint(depth, wrap))
	c.Outcome(fmt.Sprintf("err=%v", ref.err != nil))
	c.Case(map[string]any{"value": sh.Name, "levels": depth, "wrapper": wrap})
}

type failingWriter struct{}

func (failingWriter) Write(p []byte) (int, error) { return 0, errors.New("write failed") }

type reentrantWriter struct{ buf bytes.Buffer }

var reentrantPayload = map[string]any{"header": strings.Repeat("H", 64), "n": 12345}

func (w *reentrantWriter) Write(p []byte) (int, error) {
	json.Marshal(reentrantPayload)
	json.NewEncoder(io.Discard).Encode(reentrantPayload)
	return w.buf.Write(p)
}

// ---- strings: every (length, position, byte value) single deviation, pairs of specials

func encodeStringBoth(c *explore.Ctx, s string, site string) {
	for _, esc := range []bool{true, false} {
		esc := esc
		cfg := "string"
		if !esc {
			cfg = "string(noescape)"
		}
		seg := guard(func() ([]byte, error) {
			var buf bytes.Buffer
			e := json.NewEncoder(&buf)
			e.SetEscapeHTML(esc)
			err := e.Encode(s)
			return buf.Bytes(), err
		})
		ref := guard(func() ([]byte, error) {
			var buf bytes.Buffer
			e := stdjson.NewEncoder(&buf)
			e.SetEscapeHTML(esc)
			err := e.Encode(s)
			return buf.Bytes(), err
		})
		if seg.pv != nil || seg.err != nil || !bytes.Equal(seg.b, ref.b) {
			c.Fail("string:"+cfg+":"+site, "Encoder(escapeHTML=%v).Encode(%q) = %s (%v %v), encoding/json %s", esc, s, trunc(seg.b), seg.err, seg.pv, trunc(ref.b))
		}
		if esc {
			want := ref.b[:len(ref.b)-1]
			if got := json.Escape(s); !bytes.Equal(got, want) {
				c.Fail("string:Escape:"+site, "Escape(%q) = %s, want %s", s, trunc(got), trunc(want))
			}
			if got := json.AppendEscape([]byte("pre"), s, json.EscapeHTML); !bytes.Equal(got, append([]byte("pre"), want...)) {
				c.Fail("string:AppendEscape:"+site, "AppendEscape(pre,%q) = %s", s, trunc(got))
			}
		} else {
			want := ref.b[:len(ref.b)-1]
			if got := json.AppendEscape(nil, s, 0); !bytes.Equal(got, want) {
				c.Fail("string:AppendEscape(noescape):"+site, "AppendEscape(nil,%q,0) = %s, want %s", s, trunc(got), trunc(want))
			}
		}
	}
}

func byteClass(b byte) string {
	switch {
	case b == '"' || b == '\\':
		return "quote-or-backslash"
	case b == '<' || b == '>' || b == '&':
		return "html"
	case b < 0x20:
		return "control"
	case b == 0x7f:
		return "del"
	case b >= 0x80:
		return "non-ascii"
	}
	return "plain"
}

func stringSweep(c *explore.Ctx) {
	n := c.Choose(41)
	if c.Thorough() {
		n = c.Choose(73)
	}
	body := bytes.Repeat([]byte{'a'}, n)
	var cnt int64
	encodeStringBoth(c, string(body), "plain")
	for pos := 0; pos < n; pos++ {
		for v := 0; v < 256; v++ {
			body[pos] = byte(v)
			encodeStringBoth(c, string(body), "single:"+byteClass(byte(v)))
			cnt++
		}
		body[pos] = 'a'
	}
	// U+2028 / U+2029 and multi-byte runes at every position
	for pos := 0; pos+2 <= n; pos++ {
		for _, r := range []string{" ", " ", "é", "\xe2\x80", "\xed\xa0\x80", "\U0001f600", "\ufffd", "\u0080", "\u07ff", "\u0800", "\uffff", "\U00010000", "\U0010ffff", "\xc0\x80", "\xf4\x90\x80\x80", "\xef\xbf", "\xef\xbf\xbe", "\xf0\x9f\x98"} {
			if pos+len(r) <= n {
				s := string(body[:pos]) + r + string(body[pos+len(r):])
				encodeStringBoth(c, s, "rune")
				cnt++
			}
		}
	}
	c.Inner(cnt)
	c.Nontrivial(uint64(n))
	c.Outcome("strings")
	if c.WantSample() {
		c.Case(map[string]any{"length": n, "sweep": "every position x all 256 byte values, special runes at every position", "strings": cnt})
	}
}

var specials = []byte{'"', '\\', '<', '&', 0x00, 0x1f, 0x7f, 0x80, 0xe2, '\n'}

func stringPairs(c *explore.Ctx) {
	n := 2 + c.Choose(16)
	p1 := c.Choose(n)
	var cnt int64
	body := bytes.Repeat([]byte{'b'}, n)
	for p2 := p1 + 1; p2 < n; p2++ {
		for _, x := range specials {
			for _, y := range specials {
				body[p1], body[p2] = x, y
				encodeStringBoth(c, string(body), "pair")
				cnt++
			}
		}
		body[p2] = 'b'
	}
	c.Inner(cnt)
	c.Nontrivial(uint64(n)<<8 | uint64(p1))
	c.Outcome("pairs")
	if c.WantSample() {
		c.Case(map[string]any{"length": n, "first_position": p1, "specials": string(specials)})
	}
}

// ---- integers

func integers(c *explore.Ctx) {
	kind := c.Choose(10)
	block := c.Choose(4)
	var vals []int64
	var uvals []uint64
	switch block {
	case 0:
		for i := int64(0); i <= 100000; i++ {
			vals = append(vals, i, -i)
		}
	case 1:
		for p := int64(1); p > 0 && p <= math.MaxInt64/10; p *= 10 {
			for d := int64(-2); d <= 2; d++ {
				vals = append(vals, p+d, -(p + d), p*10-1+d)
			}
		}
	case 2:
		for sh := 0; sh < 64; sh++ {
			for d := int64(-2); d <= 2; d++ {
				vals = append(vals, int64(1)<<sh+d, -(int64(1)<<sh)+d)
				uvals = append(uvals, uint64(1)<<sh+uint64(d))
			}
		}
		uvals = append(uvals, math.MaxUint64, math.MaxUint64-1)
	case 3:
		for i := int64(99990); i <= 100100; i++ {
			for _, m := range []int64{1, 100, 10000, 1000000, 100000000} {
				vals = append(vals, i*m, -i*m)
			}
		}
	}
	kinds := []reflect.Type{jgen.T[int](), jgen.T[int8](), jgen.T[int16](), jgen.T[int32](), jgen.T[int64](), jgen.T[uint](), jgen.T[uint8](), jgen.T[uint16](), jgen.T[uint32](), jgen.T[uint64]()}
	t := kinds[kind]
	var cnt int64
	check := func(x any) {
		cnt++
		a, e1 := json.Marshal(x)
		b, e2 := stdjson.Marshal(x)
		if e1 != nil || e2 != nil || !bytes.Equal(a, b) {
			c.Fail("integer:"+t.String(), "Marshal(%s(%v)) = %s (%v), encoding/json %s", t, x, a, e1, b)
		}
	}
	v := reflect.New(t).Elem()
	if kind < 5 {
		for _, x := range vals {
			if !v.OverflowInt(x) {
				v.SetInt(x)
				check(v.Interface())
			}
		}
	} else {
		for _, x := range vals {
			if x >= 0 && !v.OverflowUint(uint64(x)) {
				v.SetUint(uint64(x))
				check(v.Interface())
			}
		}
		for _, x := range uvals {
			if !v.OverflowUint(x) {
				v.SetUint(x)
				check(v.Interface())
			}
		}
	}
	c.Inner(cnt)
	c.Nontrivial(uint64(kind)<<8 | uint64(block))
	c.Outcome("ints")
	if c.WantSample() {
		c.Case(map[string]any{"kind": t.String(), "block": []string{"0..100000 and negatives", "around powers of 10", "around powers of 2", "around 10^5 x 10^k"}[block], "values": cnt})
	}
}

// ---- floats

func checkFloat(c *explore.Ctx, x any, what string) {
	a, e1 := json.Marshal(x)
	b, e2 := stdjson.Marshal(x)
	if (e1 == nil) != (e2 == nil) || (e1 == nil && !bytes.Equal(a, b)) {
		c.Fail("float:"+what, "Marshal(%T(%v)) = %s (%v), encoding/json %s (%v)", x, x, a, e1, b, e2)
	}
}

func floats(c *explore.Ctx) {
	exp := c.Choose(2048) // every float64 exponent
	var cnt int64
	mants := []uint64{0, 1, 1 << 51, 1<<52 - 1, 0x5555555555555, 0x8000000000001, 0x3333333333333, 0xfffffffffffff &^ 1}
	for _, m := range mants {
		for _, sign := range []uint64{0, 1 << 63} {
			f := math.Float64frombits(sign | uint64(exp)<<52 | m)
			checkFloat(c, f, "float64")
			cnt++
		}
	}
	if exp < 256 { // every float32 exponent
		for _, m := range []uint32{0, 1, 1 << 22, 1<<23 - 1, 0x2aaaaa, 0x400001, 0x199999} {
			for _, sign := range []uint32{0, 1 << 31} {
				f := math.Float32frombits(sign | uint32(exp)<<23 | m)
				checkFloat(c, f, "float32")
				cnt++
			}
		}
	}
	c.Inner(cnt)
	c.Nontrivial(uint64(exp))
	c.Outcome("floats")
	if c.WantSample() {
		c.Case(map[string]any{"exponent": exp, "mantissa_patterns": len(mants)})
	}
}

func floatCutoffs(c *explore.Ctx) {
	which := c.Choose(8)
	bases64 := []float64{1e21, 1e-6, 1e20, 1e-7}
	var cnt int64
	if which < 4 {
		f := bases64[which]
		u := math.Float64bits(f)
		for d := -1000; d <= 1000; d++ {
			checkFloat(c, math.Float64frombits(uint64(int64(u)+int64(d))), "float64-cutoff")
			checkFloat(c, -math.Float64frombits(uint64(int64(u)+int64(d))), "float64-cutoff")
			cnt += 2
		}
	} else {
		f := float32(bases64[which-4])
		u := math.Float32bits(f)
		for d := -1000; d <= 1000; d++ {
			checkFloat(c, math.Float32frombits(uint32(int32(u)+int32(d))), "float32-cutoff")
			checkFloat(c, -math.Float32frombits(uint32(int32(u)+int32(d))), "float32-cutoff")
			cnt += 2
		}
	}
	c.Inner(cnt)
	c.Nontrivial(uint64(which))
	c.Outcome("cutoffs")
	c.Case(map[string]any{"cutoff": which, "ulps": "±1000"})
}

// all 2^32 float32 values (thorough only), in blocks of 2^16
func allFloat32(c *explore.Ctx) {
	hi := uint32(c.Choose(1 << 16))
	for lo := uint32(0); lo < 1<<16; lo++ {
		f := math.Float32frombits(hi<<16 | lo)
		a, e1 := json.Marshal(f)
		b, e2 := stdjson.Marshal(f)
		if (e1 == nil) != (e2 == nil) || (e1 == nil && !bytes.Equal(a, b)) {
			c.Fail("float32:all", "Marshal(float32 bits %#x = %v) = %s (%v), encoding/json %s (%v)", hi<<16|lo, f, a, e1, b, e2)
		}
	}
	c.Inner(1 << 16)
	c.Nontrivial(uint64(hi))
	c.Outcome("all-float32")
	if c.WantSample() {
		c.Case(map[string]any{"float32_bits_high_half": hi, "values": 65536})
	}
}

// Spec returns the C01 check.
func Spec() *explore.Spec {
	return &explore.Spec{
		ID: "C01",
		Families: []*explore.Family{
			{Name: "encoder-histories", ShardDepth: 2, Body: encoderHistories, Doc: "one Encoder reconfigured and reused: every history of up to 3 (thorough 4) calls of SetEscapeHTML(false / true) and SetIndent (3 settings), 6 values (HTML-sensitive keys and strings, maps, RawMessages with white space, a failing Marshaler) encoded after every call: error presence and bytes equal an encoding/json Encoder taken through the same history"},
			{Name: "deep-shared", ShardDepth: 2, Body: deepShared, Doc: "6 values that share memory without being cyclic (a slice holding a shorter view of itself, a struct whose slice views its own array, the same map / pointer / slice reached twice) under 0, 998..1001, 1100 levels of []any / map / pointer nesting: same bytes and errors as encoding/json"},
			{Name: "typed", ShardDepth: 1, Body: typed, Doc: "type shapes to depth 2 (40 leaves incl. 14 method-bearing ones, 18 hand-written embedding/tag/recursion structs, maps of 10 key kinds, 1/31/32/33/40-field structs; wrappers: pointer, pointer-to-pointer, slice, arrays of 0/1/2, maps, single- and two-field structs x 10 tag forms) x boundary values x {by value, by pointer} x {Marshal, Append, MarshalIndent x 2, Encoder x escapeHTML x indent}"},
			{Name: "string-sweep", Body: stringSweep, Doc: "every (length 0..40/72, position, byte value 0..255) single deviation from a plain string and special runes at every position x escapeHTML on/off x Escape/AppendEscape"},
			{Name: "string-pairs", ShardDepth: 2, Body: stringPairs, Doc: "all pairs of special bytes at all position pairs for lengths 2..17"},
			{Name: "integers", ShardDepth: 2, Body: integers, Doc: "every integer kind x {0..10^5 and negatives, +-2 around every power of 10 and of 2, around 10^5 x 10^k}"},
			{Name: "floats", Body: floats, Doc: "every float64 exponent x 8 mantissa patterns x sign; every float32 exponent x 7 patterns"},
			{Name: "float-cutoffs", Body: floatCutoffs, Doc: "+-1000 ulps around 1e21, 1e20, 1e-6, 1e-7 in float64 and float32"},
			{Name: "all-float32", Body: allFloat32, Tiers: []string{"thorough"}, Budget: func(string) int { return 3000 }, Doc: "all 2^32 float32 values"},
		},
		Rule: "every (type shape, value, configuration) of the enumerated universe and complete scalar sweeps; distinct non-trivial = distinct (type, value) pairs and sweep blocks",
		Assumptions: []string{
			"encoding/json of go1.23.5 is the specification; cases where encoding/json itself panics are skipped",
			"time.Duration is the sanctioned difference (checked separately: quoted string)",
			"cyclic values belong to C06",
		},
	}
}

package c01

import (
	"bytes"
	stdjson "encoding/json"
	"fmt"
	"strings"

	"github.com/segmentio/encoding/json"
	"verif/mc/explore"
)

// ---- one Encoder reconfigured and reused: every history of setter calls and Encode calls

type encHistVal struct {
	H string             `json:"h<&>"`
	M map[string]any     `json:"m"`
	R stdjson.RawMessage `json:"r"`
	L []any              `json:"l"`
}

var encHistValues = []any{
	encHistVal{H: "<a&b> ", M: map[string]any{"z<": 1, "a>": "&"}, R: stdjson.RawMessage(`{ "x" : [ 1 , "<" ] }`), L: []any{"<", 1.5, nil}},
	map[string]any{"b": []any{}, "a": map[string]any{}, "<c>": "&"},
	"plain",
	[]string{"<", ">"},
	stdjson.RawMessage(` [ 1 , 2 ] `),
	failingValue{},
}

type failingValue struct{}

func (failingValue) MarshalJSON() ([]byte, error) { return nil, fmt.Errorf("cannot be encoded") }

// the calls both encoders understand
var encHistCalls = []struct {
	name string
	seg  func(*json.Encoder)
	std  func(*stdjson.Encoder)
}{
	{"SetEscapeHTML(false)", func(e *json.Encoder) { e.SetEscapeHTML(false) }, func(e *stdjson.Encoder) { e.SetEscapeHTML(false) }},
	{"SetEscapeHTML(true)", func(e *json.Encoder) { e.SetEscapeHTML(true) }, func(e *stdjson.Encoder) { e.SetEscapeHTML(true) }},
	{`SetIndent(">", "  ")`, func(e *json.Encoder) { e.SetIndent(">", "  ") }, func(e *stdjson.Encoder) { e.SetIndent(">", "  ") }},
	{`SetIndent("", "")`, func(e *json.Encoder) { e.SetIndent("", "") }, func(e *stdjson.Encoder) { e.SetIndent("", "") }},
	{`SetIndent("", "\t")`, func(e *json.Encoder) { e.SetIndent("", "\t") }, func(e *stdjson.Encoder) { e.SetIndent("", "\t") }},
}

func encoderHistories(c *explore.Ctx) {
	maxCalls := 3
	if c.Thorough() {
		maxCalls = 4
	}
	var seq []int
	for len(seq) < maxCalls {
		k := c.Choose(len(encHistCalls) + 1)
		if k == 0 {
			break
		}
		seq = append(seq, k-1)
	}
	var segBuf, stdBuf bytes.Buffer
	se, st := json.NewEncoder(&segBuf), stdjson.NewEncoder(&stdBuf)
	desc := ""
	// after every setter call every value is encoded once (so that a call also follows Encode calls, incl. failed ones)
	step := func() {
		for i, v := range encHistValues {
			segBuf.Reset()
			stdBuf.Reset()
			var e1, e2 error
			if pv, ps := explore.Catch(func() { e1 = se.Encode(v) }); pv != nil {
				c.Fail("encoder-history:panic:"+ps, "Encoder.Encode panicked after %s: %v", desc, pv)
				return
			}
			e2 = st.Encode(v)
			if (e1 != nil) != (e2 != nil) {
				c.Fail("encoder-history:error-differs", "after %s, Encode of value %d: error %v, encoding/json %v", desc, i, e1, e2)
			} else if e1 == nil && segBuf.String() != stdBuf.String() {
				c.Fail("encoder-history:bytes-differ:"+lastCall(desc), "after %s, Encode of value %d writes %.150q, encoding/json %.150q", desc, i, segBuf.String(), stdBuf.String())
			}
		}
	}
	step()
	for _, k := range seq {
		encHistCalls[k].seg(se)
		encHistCalls[k].std(st)
		desc += encHistCalls[k].name + "; "
		step()
	}
	c.NontrivialStr("enchist", desc)
	c.Outcome(fmt.Sprintf("calls=%d", len(seq)))
	if c.WantSample() || c.Failed() {
		c.Case(map[string]any{"setter_calls": desc, "values_encoded_after_each": len(encHistValues)})
	}
}

func lastCall(desc string) string {
	p := strings.Split(strings.TrimSuffix(desc, "; "), "; ")
	if len(p) >= 2 && p[len(p)-1] == p[len(p)-2] {
		return p[len(p)-1] + " twice"
	}
	return p[len(p)-1]
}

// Package c16: proto.MarshalTo honours the caller's buffer for every size (DESIGN.md §5 C16).
package c16

import (
	"bytes"
	"errors"
	"fmt"
	"io"
	"reflect"

	"github.com/segmentio/encoding/proto"
	"verif/mc/explore"
	"verif/mc/gen/pgen"
)

const guard = 64

// sweep runs MarshalTo for every destination length 0..Size+3 in two geometries.
func sweep(c *explore.Ctx, desc string, val any, hasMap bool, newTarget func() any, shape string) (size int, ok bool) {
	var ref []byte
	var err error
	if pv, _ := explore.Catch(func() { ref, err = proto.Marshal(val); size = proto.Size(val) }); pv != nil || err != nil {
		return 0, false // C03's business
	}
	if size != len(ref) {
		return size, false // C03's business
	}
	var refDecoded any
	if hasMap {
		refDecoded = newTarget()
		if proto.Unmarshal(ref, refDecoded) != nil {
			return size, false
		}
	}
	arena := make([]byte, guard+size+3+guard)
	for L := 0; L <= size+3; L++ {
		for geom := 0; geom < 2; geom++ {
			var b []byte
			if geom == 0 {
				b = make([]byte, L, L) // cap == len: an out-of-bounds write panics
			} else {
				for i := range arena {
					arena[i] = 0xA5
				}
				b = arena[guard : guard+L : guard+L+guard] // spare capacity behind len: a silent write is visible
			}
			var n int
			var err error
			pv, ps := explore.Catch(func() { n, err = proto.MarshalTo(b, val) })
			where := fmt.Sprintf("len(b)=%d (Size=%d, %s) for %s", L, size, []string{"cap==len", "cap=len+64"}[geom], desc)
			rel := "short"
			if L >= size {
				rel = "enough"
			}
			if pv != nil {
				c.Fail("MarshalTo:panic:"+rel+":"+ps+":"+explore.PanicClass(pv)+":"+shape, "MarshalTo panicked: %v with %s", pv, where)
				continue
			}
			if geom == 1 {
				for i := 0; i < guard; i++ {
					if arena[i] != 0xA5 {
						c.Fail("MarshalTo:write-before-buffer:"+shape, "byte %d before b modified with %s", i-guard, where)
						break
					}
				}
				for i := guard + L; i < len(arena); i++ {
					if arena[i] != 0xA5 {
						c.Fail("MarshalTo:write-beyond-len:"+rel+":"+shape, "byte at offset %d >= len(b) modified with %s", i-guard, where)
						break
					}
				}
			}
			if L < size {
				if err == nil {
					c.Fail("MarshalTo:short-buffer-no-error:"+shape, "nil error (n=%d) with %s", n, where)
				} else if !errors.Is(err, io.ErrShortBuffer) {
					c.Fail("MarshalTo:short-buffer-wrong-error:"+shape, "error %q is not io.ErrShortBuffer with %s", err, where)
				}
				continue
			}
			if err != nil {
				c.Fail("MarshalTo:error-with-enough-room:"+shape, "error %v with %s", err, where)
				continue
			}
			if n != size {
				c.Fail("MarshalTo:wrong-count:"+shape, "returned n=%d, Size=%d with %s", n, size, where)
				continue
			}
			if !hasMap {
				if !bytes.Equal(b[:n], ref) {
					c.Fail("MarshalTo:bytes-differ-from-Marshal:"+shape, "b[:n]=% x, Marshal=% x with %s", trunc(b[:n]), trunc(ref), where)
				}
			} else {
				got := newTarget()
				if err := proto.Unmarshal(b[:n], got); err != nil {
					c.Fail("MarshalTo:invalid-encoding:"+shape, "Unmarshal(b[:n]) failed: %v with %s", err, where)
				} else if same, why := pgen.EqualModNil(reflect.ValueOf(refDecoded).Elem(), reflect.ValueOf(got).Elem()); !same {
					c.Fail("MarshalTo:decodes-differently-from-Marshal:"+shape, "%s with %s", why, where)
				}
			}
		}
	}
	c.Inner(int64(2 * (size + 4)))
	return size, true
}

func trunc(b []byte) []byte {
	if len(b) > 40 {
		return b[:40]
	}
	return b
}

// shapeOf names the field shapes without numbers (signature localisation).
func shapeOf(m *pgen.Msg) string {
	s := ""
	for i, f := range m.Fields {
		if i > 0 {
			s += ";"
		}
		fs := f.String()
		for j := len(fs) - 1; j >= 0; j-- {
			if fs[j] == '#' {
				fs = fs[:j]
				break
			}
		}
		s += fs
	}
	if len(s) > 100 {
		s = s[:100]
	}
	return s
}

func typed(c *explore.Ctx) {
	m := pgen.EnumMsg(c, pgen.Options{MaxFields: 2, Thorough: c.Thorough(), NoHuge: false})
	v := pgen.EnumValue(c, m, false)
	ptr := v.Addr().Interface()
	size, ok := sweep(c, fmt.Sprintf("%s = %s", m, pgen.Describe(v)), ptr, m.HasMap(), func() any { return reflect.New(m.Type).Interface() }, shapeOf(m))
	c.NontrivialStr(m.String(), pgen.Describe(v))
	switch {
	case !ok:
		c.Outcome("skipped(C03)")
	case size == 0:
		c.Outcome("empty")
	default:
		c.Outcome(fmt.Sprintf("maps=%v fields=%d", m.HasMap(), len(m.Fields)))
	}
	if c.WantSample() || c.Failed() {
		c.Case(map[string]any{"type": m.String(), "value": pgen.Describe(v), "size": size, "destination_lengths": fmt.Sprintf("0..%d x 2 geometries", size+3)})
	}
}

var ladderShapes = pgen.LadderShapes()

func ladder(c *explore.Ctx) {
	sh := ladderShapes[c.Choose(len(ladderShapes))]
	lens := []int{0, 1, 2, 5, 120, 121, 122, 123, 124, 125, 126, 127, 128, 129, 130, 300}
	n := lens[c.Choose(len(lens))]
	v := sh.Make(n)
	size, ok := sweep(c, fmt.Sprintf("%s payload %d", sh.Name, n), v.Addr().Interface(), sh.Msg.HasMap(), func() any { return reflect.New(sh.Msg.Type).Interface() }, sh.Name)
	c.NontrivialStr("ladder", sh.Name, fmt.Sprint(n))
	c.Outcome(fmt.Sprintf("ok=%v big=%v", ok, size > 127))
	if c.WantSample() || c.Failed() {
		c.Case(map[string]any{"shape": sh.Name, "payload_len": n, "size": size})
	}
}

// toplevel: values that are themselves Message / custom implementations or scalars.
func toplevel(c *explore.Ctx) {
	data := [][]byte{nil, {}, {8, 1}, make([]byte, 127), make([]byte, 128), make([]byte, 300)}[c.Choose(6)]
	k := c.Choose(13)
	var val any
	var name string
	switch k {
	case 7:
		val, name = &pgen.GogoCustom{Data: data}, "*GogoCustom (gogoproto-style MarshalTo)"
	case 8:
		val, name = struct{ G *pgen.GogoCustom }{&pgen.GogoCustom{Data: data}}, "struct with a *GogoCustom field"
	case 9:
		val, name = pgen.LeafBox{P: &pgen.LeafPayload{Data: data}}, "LeafBox (pointer-shaped Message by value)"
	case 10:
		val, name = &pgen.LeafBox{P: &pgen.LeafPayload{Data: data}}, "*LeafBox"
	case 11:
		val, name = pgen.LeafBoxCustom{P: &pgen.LeafPayload{Data: data}}, "LeafBoxCustom (pointer-shaped custom message by value)"
	case 12:
		val, name = struct{ B pgen.LeafBox }{pgen.LeafBox{P: &pgen.LeafPayload{Data: data}}}, "struct with a LeafBox field, by value"
	case 0:
		val, name = proto.RawMessage(data), "RawMessage"
	case 1:
		r := proto.RawMessage(data)
		val, name = &r, "*RawMessage"
	case 2:
		val, name = pgen.LeafMsg{Data: data}, "LeafMsg"
	case 3:
		val, name = &pgen.LeafMsg{Data: data}, "*LeafMsg"
	case 4:
		val, name = pgen.LeafCustom{Data: data}, "LeafCustom"
	case 5:
		val, name = &pgen.LeafCustom{Data: data}, "*LeafCustom"
	case 6:
		type S struct {
			A string
			B float64
			C *float64
		}
		f := 1.5
		val, name = S{A: string(data), B: 2, C: &f}, "struct by value"
	}
	size, ok := sweep(c, fmt.Sprintf("top-level %s with %d bytes", name, len(data)), val, false, nil, "toplevel:"+name)
	c.NontrivialStr("top", name, fmt.Sprint(len(data), data == nil))
	c.Outcome(fmt.Sprintf("ok=%v", ok))
	c.Case(map[string]any{"toplevel": name, "payload": len(data), "size": size})
}

// toplevelScalars: MarshalTo of bare scalar values (by value and by pointer).
func toplevelScalars(c *explore.Ctx) {
	kinds := []pgen.Elem{{Kind: pgen.Bool}, {Kind: pgen.Int}, {Kind: pgen.Int32}, {Kind: pgen.Int64}, {Kind: pgen.Uint}, {Kind: pgen.Uint32}, {Kind: pgen.Uint64},
		{Kind: pgen.Float32}, {Kind: pgen.Float64}, {Kind: pgen.String}, {Kind: pgen.Bytes}, {Kind: pgen.ByteArray, N: 8}}
	e := kinds[c.Choose(len(kinds))]
	f := pgen.Field{Elem: e}
	dom := pgen.FieldDomain(&f, false)
	v := dom[c.Choose(len(dom))]
	byPtr := c.Bool()
	var val any = v.Interface()
	name := e.String()
	if byPtr {
		p := reflect.New(v.Type())
		p.Elem().Set(v)
		val = p.Interface()
		name = "*" + name
	}
	size, ok := sweep(c, fmt.Sprintf("top-level %s = %v", name, pgen.Describe(v)), val, false, nil, "toplevel:"+name)
	c.NontrivialStr("topscalar", name, pgen.Describe(v))
	c.Outcome(fmt.Sprintf("ok=%v empty=%v", ok, size == 0))
	if c.WantSample() || c.Failed() {
		c.Case(map[string]any{"toplevel": name, "value": pgen.Describe(v), "size": size})
	}
}

// Spec returns the C16 check.
func Spec() *explore.Spec {
	return &explore.Spec{
		ID: "C16",
		Families: []*explore.Family{
			{Name: "typed", ShardDepth: 2, Body: typed, Bound: func(string) int { return 1 },
				Doc: "message types of 1-2 fields from the C03 palette x numbering patterns x values with <=1 deviation x every destination length 0..Size+3 x {cap==len, cap=len+64 with guard bytes}"},
			{Name: "ladder", ShardDepth: 2, Body: ladder, Doc: "20 payload positions x payload lengths around the 1/2-byte length prefix boundary x every destination length"},
			{Name: "toplevel", ShardDepth: 2, Body: toplevel, Doc: "top-level Message / custom / RawMessage values (by value and by pointer) x every destination length"},
			{Name: "toplevel-scalars", ShardDepth: 2, Body: toplevelScalars, Doc: "bare scalar values of every kind (by value and by pointer) x boundary values x every destination length"},
		},
		Rule:        "every (type, value) x every destination length 0..Size+3 x 2 buffer geometries; distinct non-trivial = distinct (type, value) pairs",
		Assumptions: []string{"Size(v)==len(Marshal(v)) and round-trip correctness are C03's; cases where they fail are skipped here", "bytes of b between n and len(b) are not constrained by the statement"},
	}
}

// Package c13: thrift bytes follow the binary and compact protocol specifications (DESIGN.md §5 C13).
package c13

import (
	"bufio"
	"bytes"
	"fmt"
	"math"
	"reflect"
	"sort"
	"strings"
	"testing/iotest"

	"github.com/segmentio/encoding/thrift"
	"verif/mc/explore"
	"verif/mc/gen/pgen"
	"verif/mc/gen/tgen"
	"verif/mc/props/c04"
	spec "verif/mc/ref/thriftspec"
)

var protos = []spec.Protocol{spec.BinaryStrict, spec.BinaryNonStrict, spec.Compact}

func impl(p spec.Protocol) thrift.Protocol { return c04.Protocols[int(p)].P }

func trunc(b []byte) []byte {
	if len(b) > 40 {
		return b[:40]
	}
	return b
}

// canon sorts set items and map pairs by their binary encoding so that ASTs
// can be compared irrespective of map iteration order.
func canon(v spec.Val) spec.Val {
	for i := range v.Items {
		v.Items[i] = canon(v.Items[i])
	}
	for i := range v.Pairs {
		v.Pairs[i][0], v.Pairs[i][1] = canon(v.Pairs[i][0]), canon(v.Pairs[i][1])
	}
	for i := range v.Fields {
		v.Fields[i].V = canon(v.Fields[i].V)
	}
	key := func(x spec.Val) string { return string(spec.Encode(spec.BinaryStrict, nil, x, spec.Options{})) }
	if v.T == spec.Set {
		sort.Slice(v.Items, func(i, j int) bool { return key(v.Items[i]) < key(v.Items[j]) })
	}
	if v.T == spec.Map && len(v.Pairs) == 0 {
		v.Key, v.Value = spec.I8, spec.I8 // the compact encoding of an empty map does not carry the types
	}
	if v.T == spec.Map {
		sort.Slice(v.Pairs, func(i, j int) bool { return key(v.Pairs[i][0]) < key(v.Pairs[j][0]) })
	}
	return v
}

func sameAST(a, b spec.Val) bool {
	return bytes.Equal(spec.Encode(spec.BinaryStrict, nil, canon(a), spec.Options{}), spec.Encode(spec.BinaryStrict, nil, canon(b), spec.Options{})) &&
		bytes.Equal(spec.Encode(spec.Compact, nil, canon(a), spec.Options{}), spec.Encode(spec.Compact, nil, canon(b), spec.Options{}))
}

// firstDiff describes where two encodings diverge.
func firstDiff(got, want []byte) string {
	n := min(len(got), len(want))
	for i := 0; i < n; i++ {
		if got[i] != want[i] {
			return fmt.Sprintf("offset %d: got %#02x want %#02x", i, got[i], want[i])
		}
	}
	return fmt.Sprintf("length %d vs %d", len(got), len(want))
}

// fieldTypes lists the spec types occurring in an AST (for signatures).
func typesIn(v spec.Val, set map[string]bool) {
	set[v.T.String()] = true
	for _, x := range v.Items {
		typesIn(x, set)
	}
	for _, kv := range v.Pairs {
		typesIn(kv[0], set)
		typesIn(kv[1], set)
	}
	for _, f := range v.Fields {
		typesIn(f.V, set)
	}
}

func typeSet(v spec.Val) string {
	m := map[string]bool{}
	typesIn(v, m)
	var out []string
	for k := range m {
		if k != "STRUCT" {
			out = append(out, k)
		}
	}
	sort.Strings(out)
	return strings.Join(out, ",")
}

// ---- embedded structs: promoted fields are written under their own ids, exactly like the flat struct

var embFlatStruct = (&tgen.Struct{Fields: []tgen.Field{
	{ID: 1, Elem: tgen.Elem{Kind: tgen.Int32}}, {ID: 2, Elem: tgen.Elem{Kind: tgen.String}}, {ID: 3, Elem: tgen.Elem{Kind: tgen.Int64}},
	{ID: 4, Elem: tgen.Elem{Kind: tgen.Int32}, Wrap: tgen.ListOf}, {ID: 5, Elem: tgen.Elem{Kind: tgen.Int16}}, {ID: 6, Elem: tgen.Elem{Kind: tgen.Bytes}},
	{ID: 7, Elem: tgen.Elem{Kind: tgen.Int64}}, {ID: 8, Elem: tgen.Elem{Kind: tgen.Float64}}, {ID: 9, Elem: tgen.Elem{Kind: tgen.Int32}},
	{ID: 10, Elem: tgen.Elem{Kind: tgen.String}}, {ID: 11, Elem: tgen.Elem{Kind: tgen.Bool}}, {ID: 12, Elem: tgen.Elem{Kind: tgen.String}},
}}).Build()

func embeddedBytes(c *explore.Ctx) {
	p := protos[c.Choose(3)]
	sh := c04.EmbShapes[c.Choose(len(c04.EmbShapes))]
	pattern := c.Choose(13)
	flat := c04.FlatValue(pattern)
	v := sh.Mk()
	c04.SetByName(v, flat)
	fv := reflect.New(embFlatStruct.Type).Elem()
	src := reflect.ValueOf(flat)
	for i := 0; i < src.NumField(); i++ {
		fv.Field(i).Set(src.Field(i))
	}
	ast := tgen.ToAST(embFlatStruct, fv)
	want := spec.Encode(p, nil, ast, spec.Options{})
	desc := fmt.Sprintf("%s, value pattern %d, over %s", sh.Name, pattern, p)
	var got []byte
	var err error
	if pv, ps := explore.Catch(func() { got, err = thrift.Marshal(impl(p), v) }); pv != nil || err != nil {
		c.Fail("embedded:Marshal:"+ps, "Marshal fails (%v %v) for %s", pv, err, desc)
	} else if !bytes.Equal(got, want) {
		c.Fail("embedded:bytes-differ:"+p.String(), "Marshal % x, specification % x (%s) for %s", trunc(got), trunc(want), firstDiff(got, want), desc)
	}
	c.NontrivialStr("embedded", p.String(), sh.Name, fmt.Sprint(pattern))
	c.Outcome(fmt.Sprintf("%s all=%v", p, pattern == 0))
	c.Case(map[string]any{"protocol": p.String(), "shape": sh.Name, "pattern": pattern, "bytes": fmt.Sprintf("%x", trunc(got))})
}

// failsHalfWay cannot be encoded: the enum does not fit 32 bits, which the encoder finds after two fields.
type failsHalfWay struct {
	A int32  `thrift:"1"`
	S string `thrift:"2"`
	E int64  `thrift:"3,enum"`
}

func marshalBytes(c *explore.Ctx) {
	s := tgen.EnumStruct(c, tgen.Options{MaxFields: 2, Thorough: c.Thorough()})
	v := tgen.EnumValue(c, s)
	p := protos[c.Choose(3)]
	ast := tgen.ToAST(s, v)
	want := spec.Encode(p, nil, ast, spec.Options{})
	desc := fmt.Sprintf("%s = %s over %s", s, tgen.Describe(v), p)
	// model self-consistency: decode(encode(ast)) == ast
	if back, rest, err := spec.Decode(p, want, spec.Struct); err != nil || len(rest) != 0 || !sameAST(back, ast) {
		panic(fmt.Sprintf("spec model not self-consistent for %s: %v", desc, err))
	}
	c.Count("model_selfcheck", 1)
	var got []byte
	var err error
	// about every 4th case follows a Marshal call that fails after part of its value was written (with any protocol)
	if (len(want)+int(p))%4 == 0 { // a function of the case, so that a replay does the same
		explore.Catch(func() {
			thrift.Marshal(impl(protos[len(want)%3]), failsHalfWay{A: 7, S: "written before the failure", E: 1 << 40})
		})
		desc += " (after a Marshal call that failed half-way)"
	}
	if pv, ps := explore.Catch(func() { got, err = thrift.Marshal(impl(p), v.Interface()) }); pv != nil {
		c.Fail("Marshal:panic:"+ps, "Marshal panicked: %v for %s", pv, desc)
		return
	}
	if err != nil {
		c.Fail("Marshal:error", "Marshal failed: %v for %s", err, desc)
		return
	}
	if tgen.HasMultiEntryMap(v) {
		back, rest, derr := spec.Decode(p, got, spec.Struct)
		if derr != nil || len(rest) != 0 {
			c.Fail("Marshal:not-conformant:"+p.String()+":"+typeSet(ast), "Marshal bytes % x do not parse as %s per the specification (%v, %d trailing) for %s", trunc(got), p, derr, len(rest), desc)
		} else if !sameAST(back, ast) {
			c.Fail("Marshal:wrong-content:"+p.String()+":"+typeSet(ast), "Marshal bytes % x decode (per the specification) to different content for %s", trunc(got), desc)
		}
	} else if !bytes.Equal(got, want) {
		c.Fail("Marshal:bytes-differ:"+p.String()+":"+typeSet(ast), "Marshal % x, specification % x (%s) for %s", trunc(got), trunc(want), firstDiff(got, want), desc)
	}
	// the same bytes come out of an Encoder, fresh or previously bound to a writer of another protocol
	if !tgen.HasMultiEntryMap(v) {
		for _, prev := range protos {
			var buf, other bytes.Buffer
			var eerr error
			if pv, ps := explore.Catch(func() {
				e := thrift.NewEncoder(impl(prev).NewWriter(&other))
				e.Encode(v.Interface())
				e.Reset(impl(p).NewWriter(&buf))
				eerr = e.Encode(v.Interface())
			}); pv != nil {
				c.Fail("Encoder:panic:"+ps, "Encoder (Reset from %s) panicked: %v for %s", prev, pv, desc)
				continue
			}
			if eerr != nil || !bytes.Equal(buf.Bytes(), want) {
				c.Fail("Encoder:bytes-differ:after-Reset-from-"+prev.String()+":"+p.String(), "Encoder previously bound to a %s writer then Reset writes % x (err %v), specification % x (%s) for %s", prev, trunc(buf.Bytes()), eerr, trunc(want), firstDiff(buf.Bytes(), want), desc)
			}
		}
	}
	c.NontrivialStr(s.String(), tgen.Describe(v), p.String())
	c.Outcome(fmt.Sprintf("%s fields=%d", p, len(ast.Fields)))
	if c.WantSample() || c.Failed() {
		c.Case(map[string]any{"type": s.String(), "value": tgen.Describe(v), "protocol": p.String(), "specification_bytes": fmt.Sprintf("%x", trunc(want)), "marshal_bytes": fmt.Sprintf("%x", trunc(got))})
	}
}

// ---- Writer call sequences

type call struct {
	name  string
	do    func(w thrift.Writer) error
	model func(p spec.Protocol) []byte // nil => the call must fail
}

func enc(v spec.Val) func(p spec.Protocol) []byte {
	return func(p spec.Protocol) []byte { return spec.Encode(p, nil, v, spec.Options{}) }
}

func iv(t spec.T, i int64) spec.Val { return spec.Val{T: t, I: i} }

var specToImpl = map[spec.T]thrift.Type{spec.Bool: thrift.BOOL, spec.I8: thrift.I8, spec.I16: thrift.I16, spec.I32: thrift.I32, spec.I64: thrift.I64, spec.Double: thrift.DOUBLE,
	spec.Binary: thrift.BINARY, spec.List: thrift.LIST, spec.Set: thrift.SET, spec.Map: thrift.MAP, spec.Struct: thrift.STRUCT}

var allTypes = []spec.T{spec.Bool, spec.I8, spec.I16, spec.I32, spec.I64, spec.Double, spec.Binary, spec.List, spec.Set, spec.Map, spec.Struct}

func fieldHeader(p spec.Protocol, t spec.T, id int16, delta bool, boolVal bool) []byte {
	if p != spec.Compact {
		code := map[spec.T]byte{spec.Bool: 2, spec.I8: 3, spec.Double: 4, spec.I16: 6, spec.I32: 8, spec.I64: 10, spec.Binary: 11, spec.Struct: 12, spec.Map: 13, spec.Set: 14, spec.List: 15}[t]
		return []byte{code, byte(uint16(id) >> 8), byte(id)}
	}
	code := map[spec.T]byte{spec.Bool: 2, spec.I8: 3, spec.I16: 4, spec.I32: 5, spec.I64: 6, spec.Double: 7, spec.Binary: 8, spec.List: 9, spec.Set: 10, spec.Map: 11, spec.Struct: 12}[t]
	if t == spec.Bool && boolVal {
		code = 1
	}
	if delta {
		return []byte{byte(id)<<4 | code}
	}
	z := uint64(int64(id)<<1) ^ uint64(int64(id)>>63)
	b := []byte{code}
	for z >= 0x80 {
		b = append(b, byte(z)|0x80)
		z >>= 7
	}
	return append(b, byte(z))
}

func listHeader(p spec.Protocol, t spec.T, n int32) []byte {
	v := spec.Val{T: spec.List, Elem: t}
	full := spec.Encode(p, nil, spec.Val{T: spec.List, Elem: spec.I8, Items: make([]spec.Val, 0)}, spec.Options{})
	_ = full
	_ = v
	if p != spec.Compact {
		code := map[spec.T]byte{spec.Bool: 2, spec.I8: 3, spec.Double: 4, spec.I16: 6, spec.I32: 8, spec.I64: 10, spec.Binary: 11, spec.Struct: 12, spec.Map: 13, spec.Set: 14, spec.List: 15}[t]
		return []byte{code, byte(uint32(n) >> 24), byte(uint32(n) >> 16), byte(uint32(n) >> 8), byte(n)}
	}
	code := map[spec.T]byte{spec.Bool: 2, spec.I8: 3, spec.I16: 4, spec.I32: 5, spec.I64: 6, spec.Double: 7, spec.Binary: 8, spec.List: 9, spec.Set: 10, spec.Map: 11, spec.Struct: 12}[t]
	if n <= 14 {
		return []byte{byte(n)<<4 | code}
	}
	b := []byte{0xF0 | code}
	u := uint64(n)
	for u >= 0x80 {
		b = append(b, byte(u)|0x80)
		u >>= 7
	}
	return append(b, byte(u))
}

func mapHeader(p spec.Protocol, k, v spec.T, n int32) []byte {
	bin := map[spec.T]byte{spec.Bool: 2, spec.I8: 3, spec.Double: 4, spec.I16: 6, spec.I32: 8, spec.I64: 10, spec.Binary: 11, spec.Struct: 12, spec.Map: 13, spec.Set: 14, spec.List: 15}
	cmp := map[spec.T]byte{spec.Bool: 2, spec.I8: 3, spec.I16: 4, spec.I32: 5, spec.I64: 6, spec.Double: 7, spec.Binary: 8, spec.List: 9, spec.Set: 10, spec.Map: 11, spec.Struct: 12}
	if p != spec.Compact {
		return []byte{bin[k], bin[v], byte(uint32(n) >> 24), byte(uint32(n) >> 16), byte(uint32(n) >> 8), byte(n)}
	}
	if n == 0 {
		return []byte{0}
	}
	var b []byte
	u := uint64(n)
	for u >= 0x80 {
		b = append(b, byte(u)|0x80)
		u >>= 7
	}
	b = append(b, byte(u))
	return append(b, cmp[k]<<4|cmp[v])
}

var calls = func() []call {
	var cs []call
	add := func(name string, do func(w thrift.Writer) error, model func(p spec.Protocol) []byte) {
		cs = append(cs, call{name, do, model})
	}
	for _, b := range []bool{true, false} {
		b := b
		add(fmt.Sprintf("WriteBool(%v)", b), func(w thrift.Writer) error { return w.WriteBool(b) }, enc(spec.Val{T: spec.Bool, B: b}))
	}
	for _, x := range []int8{0, 1, -1, 127, -128} {
		x := x
		add(fmt.Sprintf("WriteInt8(%d)", x), func(w thrift.Writer) error { return w.WriteInt8(x) }, enc(iv(spec.I8, int64(x))))
	}
	for _, x := range []int16{0, 1, -1, 63, 64, -65, math.MaxInt16, math.MinInt16} {
		x := x
		add(fmt.Sprintf("WriteInt16(%d)", x), func(w thrift.Writer) error { return w.WriteInt16(x) }, enc(iv(spec.I16, int64(x))))
	}
	for _, x := range []int32{0, 1, -1, 8191, 8192, math.MaxInt32, math.MinInt32} {
		x := x
		add(fmt.Sprintf("WriteInt32(%d)", x), func(w thrift.Writer) error { return w.WriteInt32(x) }, enc(iv(spec.I32, int64(x))))
	}
	for _, x := range []int64{0, 1, -1, 1 << 34, math.MaxInt64, math.MinInt64} {
		x := x
		add(fmt.Sprintf("WriteInt64(%d)", x), func(w thrift.Writer) error { return w.WriteInt64(x) }, enc(iv(spec.I64, x)))
	}
	for _, x := range []float64{0, math.Copysign(0, -1), 1, -1.5, math.NaN(), math.Inf(1), math.Inf(-1), math.SmallestNonzeroFloat64, math.MaxFloat64} {
		x := x
		add(fmt.Sprintf("WriteFloat64(%v)", x), func(w thrift.Writer) error { return w.WriteFloat64(x) }, enc(spec.Val{T: spec.Double, F: x}))
	}
	for _, n := range []int{0, 1, 127, 128} {
		b := bytes.Repeat([]byte{'s'}, n)
		add(fmt.Sprintf("WriteBytes(len %d)", n), func(w thrift.Writer) error { return w.WriteBytes(b) }, enc(spec.Val{T: spec.Binary, S: b}))
		add(fmt.Sprintf("WriteString(len %d)", n), func(w thrift.Writer) error { return w.WriteString(string(b)) }, enc(spec.Val{T: spec.Binary, S: b}))
	}
	for _, n := range []int{0, 1, 127, 128, 16384, math.MaxInt32} {
		n := n
		add(fmt.Sprintf("WriteLength(%d)", n), func(w thrift.Writer) error { return w.WriteLength(n) }, func(p spec.Protocol) []byte {
			b := spec.Encode(p, nil, spec.Val{T: spec.Binary}, spec.Options{}) // empty binary = the length 0
			_ = b
			if p == spec.Compact {
				var o []byte
				u := uint64(n)
				for u >= 0x80 {
					o = append(o, byte(u)|0x80)
					u >>= 7
				}
				return append(o, byte(u))
			}
			return []byte{byte(uint32(n) >> 24), byte(uint32(n) >> 16), byte(uint32(n) >> 8), byte(n)}
		})
	}
	add("WriteLength(-1)", func(w thrift.Writer) error { return w.WriteLength(-1) }, func(spec.Protocol) []byte { return nil })
	for mt := 0; mt < 4; mt++ {
		for _, name := range []string{"", "m"} {
			for _, seq := range []int32{0, 1, 127, 128, math.MaxInt32, -1, math.MinInt32} {
				mt, name, seq := mt, name, seq
				add(fmt.Sprintf("WriteMessage(%s,%q,%d)", thrift.MessageType(mt), name, seq), func(w thrift.Writer) error {
					return w.WriteMessage(thrift.Message{Type: thrift.MessageType(mt), Name: name, SeqID: seq})
				}, func(p spec.Protocol) []byte {
					return spec.EncodeMessage(p, nil, spec.Message{Type: mt + 1, Name: name, SeqID: seq})
				})
			}
		}
	}
	for _, t := range allTypes {
		t := t
		for _, f := range []struct {
			id    int16
			delta bool
		}{{1, true}, {15, true}, {1, false}, {15, false}, {16, false}, {32767, false}} {
			f := f
			add(fmt.Sprintf("WriteField(%s,id=%d,delta=%v)", t, f.id, f.delta), func(w thrift.Writer) error {
				return w.WriteField(thrift.Field{ID: f.id, Type: specToImpl[t], Delta: f.delta})
			}, func(p spec.Protocol) []byte {
				if p != spec.Compact && f.delta {
					return fieldHeader(p, t, f.id, false, false) // binary has no delta form: the id is written as given
				}
				return fieldHeader(p, t, f.id, f.delta, false)
			})
		}
		for _, n := range []int32{0, 1, 14, 15, 16, 127, 128, math.MaxInt32} {
			n := n
			add(fmt.Sprintf("WriteList(%s,%d)", t, n), func(w thrift.Writer) error { return w.WriteList(thrift.List{Size: n, Type: specToImpl[t]}) },
				func(p spec.Protocol) []byte { return listHeader(p, t, n) })
		}
		add(fmt.Sprintf("WriteSet(%s,3)", t), func(w thrift.Writer) error { return w.WriteSet(thrift.Set{Size: 3, Type: specToImpl[t]}) },
			func(p spec.Protocol) []byte { return listHeader(p, t, 3) })
	}
	add("WriteField(TRUE,id=2,delta)", func(w thrift.Writer) error { return w.WriteField(thrift.Field{ID: 2, Type: thrift.TRUE, Delta: true}) },
		func(p spec.Protocol) []byte {
			if p != spec.Compact {
				return nil // not meaningful for the binary protocol
			}
			return fieldHeader(p, spec.Bool, 2, true, true)
		})
	add("WriteField(STOP)", func(w thrift.Writer) error { return w.WriteField(thrift.Field{Type: thrift.STOP}) }, func(spec.Protocol) []byte { return []byte{0} })
	for _, k := range []spec.T{spec.Binary, spec.I32, spec.Bool} {
		for _, v := range []spec.T{spec.I64, spec.Struct, spec.Bool, spec.List} {
			for _, n := range []int32{0, 1, 15, 128} {
				k, v, n := k, v, n
				add(fmt.Sprintf("WriteMap(%s,%s,%d)", k, v, n), func(w thrift.Writer) error {
					return w.WriteMap(thrift.Map{Size: n, Key: specToImpl[k], Value: specToImpl[v]})
				}, func(p spec.Protocol) []byte { return mapHeader(p, k, v, n) })
			}
		}
	}
	return cs
}()

// callClass groups calls for signatures.
func callClass(name string) string {
	if i := strings.IndexByte(name, '('); i > 0 {
		cls := name[:i]
		switch {
		case strings.HasPrefix(name, "WriteField(STOP"):
			return "WriteField(STOP)"
		case cls == "WriteField" || cls == "WriteList" || cls == "WriteSet":
			j := strings.IndexAny(name[i:], ",)")
			return name[:i+j] + ")"
		}
		return cls
	}
	return name
}

func writerCalls(c *explore.Ctx) {
	p := protos[c.Choose(3)]
	n := 1 + c.Choose(2)
	if c.Thorough() {
		n = 1 + c.Choose(3)
	}
	var seq []call
	for i := 0; i < n; i++ {
		if i == n-1 {
			seq = append(seq, calls[c.Choose(len(calls))])
		} else {
			// earlier calls come from a smaller spread subset (writers share scratch buffers)
			seq = append(seq, calls[(c.Choose(24)*17)%len(calls)])
		}
	}
	var buf bytes.Buffer
	w := impl(p).NewWriter(&buf)
	var want []byte
	names := ""
	for i, cl := range seq {
		names += cl.name + ";"
		before := buf.Len()
		var err error
		if pv, ps := explore.Catch(func() { err = cl.do(w) }); pv != nil {
			c.Fail("Writer:panic:"+ps, "%s panicked: %v (%s, after %s)", cl.name, pv, p, names)
			return
		}
		m := cl.model(p)
		if m == nil {
			if p != spec.Compact && strings.HasPrefix(cl.name, "WriteField(TRUE") {
				buf.Truncate(before) // unspecified for binary: ignore whatever was written
				continue
			}
			if err == nil {
				c.Fail("Writer:no-error:"+callClass(cl.name), "%s must fail but wrote % x (%s)", cl.name, buf.Bytes()[before:], p)
			}
			buf.Truncate(before)
			continue
		}
		if err != nil {
			c.Fail("Writer:error:"+p.String()+":"+callClass(cl.name), "%s failed: %v (%s)", cl.name, err, p)
			return
		}
		want = append(want[:0], m...)
		got := buf.Bytes()[before:]
		if !bytes.Equal(got, want) {
			pos := "first"
			if i > 0 {
				pos = "after " + callClass(seq[i-1].name)
			}
			sig := "Writer:bytes-differ:" + p.String() + ":" + callClass(cl.name)
			if i > 0 && bytes.Equal(mustWriteAlone(p, cl), want) {
				sig += ":only-" + pos // correct alone, wrong in sequence: shared scratch state
			}
			c.Fail(sig, "%s wrote % x, specification % x (%s; %s, %s)", cl.name, trunc(got), trunc(want), firstDiff(got, want), p, pos)
		}
	}
	c.NontrivialStr(p.String(), names)
	c.Outcome(fmt.Sprintf("%s calls=%d", p, n))
	if c.WantSample() || c.Failed() {
		c.Case(map[string]any{"protocol": p.String(), "calls": names, "bytes": fmt.Sprintf("%x", trunc(buf.Bytes()))})
	}
}

// plainWriter has nothing but Write (no WriteByte, no WriteString) and keeps a copy of what it is given.
type plainWriter struct{ b []byte }

func (w *plainWriter) Write(p []byte) (int, error) { w.b = append(w.b, p...); return len(p), nil }

// byteWriter implements io.ByteWriter and io.StringWriter without being one of the concrete types the writers know.
type byteWriter struct{ b []byte }

func (w *byteWriter) Write(p []byte) (int, error)       { w.b = append(w.b, p...); return len(p), nil }
func (w *byteWriter) WriteByte(c byte) error            { w.b = append(w.b, c); return nil }
func (w *byteWriter) WriteString(s string) (int, error) { w.b = append(w.b, s...); return len(s), nil }

// writerKinds: the Writers look at the concrete type of the io.Writer they are given (byte-wise writes,
// string writes); the bytes must not depend on it.
func writerKinds(c *explore.Ctx) {
	p := protos[c.Choose(3)]
	kind := c.Choose(3)
	first := calls[(c.Choose(12)*29)%len(calls)]
	cl := calls[c.Choose(len(calls))]
	var pw plainWriter
	var bw byteWriter
	var under bytes.Buffer
	bufw := bufio.NewWriterSize(&under, 16)
	var w thrift.Writer
	kindName := []string{"an io.Writer with nothing but Write", "an io.ByteWriter / io.StringWriter of another type", "a bufio.Writer of 16 bytes"}[kind]
	switch kind {
	case 0:
		w = impl(p).NewWriter(&pw)
	case 1:
		w = impl(p).NewWriter(&bw)
	case 2:
		w = impl(p).NewWriter(bufw)
	}
	var want []byte
	for _, x := range []call{first, cl} {
		m := x.model(p)
		if m == nil {
			c.Outcome("unspecified-call")
			return
		}
		want = append(want, m...)
		var err error
		if pv, ps := explore.Catch(func() { err = x.do(w) }); pv != nil {
			c.Fail("Writer:panic:"+ps, "%s on %s panicked: %v (%s)", x.name, kindName, pv, p)
			return
		}
		if err != nil {
			c.Fail("Writer:error:"+p.String()+":"+callClass(x.name), "%s on %s failed: %v (%s)", x.name, kindName, err, p)
			return
		}
	}
	var got []byte
	switch kind {
	case 0:
		got = pw.b
	case 1:
		got = bw.b
	case 2:
		bufw.Flush()
		got = under.Bytes()
	}
	if !bytes.Equal(got, want) {
		c.Fail("Writer:bytes-differ:"+p.String()+":"+callClass(cl.name)+":writer-kind", "%s; %s on %s wrote % x, specification % x (%s; %s)", first.name, cl.name, kindName, trunc(got), trunc(want), firstDiff(got, want), p)
	}
	c.NontrivialStr(p.String(), kindName, first.name, cl.name)
	c.Outcome(fmt.Sprintf("%s kind=%d", p, kind))
	if c.WantSample() || c.Failed() {
		c.Case(map[string]any{"protocol": p.String(), "writer": kindName, "calls": first.name + ";" + cl.name, "bytes": fmt.Sprintf("%x", trunc(got))})
	}
}

func mustWriteAlone(p spec.Protocol, cl call) []byte {
	var buf bytes.Buffer
	w := impl(p).NewWriter(&buf)
	if pv, _ := explore.Catch(func() { cl.do(w) }); pv != nil {
		return nil
	}
	return buf.Bytes()
}

// ---- alternative conformant encodings are accepted

func permutations(n int) [][]int {
	if n > 3 {
		n = 3
	}
	var out [][]int
	var rec func(cur []int, used int)
	rec = func(cur []int, used int) {
		if len(cur) == n {
			out = append(out, append([]int{}, cur...))
			return
		}
		for i := 0; i < n; i++ {
			if used&(1<<i) == 0 {
				rec(append(cur, i), used|1<<i)
			}
		}
	}
	rec(nil, 0)
	return out
}

func altEncodings(c *explore.Ctx) {
	pgen.FloatsByValue = true
	s := tgen.EnumStruct(c, tgen.Options{MaxFields: 3, Thorough: c.Thorough()})
	v := tgen.EnumValue(c, s)
	p := protos[c.Choose(3)]
	ast := tgen.ToAST(s, v)
	desc := fmt.Sprintf("%s = %s over %s", s, tgen.Describe(v), p)
	// expected value: what the implementation decodes from the canonical specification bytes must equal v; then every alternative must decode to the same
	type alt struct {
		name string
		b    []byte
	}
	var alts []alt
	optsList := []struct {
		name string
		o    spec.Options
	}{{"canonical", spec.Options{}}}
	if p == spec.Compact {
		optsList = append(optsList,
			struct {
				name string
				o    spec.Options
			}{"long-field-headers", spec.Options{LongFieldHeaders: true}},
			struct {
				name string
				o    spec.Options
			}{"long-list-headers", spec.Options{LongListHeaders: true}},
			struct {
				name string
				o    spec.Options
			}{"padded-varints", spec.Options{PadVarints: true}},
			struct {
				name string
				o    spec.Options
			}{"bool-elem-type-1", spec.Options{BoolElemType1: true}},
			struct {
				name string
				o    spec.Options
			}{"bool-elem-false-as-2", spec.Options{BoolElemFalse2: true}},
			struct {
				name string
				o    spec.Options
			}{"long-headers+padded", spec.Options{LongFieldHeaders: true, LongListHeaders: true, PadVarints: true}},
		)
	}
	for _, ol := range optsList {
		for pi, perm := range permutations(len(ast.Fields)) {
			a := ast
			a.Fields = nil
			for _, i := range perm {
				a.Fields = append(a.Fields, ast.Fields[i])
			}
			name := ol.name
			if pi > 0 {
				name += "+reordered"
			}
			alts = append(alts, alt{name, spec.Encode(p, nil, a, ol.o)})
		}
	}
	for ai, a := range alts {
		out := reflect.New(s.Type)
		var err error
		if pv, ps := explore.Catch(func() { err = thrift.Unmarshal(impl(p), a.b, out.Interface()) }); pv != nil {
			c.Fail("Unmarshal:panic:"+ps+":"+explore.PanicClass(pv), "Unmarshal panicked: %v on %s encoding % x of %s", pv, a.name, trunc(a.b), desc)
			continue
		}
		if err != nil {
			c.Fail("Unmarshal:rejects-conformant:"+p.String()+":"+a.name+":"+typeSet(ast), "Unmarshal rejects the %s encoding % x of %s: %v", a.name, trunc(a.b), desc, err)
			continue
		}
		if ds := pgen.Diffs(v, out.Elem()); len(ds) > 0 {
			c.Fail("Unmarshal:wrong-value:"+p.String()+":"+a.name+":"+typeSet(ast), "Unmarshal of the %s encoding % x of %s differs at %s: %s", a.name, trunc(a.b), desc, ds[0].Path, ds[0].Why)
		}
		// a conformant encoding is no type mismatch: a strict Decoder accepts it too
		{
			st := reflect.New(s.Type)
			var serr error
			d := thrift.NewDecoder(impl(p).NewReader(bytes.NewReader(a.b)))
			d.SetStrict(true)
			if pv, ps := explore.Catch(func() { serr = d.Decode(st.Interface()) }); pv != nil {
				c.Fail("Decoder:panic:"+ps+":"+explore.PanicClass(pv), "strict Decoder panicked: %v on %s encoding % x of %s", pv, a.name, trunc(a.b), desc)
			} else if serr != nil {
				c.Fail("Decoder:strict-rejects-conformant:"+p.String()+":"+a.name+":"+typeSet(ast), "a strict Decoder rejects the %s encoding % x of %s: %v", a.name, trunc(a.b), desc, serr)
			} else if ds := pgen.Diffs(v, st.Elem()); len(ds) > 0 {
				c.Fail("Decoder:strict-wrong-value:"+p.String()+":"+a.name+":"+typeSet(ast), "a strict Decoder decodes the %s encoding % x of %s differently at %s: %s", a.name, trunc(a.b), desc, ds[0].Path, ds[0].Why)
			}
		}
		// the same bytes through a Decoder on a bufio.Reader with a small buffer, fed in small packets: a
		// fixed-width value then straddles what is buffered (the first two encodings of each case)
		if ai < 2 {
			alt := reflect.New(s.Type)
			var aerr error
			rd := bufio.NewReaderSize(iotest.HalfReader(bytes.NewReader(a.b)), 16)
			if pv, ps := explore.Catch(func() { aerr = thrift.NewDecoder(impl(p).NewReader(rd)).Decode(alt.Interface()) }); pv != nil {
				c.Fail("Decoder:panic:"+ps+":"+explore.PanicClass(pv), "Decoder over a small bufio.Reader panicked: %v on %s encoding % x of %s", pv, a.name, trunc(a.b), desc)
			} else if aerr != nil {
				c.Fail("Decoder:rejects-conformant:bufio:"+p.String()+":"+typeSet(ast), "a Decoder over a 16-byte bufio.Reader fed in small packets rejects the %s encoding % x of %s: %v", a.name, trunc(a.b), desc, aerr)
			} else if ds := pgen.Diffs(v, alt.Elem()); len(ds) > 0 {
				c.Fail("Decoder:wrong-value:bufio:"+p.String()+":"+typeSet(ast), "a Decoder over a 16-byte bufio.Reader fed in small packets decodes the %s encoding % x of %s differently at %s: %s", a.name, trunc(a.b), desc, ds[0].Path, ds[0].Why)
			}
		}
	}
	c.Inner(int64(len(alts)))
	c.NontrivialStr("alt", s.String(), tgen.Describe(v), p.String())
	c.Outcome(fmt.Sprintf("%s alts=%d", p, min(len(alts), 7)))
	if c.WantSample() || c.Failed() {
		c.Case(map[string]any{"type": s.String(), "value": tgen.Describe(v), "protocol": p.String(), "alternative_encodings": len(alts)})
	}
}

// ---- Reader methods on specification-encoded headers

func readers(c *explore.Ctx) {
	p := protos[c.Choose(3)]
	kind := c.Choose(4)
	rd := func(b []byte) thrift.Reader { return impl(p).NewReader(bytes.NewReader(b)) }
	switch kind {
	case 0: // messages
		mt := c.Choose(4)
		name := []string{"", "m", "method_name"}[c.Choose(3)]
		seq := []int32{0, 1, 127, 128, 16384, math.MaxInt32, -1, math.MinInt32}[c.Choose(8)]
		b := spec.EncodeMessage(p, nil, spec.Message{Type: mt + 1, Name: name, SeqID: seq})
		var m thrift.Message
		var err error
		if pv, ps := explore.Catch(func() { m, err = rd(b).ReadMessage() }); pv != nil {
			c.Fail("ReadMessage:panic:"+ps, "ReadMessage(% x) panicked: %v", b, pv)
		} else if err != nil {
			c.Fail("ReadMessage:rejects:"+p.String(), "ReadMessage(% x) [%s, type %d, name %q, seq %d] fails: %v", b, p, mt+1, name, seq, err)
		} else if int(m.Type) != mt || m.Name != name || m.SeqID != seq {
			c.Fail("ReadMessage:wrong:"+p.String(), "ReadMessage(% x) = %+v, want type %s name %q seq %d (%s)", b, m, thrift.MessageType(mt), name, seq, p)
		}
		c.NontrivialStr("msg", p.String(), fmt.Sprint(mt, name, seq))
	case 1: // field headers
		t := allTypes[c.Choose(len(allTypes))]
		f := []struct {
			id    int16
			delta bool
		}{{1, true}, {15, true}, {1, false}, {15, false}, {16, false}, {32767, false}, {-1, false}}[c.Choose(7)]
		if p != spec.Compact {
			f.delta = false
		}
		b := fieldHeader(p, t, f.id, f.delta, true)
		var got thrift.Field
		var err error
		if pv, ps := explore.Catch(func() { got, err = rd(b).ReadField() }); pv != nil {
			c.Fail("ReadField:panic:"+ps, "ReadField(% x) panicked: %v", b, pv)
		} else if err != nil {
			c.Fail("ReadField:rejects:"+p.String()+":"+t.String(), "ReadField(% x) fails: %v (%s, %s id %d delta %v)", b, err, p, t, f.id, f.delta)
		} else {
			wantT := specToImpl[t]
			okType := got.Type == wantT || (t == spec.Bool && p == spec.Compact && got.Type == thrift.TRUE)
			if !okType || got.ID != f.id || got.Delta != f.delta {
				c.Fail("ReadField:wrong:"+p.String()+":"+t.String(), "ReadField(% x) = %+v, want %s id %d delta %v (%s)", b, got, t, f.id, f.delta, p)
			}
		}
		c.NontrivialStr("field", p.String(), t.String(), fmt.Sprint(f))
	case 2: // list / set headers
		t := allTypes[c.Choose(len(allTypes))]
		n := []int32{0, 1, 14, 15, 16, 128, math.MaxInt32}[c.Choose(7)]
		long := c.Bool()
		b := listHeader(p, t, n)
		if long && p == spec.Compact && n <= 14 {
			b = spec.Encode(p, nil, spec.Val{T: spec.List, Elem: t, Items: make([]spec.Val, 0)}, spec.Options{LongListHeaders: true})
			n = 0
		}
		var got thrift.List
		var err error
		if pv, ps := explore.Catch(func() { got, err = rd(b).ReadList() }); pv != nil {
			c.Fail("ReadList:panic:"+ps, "ReadList(% x) panicked: %v", b, pv)
		} else if err != nil {
			c.Fail("ReadList:rejects:"+p.String()+":"+t.String(), "ReadList(% x) fails: %v (%s)", b, err, p)
		} else if got.Size != n || (got.Type != specToImpl[t] && !(t == spec.Bool && got.Type == thrift.TRUE)) {
			c.Fail("ReadList:wrong:"+p.String()+":"+t.String(), "ReadList(% x) = %+v, want %s x %d (%s)", b, got, t, n, p)
		}
		c.NontrivialStr("list", p.String(), t.String(), fmt.Sprint(n, long))
	case 3: // map headers
		k := []spec.T{spec.Binary, spec.I32, spec.I8}[c.Choose(3)]
		v := []spec.T{spec.I64, spec.Struct, spec.Double, spec.List, spec.Map, spec.Set, spec.I16}[c.Choose(7)]
		n := []int32{0, 1, 15, 128}[c.Choose(4)]
		b := mapHeader(p, k, v, n)
		var got thrift.Map
		var err error
		if pv, ps := explore.Catch(func() { got, err = rd(b).ReadMap() }); pv != nil {
			c.Fail("ReadMap:panic:"+ps, "ReadMap(% x) panicked: %v", b, pv)
		} else if err != nil {
			c.Fail("ReadMap:rejects:"+p.String(), "ReadMap(% x) fails: %v (%s)", b, err, p)
		} else if got.Size != n || (n > 0 || p != spec.Compact) && (got.Key != specToImpl[k] || got.Value != specToImpl[v]) {
			c.Fail("ReadMap:wrong:"+p.String()+":"+k.String()+","+v.String(), "ReadMap(% x) = %+v, want %s->%s x %d (%s)", b, got, k, v, n, p)
		}
		c.NontrivialStr("map", p.String(), k.String(), v.String(), fmt.Sprint(n))
	}
	c.Outcome(fmt.Sprintf("%s kind=%d", p, kind))
	c.Case(map[string]any{"protocol": p.String(), "reader_kind": []string{"ReadMessage", "ReadField", "ReadList", "ReadMap"}[kind]})
}

// golden constants transcribed from the specification texts pin the model itself.
func golden(c *explore.Ctx) {
	k := c.Choose(6)
	check := func(name string, got, want []byte) {
		if !bytes.Equal(got, want) {
			panic(fmt.Sprintf("thriftspec model disagrees with the specification's worked example %s: % x vs % x", name, got, want))
		}
	}
	switch k {
	case 0: // compact: zig-zag + ULEB128 example from the spec: 50399 -> 0xDF 0x89 0x03 as varint; zigzag(-1)=1, zigzag(1)=2
		check("zigzag(-1)", spec.Encode(spec.Compact, nil, iv(spec.I32, -1), spec.Options{}), []byte{0x01})
		check("zigzag(1)", spec.Encode(spec.Compact, nil, iv(spec.I32, 1), spec.Options{}), []byte{0x02})
		check("uleb(50399)", spec.Encode(spec.Compact, nil, spec.Val{T: spec.Binary, S: make([]byte, 0)}, spec.Options{})[:1], []byte{0x00})
	case 1: // binary: strict message header 0x8001, type in the 4th byte
		check("binary strict header", spec.EncodeMessage(spec.BinaryStrict, nil, spec.Message{Type: 1, Name: "a", SeqID: 2}), []byte{0x80, 0x01, 0x00, 0x01, 0, 0, 0, 1, 'a', 0, 0, 0, 2})
	case 2: // compact message: protocol id 0x82, (type<<5)|version 1
		check("compact header", spec.EncodeMessage(spec.Compact, nil, spec.Message{Type: 2, Name: "a", SeqID: 3}), []byte{0x82, 0x41, 0x03, 0x01, 'a'})
	case 3: // binary struct: field type codes from the spec table, stop = 0
		v := spec.Val{T: spec.Struct, Fields: []spec.Field{{ID: 1, V: iv(spec.I32, 5)}, {ID: 2, V: spec.Val{T: spec.Binary, S: []byte("x")}}}}
		check("binary struct", spec.Encode(spec.BinaryStrict, nil, v, spec.Options{}), []byte{8, 0, 1, 0, 0, 0, 5, 11, 0, 2, 0, 0, 0, 1, 'x', 0})
	case 4: // compact struct: delta short form, bool folded
		v := spec.Val{T: spec.Struct, Fields: []spec.Field{{ID: 1, V: spec.Val{T: spec.Bool, B: true}}, {ID: 20, V: iv(spec.I64, -2)}}}
		check("compact struct", spec.Encode(spec.Compact, nil, v, spec.Options{}), []byte{0x11, 0x06, 0x28, 0x03, 0x00})
	case 5: // compact double little endian; list short form; empty map
		check("compact double", spec.Encode(spec.Compact, nil, spec.Val{T: spec.Double, F: 1}, spec.Options{}), []byte{0, 0, 0, 0, 0, 0, 0xf0, 0x3f})
		check("compact list", spec.Encode(spec.Compact, nil, spec.Val{T: spec.List, Elem: spec.I32, Items: []spec.Val{iv(spec.I32, 1)}}, spec.Options{}), []byte{0x15, 0x02})
		check("compact empty map", spec.Encode(spec.Compact, nil, spec.Val{T: spec.Map, Key: spec.I32, Value: spec.I32}, spec.Options{}), []byte{0x00})
	}
	c.Nontrivial(uint64(k))
	c.Outcome("golden")
	c.Case(map[string]any{"golden_vector": k})
}

// Spec returns the C13 check.
func Spec() *explore.Spec {
	return &explore.Spec{
		ID: "C13",
		Families: []*explore.Family{
			{Name: "golden", Body: golden, Doc: "worked examples and constants transcribed from the specifications pin the reference model"},
			{Name: "embedded-bytes", ShardDepth: 2, Body: embeddedBytes, Doc: "struct types whose fields are promoted through up to 5 levels of embedding (3 shapes) x 13 value patterns x 3 protocols: Marshal bytes equal the specification's encoding of the flat field list"},
			{Name: "marshal-bytes", ShardDepth: 2, Body: marshalBytes, Bound: func(string) int { return 1 }, Doc: "struct types (1-2 fields, C04 palette) x id layouts x values x 3 protocols: Marshal bytes equal the specification model's bytes (decoded content for multi-entry maps/sets); about every 4th call follows a Marshal call that failed after part of its value had been written"},
			{Name: "writer-kinds", ShardDepth: 2, Body: writerKinds, Doc: "every Writer call of the alphabet (after one of 12 earlier calls) x 3 protocols on three other kinds of io.Writer than bytes.Buffer (nothing but Write; an io.ByteWriter / io.StringWriter of an unknown type; a 16-byte bufio.Writer): the bytes that reach the writer equal the specification model's"},
			{Name: "writer-calls", ShardDepth: 2, Body: writerCalls, Doc: "every sequence of up to 2 (3 thorough) Writer calls over an alphabet of ~330 calls with boundary arguments x 3 protocols, byte-for-byte against the model"},
			{Name: "alt-encodings", ShardDepth: 2, Body: altEncodings, Bound: func(string) int { return 1 }, Doc: "every conformant alternative encoding (field order permutations; compact: long field headers, long list headers, non-minimal varints, bool element type 1, combined) is accepted by Unmarshal, by a strict Decoder, and by a Decoder over a 16-byte bufio.Reader fed in small packets, with the same value"},
			{Name: "readers", ShardDepth: 2, Body: readers, Doc: "ReadMessage / ReadField / ReadList / ReadMap on specification-encoded headers incl. long forms"},
		},
		Rule: "every (type, layout, value, protocol) and every call sequence within the bounds; the model's encoder/decoder are checked inverse on every struct explored (model_selfcheck counter)",
		Assumptions: []string{
			"thriftspec is a model written from thrift-binary-protocol.md and thrift-compact-protocol.md; golden vectors transcribed from those texts pin it; no reference implementation is available offline",
			"message types on the wire are Call=1, Reply=2, Exception=3, Oneway=4; negative sequence ids are not generated",
			"bool elements inside containers are compared as written by the implementation only through decode (1/0), the contested forms are never fed to the Readers",
		},
	}
}

package c09

import (
	"bytes"
	"fmt"
	"os"
	"os/exec"
	"regexp"
	"runtime"
	"strconv"
	"strings"
	realsync "sync"

	"verif/mc/explore"
)

// The free-running race pass (DESIGN.md §3.5): the same driver bodies, built with -race and WITHOUT
// the overlay, each run in a fresh process so that every call is a genuine first use. It samples
// schedules (auxiliary evidence); the exhaustive search above cannot see unsynchronised memory because
// the cooperative scheduler's hand-offs are happens-before edges.

var procsList = []int{1, 2, 4, 16}

const (
	exitRace     = 66
	exitMismatch = 67
)

// RaceChild runs one driver free-running; it is the entry point of `c09 --race-child driver procs rounds`.
func RaceChild(args []string) {
	procs, _ := strconv.Atoi(args[1])
	rounds, _ := strconv.Atoi(args[2])
	runtime.GOMAXPROCS(procs)
	var d *driver
	for _, x := range drivers() {
		if x.name == args[0] {
			x := x
			d = &x
		}
	}
	if d == nil {
		fmt.Fprintln(os.Stderr, "unknown driver", args[0])
		os.Exit(2)
	}
	for r := 0; r < rounds; r++ {
		calls := d.calls()
		got := make([][]func() string, len(calls))
		at := make([][]string, len(calls))
		start := make(chan struct{})
		var wg realsync.WaitGroup
		for i := range calls {
			i := i
			got[i] = make([]func() string, len(calls[i]))
			at[i] = make([]string, len(calls[i]))
			wg.Add(1)
			go func() {
				defer wg.Done()
				<-start
				for k, cl := range calls[i] {
					got[i][k] = cl.run()
					at[i][k] = got[i][k]()
				}
			}()
		}
		close(start)
		wg.Wait()
		// each result equals the result of the same call made alone afterwards, and has not changed
		for i := range calls {
			for k, cl := range calls[i] {
				alone := cl.run()()
				if at[i][k] != alone || got[i][k]() != alone {
					fmt.Fprintf(os.Stderr, "MISMATCH %s: concurrent %.200q later %.200q alone %.200q\n", cl.name, at[i][k], got[i][k](), alone)
					os.Exit(exitMismatch)
				}
			}
		}
	}
}

var raceFrame = regexp.MustCompile(`(?m)^  (github\.com/segmentio/encoding/\S+)\(`)

func raceBody(c *explore.Ctx) {
	ds := drivers()
	d := ds[c.Choose(len(ds))]
	procs := procsList[c.Choose(len(procsList))]
	attempts := 16
	if c.Thorough() {
		attempts = 200
	}
	attempt := c.Choose(attempts)
	if !raceEnabled {
		panic("race-pass must run in the -race build")
	}
	cmd := exec.Command(os.Args[0], "--race-child", d.name, strconv.Itoa(procs), "3")
	cmd.Env = append(os.Environ(), "GORACE=exitcode=66 halt_on_error=1 atexit_sleep_ms=0")
	var stderr bytes.Buffer
	cmd.Stderr = &stderr
	err := cmd.Run()
	code := 0
	if err != nil {
		code = -1
		if ee, ok := err.(*exec.ExitError); ok {
			code = ee.ExitCode()
		}
	}
	switch {
	case code == exitRace:
		fr := raceFrame.FindAllStringSubmatch(stderr.String(), 4)
		var fns []string
		for _, f := range fr {
			fns = append(fns, strings.TrimPrefix(f[1], "github.com/segmentio/encoding/"))
		}
		sig := "?"
		if len(fns) > 0 {
			sig = fns[0]
		}
		c.Fail("data-race:"+sig, "the race detector reports a data race in driver %s at GOMAXPROCS=%d (frames: %v):\n%.1500s", d.name, procs, fns, stderr.String())
	case code == exitMismatch:
		c.Fail("free-running-result-differs:"+d.name, "driver %s at GOMAXPROCS=%d: %.600s", d.name, procs, stderr.String())
	case code != 0:
		c.Fail("free-running-crash:"+d.name, "driver %s at GOMAXPROCS=%d: child exits with %d: %.1500s", d.name, procs, code, stderr.String())
	}
	c.NontrivialStr(d.name, fmt.Sprint(procs, attempt))
	c.Outcome(fmt.Sprintf("exit=%d", code))
	c.Case(map[string]any{"driver": d.name, "gomaxprocs": procs, "attempt": attempt, "rounds": 3, "exit": code})
}

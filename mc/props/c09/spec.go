package c09

import (
	"os"
	"strconv"

	"verif/mc/explore"
)

// schedBody is provided by the verifshim build (c09.go); the -race build only runs the race-pass family.
var schedBody = func(d driver) func(c *explore.Ctx) {
	return func(c *explore.Ctx) { panic("scheduler families need the verifshim overlay build") }
}

// Spec returns the C09 check.
func Spec() *explore.Spec {
	sp := &explore.Spec{
		ID:   "C09",
		Rule: "every schedule of the driver's threads within the deviation bound (preemptions + pool misses); distinct non-trivial = distinct orders of cache stores and pool gets",
		Assumptions: []string{
			"scheduling points are the sync / sync/atomic operations of the repository (import-rewritten by go build -overlay from the current working tree): before every operation, after every store and pool Put",
			"memory not reached through those operations is covered by the separate free-running -race pass (auxiliary, sampled), not by the exhaustive search",
			"pools are modelled as LIFO lists whose Get may miss at the cost of one deviation",
		},
	}
	for _, d := range drivers() {
		d := d
		sp.Families = append(sp.Families, &explore.Family{
			Name:        d.name,
			ShardDepth:  4,
			HangSeconds: 60, // an execution takes microseconds: a worker that stands still that long is blocked for good
			Bound: func(tier string) int {
				if b := os.Getenv("VERIF_C09_BOUND"); b != "" {
					n, _ := strconv.Atoi(b)
					return n
				}
				b := d.quick
				if tier == "thorough" {
					b = d.thorough
				}
				if b >= 99 {
					return -1
				}
				return b
			},
			Budget: func(tier string) int {
				if tier == "thorough" {
					return 1200
				}
				return 0
			},
			Body: schedBody(d),
			Doc:  "3 threads, 1-2 first-use calls each, all caches and pools reset before every execution",
		})
	}
	sp.Families = append(sp.Families, &explore.Family{
		Name:       "race-pass",
		Variants:   []string{"race"},
		ShardDepth: 2,
		MaxWorkers: 14,
		Body:       raceBody,
		Doc:        "auxiliary, sampled: the same driver bodies built with -race and without the overlay, one fresh process per (driver, GOMAXPROCS in {1,2,4,16}, attempt), 3 rounds each; a race report, a crash or a result that differs from the call made alone fails C09",
	})
	return sp
}

// Package c09: all packages are safe and deterministic under concurrent first use (DESIGN.md §3, §5 C09).
package c09

import (
	"bytes"
	stdjson "encoding/json"
	"fmt"
	"reflect"
	"runtime"
	"strings"
	realsync "sync"

	"github.com/segmentio/encoding/json"
	"github.com/segmentio/encoding/proto"
	"github.com/segmentio/encoding/thrift"
)

// ---- types used by the drivers (fresh in every execution because all caches are reset)

type jA struct {
	X    int    `json:"x"`
	Next *jA    `json:"next,omitempty"`
	S    string `json:"s"`
}

type jB struct {
	M map[string]int `json:"m"`
	L []jA           `json:"l"`
	F float64        `json:"f"`
}

type jWide struct {
	Alpha, Beta, Gamma, Delta, Epsilon, Zeta, Eta, Theta int
	Name                                                 string `json:"name"`
	Inner                                                *jA    `json:"inner"`
}

type jC struct {
	Name string         `json:"name"`
	Any  map[string]any `json:"any"`
}

type pInner struct {
	A int32  `protobuf:"varint,1,opt,name=a"`
	B string `protobuf:"bytes,2,opt,name=b"`
}

type pM struct {
	ID    int64            `protobuf:"varint,1,opt,name=id"`
	Name  string           `protobuf:"bytes,2,opt,name=name"`
	In    *pInner          `protobuf:"bytes,3,opt,name=in"`
	Map   map[string]int32 `protobuf:"bytes,4,rep,name=map"`
	Items []pInner         `protobuf:"bytes,5,rep,name=items"`
}

type pN struct {
	V    uint32           `protobuf:"varint,1,opt,name=v"`
	Next *pN              `protobuf:"bytes,2,opt,name=next"`
	Tags map[int32]string `protobuf:"bytes,3,rep,name=tags"`
}

type tS struct {
	A int32            `thrift:"1"`
	B string           `thrift:"2"`
	L []int64          `thrift:"3"`
	M map[string]int32 `thrift:"4"`
}

// wide field-id span with a required field (the decoder tracks seen required fields per call)
type tW struct {
	A int32  `thrift:"1,required"`
	B string `thrift:"100,required"`
	C []tS   `thrift:"70"`
}

// tRW: recursive, with fields declared after (and ids below and above) the self-reference
type tRW struct {
	V    int64   `thrift:"3"`
	Next *tRW    `thrift:"2"`
	Tail string  `thrift:"5"`
	Last []int32 `thrift:"1"`
}

type tR struct {
	V    int64 `thrift:"1"`
	Next *tR   `thrift:"2"`
}

// ---- values with methods of their own: the library calls back into user code, which may take any
// amount of time. userYield is a scheduling point under the scheduler (c09.go) and a Gosched otherwise.

var userYield = runtime.Gosched

// yKey: the number of MarshalText calls made while sorting depends on the order in which the runtime
// iterates the map, so a key of a larger map yields only while the budget shared by the keys of its map lasts.
type yKey struct {
	N      int
	budget *int32
}

func (k yKey) MarshalText() ([]byte, error) {
	if k.budget == nil {
		userYield()
	} else if *k.budget > 0 {
		*k.budget--
		userYield()
	}
	return []byte(fmt.Sprintf("key-%03d", k.N)), nil
}

func (k *yKey) UnmarshalText(b []byte) error {
	userYield()
	_, err := fmt.Sscanf(string(b), "key-%d", &k.N)
	return err
}

type yVal struct{ S string }

func (v yVal) MarshalJSON() ([]byte, error) {
	userYield()
	return stdjson.Marshal("<" + v.S + ">")
}

func (v *yVal) UnmarshalJSON(b []byte) error {
	userYield()
	return stdjson.Unmarshal(b, &v.S)
}

type yHolder struct {
	A yVal          `json:"a"`
	M map[yKey]yVal `json:"m"`
	L []yVal        `json:"l"`
}

type yWriter struct{ buf bytes.Buffer }

func (w *yWriter) Write(p []byte) (int, error) {
	userYield()
	return w.buf.Write(p)
}

// pY is a proto.Message with its own methods.
type pY struct{ B []byte }

func (m pY) Size() int { userYield(); return len(m.B) }
func (m pY) Marshal(b []byte) error {
	userYield()
	copy(b, m.B)
	return nil
}
func (m *pY) Unmarshal(b []byte) error {
	userYield()
	m.B = append([]byte{}, b...)
	return nil
}

type pYH struct {
	ID int64         `protobuf:"varint,1,opt,name=id"`
	Y  pY            `protobuf:"bytes,2,opt,name=y"`
	Ys []pY          `protobuf:"bytes,3,rep,name=ys"`
	M  map[string]pY `protobuf:"bytes,4,rep,name=m"`
}

func jsonEncoderYieldingWriter(name string, mk func() any) call {
	return call{"json.Encoder.Encode(" + name + ", writer that takes its time)", func() func() string {
		w := &yWriter{}
		enc := json.NewEncoder(w)
		err := enc.Encode(mk())
		err2 := enc.Encode(mk())
		return func() string { return w.buf.String() + "|" + errStr(err) + errStr(err2) }
	}}
}

var (
	valYMap1 = func() any {
		b := new(int32)
		*b = 3
		return map[yKey]int{{30, b}: 1, {10, b}: 2, {20, b}: 3}
	}
	valYMap2 = func() any {
		b := new(int32)
		*b = 3
		return map[yKey]int{{3, b}: 1, {1, b}: 2, {2, b}: 3, {5, b}: 4}
	}
	valYHolder = func() any {
		return yHolder{A: yVal{"a"}, M: map[yKey]yVal{{N: 2}: {"two"}, {N: 1}: {"one"}}, L: []yVal{{"x"}, {"y"}}}
	}
	docYHolder = `{"a":"A","m":{"key-007":"seven","key-004":"four"},"l":["p","q","r"]}`
	valPYH     = func() any {
		return &pYH{ID: 3, Y: pY{[]byte("yy")}, Ys: []pY{{[]byte("a")}, {[]byte("bcd")}}, M: map[string]pY{"k": {[]byte("v")}}}
	}
)

// pCustom is a gogoproto-style custom message (Size / MarshalTo / Unmarshal) whose only field is a pointer:
// a pointer-shaped type, stored directly in the interface handed to proto.Marshal when passed by value.
type pCustom struct{ p *pCustomData }

type pCustomData struct{ b []byte }

func (c pCustom) Size() int { userYield(); return len(c.p.b) }

func (c pCustom) MarshalTo(b []byte) (int, error) {
	userYield()
	if len(b) < len(c.p.b) {
		return 0, fmt.Errorf("short buffer")
	}
	return copy(b, c.p.b), nil
}

func (c pCustom) Unmarshal(b []byte) error {
	userYield()
	c.p.b = append([]byte{}, b...)
	return nil
}

// pCustomHolder has the custom message as its only field (itself pointer-shaped) and in a slice.
type pCustomHolder struct {
	C pCustom `protobuf:"bytes,1,opt,name=c"`
}

type pCustomList struct {
	ID int32     `protobuf:"varint,1,opt,name=id"`
	L  []pCustom `protobuf:"bytes,2,rep,name=l"`
}

func valCustom(s string) func() any {
	return func() any { return pCustom{&pCustomData{[]byte(s)}} }
}

// a call returns a function rendering its (live) result
type call struct {
	name string
	run  func() func() string
}

func errStr(err error) string {
	if err != nil {
		return "error"
	}
	return "ok"
}

func renderVal(v any) string {
	b, err := stdjson.Marshal(v)
	if err != nil {
		return fmt.Sprintf("%+v", v)
	}
	return string(b)
}

func jsonMarshal(name string, mk func() any) call {
	return call{"json.Marshal(" + name + ")", func() func() string {
		b, err := json.Marshal(mk())
		return func() string { return string(b) + "|" + errStr(err) }
	}}
}

func jsonUnmarshal(name, doc string, mk func() any) call {
	return call{"json.Unmarshal(" + name + ")", func() func() string {
		v := mk()
		err := json.Unmarshal([]byte(doc), v)
		return func() string { return renderVal(v) + "|" + errStr(err) }
	}}
}

func jsonTokenize(doc string) call {
	return call{"json.Tokenizer(" + doc + ")", func() func() string {
		var sb strings.Builder
		t := json.NewTokenizer([]byte(doc))
		for t.Next() {
			fmt.Fprintf(&sb, "%s@%d;", t.Value, t.Depth)
		}
		out := sb.String() + errStr(t.Err)
		return func() string { return out }
	}}
}

// jsonTokenizeReuse tokenises several documents with one Tokenizer (Reset between them).
func jsonTokenizeReuse(docs ...string) call {
	return call{"json.Tokenizer.Reset(" + strings.Join(docs, " ; ") + ")", func() func() string {
		var sb strings.Builder
		t := json.NewTokenizer([]byte(docs[0]))
		for i := range docs {
			if i > 0 {
				t.Reset([]byte(docs[i]))
			}
			for t.Next() {
				fmt.Fprintf(&sb, "%s@%d/%d/%v;", t.Value, t.Depth, t.Index, t.IsKey)
			}
			sb.WriteString(errStr(t.Err) + "|")
		}
		out := sb.String()
		return func() string { return out }
	}}
}

func jsonEncoder(name string, mk func() any) call {
	return call{"json.Encoder.Encode(" + name + ")", func() func() string {
		var buf bytes.Buffer
		enc := json.NewEncoder(&buf)
		err := enc.Encode(mk())
		err2 := enc.Encode(mk())
		return func() string { return buf.String() + "|" + errStr(err) + errStr(err2) }
	}}
}

func protoMarshal(name string, mk func() any) call {
	return call{"proto.Marshal(" + name + ")", func() func() string {
		b, err := proto.Marshal(mk())
		return func() string { return fmt.Sprintf("%x|%s", b, errStr(err)) }
	}}
}

func protoSize(name string, mk func() any) call {
	return call{"proto.Size(" + name + ")", func() func() string {
		n := proto.Size(mk())
		return func() string { return fmt.Sprint(n) }
	}}
}

func protoUnmarshal(name string, b []byte, mk func() any) call {
	return call{"proto.Unmarshal(" + name + ")", func() func() string {
		v := mk()
		err := proto.Unmarshal(b, v)
		return func() string { return renderVal(v) + "|" + errStr(err) }
	}}
}

func protoTypeOf(name string, mk func() any) call {
	return call{"proto.TypeOf(" + name + ")", func() func() string {
		t := proto.TypeOf(reflect.TypeOf(mk()))
		identsMu.Lock()
		idents[name] = append(idents[name], t)
		identsMu.Unlock()
		return func() string { return describeType(t, 0) }
	}}
}

// idents collects the Type values returned for each Go type during one execution: the type cache is
// canonicalising (mutex + re-check), so every caller must get the identical Type for the same Go type.
var (
	identsMu realsync.Mutex
	idents   = map[string][]proto.Type{}
)

func describeType(t proto.Type, depth int) string {
	if depth > 3 {
		return t.Name()
	}
	s := fmt.Sprintf("%s:%d", t.Name(), t.Kind())
	switch t.Kind() {
	case proto.Struct:
		s += "{"
		for i := 0; i < t.NumField(); i++ {
			f := t.Field(i)
			s += fmt.Sprintf("%d=%s:%v:%s,", f.Number, f.Name, f.Repeated, describeType(f.Type, depth+1))
		}
		s += "}"
	case proto.Map:
		s += "<" + describeType(t.Key(), depth+1) + "," + describeType(t.Elem(), depth+1) + ">"
	}
	return s
}

func thriftMarshal(name string, compact bool, mk func() any) call {
	return call{"thrift.Marshal(" + name + ")", func() func() string {
		var p thrift.Protocol = &thrift.BinaryProtocol{}
		if compact {
			p = &thrift.CompactProtocol{}
		}
		b, err := thrift.Marshal(p, mk())
		return func() string { return fmt.Sprintf("%x|%s", b, errStr(err)) }
	}}
}

func thriftUnmarshal(name string, b []byte, mk func() any) call {
	return call{"thrift.Unmarshal(" + name + ")", func() func() string {
		v := mk()
		err := thrift.Unmarshal(&thrift.BinaryProtocol{}, b, v)
		return func() string { return renderVal(v) + "|" + errStr(err) }
	}}
}

var (
	valA      = func() any { return jA{X: 1, Next: &jA{X: 2, S: "in\"ner"}, S: "outer"} }
	valB      = func() any { return jB{M: map[string]int{"b": 2, "a": 1, "c": 3}, L: []jA{{X: 7}}, F: 1.5} }
	valRawMap = func() any {
		return map[string]stdjson.RawMessage{"b": stdjson.RawMessage(`{"x":1}`), "a": stdjson.RawMessage(`[1,2]`)}
	}
	valNestedMaps = func() any {
		return map[string]any{"o": map[string]any{"i": map[string]string{"k": "v"}}, "r": map[string]stdjson.RawMessage{"z": stdjson.RawMessage("1")}}
	}
	valC = func() any {
		return jC{Name: "c", Any: map[string]any{"z": 1, "y": []any{"s", nil}, "x": map[string]any{"k": true}}}
	}
	valMp = func() any {
		return &pM{ID: 7, Name: "m", In: &pInner{A: 1, B: "b"}, Map: map[string]int32{"k": 1}, Items: []pInner{{A: 2}, {B: "x"}}}
	}
	valM  = func() any { return pM{ID: 7, Name: "m", In: &pInner{A: 1, B: "b"}, Map: map[string]int32{"k": 1}} }
	valN  = func() any { return &pN{V: 1, Next: &pN{V: 2}, Tags: map[int32]string{3: "t"}} }
	valTS = func() any { return tS{A: 1, B: "b", L: []int64{1, 2}, M: map[string]int32{"k": 5}} }
	valTR = func() any { return tR{V: 1, Next: &tR{V: 2}} }
	valTW = func() any { return tW{A: 1, B: "b", C: []tS{{A: 2, M: map[string]int32{"k": 1}}}} }
)

var (
	docWideExact = `{"Alpha":1,"Beta":2,"Gamma":3,"Delta":4,"Epsilon":5,"Zeta":6,"Eta":7,"Theta":8,"name":"n","inner":{"x":1,"s":"s"}}`
	docWideUpper = `{"ALPHA":1,"BETA":2,"GAMMA":3,"DELTA":4,"EPSILON":5,"ZETA":6,"ETA":7,"THETA":8,"NAME":"n","INNER":{"X":1,"S":"s"}}`
	docWideMixed = `{"alpha":1,"bETA":2,"unknown":[1,{"a":2}],"gamma":3,"theta":8,"Name":"m","Inner":{"x":2,"S":"t","Next":{"X":3}}}`
)

var docA = `{"x":1,"next":{"x":2,"s":"in\"ner"},"s":"outer"}`

func mustProto(v any) []byte {
	b, err := proto.Marshal(v)
	if err != nil {
		panic(err)
	}
	return b
}

func mustThrift(v any) []byte {
	b, err := thrift.Marshal(&thrift.BinaryProtocol{}, v)
	if err != nil {
		panic(err)
	}
	return b
}

type driver struct {
	name  string
	calls func() [][]call // per thread: sequence of calls
	// deviation bounds per tier (preemptions + pool misses); 99 = unbounded
	quick, thorough int
	// warm calls run alone before the threads start (caches populated, pools filled)
	warm func() []call
}

func drivers() []driver {
	return []driver{
		{"json-first-use", func() [][]call {
			return [][]call{
				{jsonMarshal("A", valA)},
				{jsonMarshal("B", valB)},
				{jsonUnmarshal("A", docA, func() any { return new(jA) })},
			}
		}, 4, 99, nil},
		{"json-same-type", func() [][]call {
			return [][]call{
				{jsonMarshal("B", valB)},
				{jsonMarshal("B", valB), jsonMarshal("C", valC)},
				{jsonMarshal("C", valC)},
			}
		}, 3, 4, nil},
		{"json-tokenizer", func() [][]call {
			return [][]call{
				{jsonTokenize(`{"a":[1,{"b":[true]}],"c":{}}`)},
				{jsonTokenize(`[[1,2],{"k":[`), jsonTokenize(`[{"z":[]}]`)},
				{jsonEncoder("A", valA)},
			}
		}, 4, 5, nil},
		{"proto-first-use", func() [][]call {
			bn := mustProtoOnce()
			return [][]call{
				{protoMarshal("*M", valMp)},
				{protoSize("M", valM)},
				{protoUnmarshal("N", bn, func() any { return new(pN) })},
			}
		}, 99, 99, nil},
		{"proto-typeof", func() [][]call {
			return [][]call{
				{protoTypeOf("N", valN)},
				{protoTypeOf("N", valN)},
				{protoTypeOf("M", valM)},
			}
		}, 99, 99, nil},
		{"thrift-first-use", func() [][]call {
			bs := mustThriftOnce()
			return [][]call{
				{thriftMarshal("S", false, valTS)},
				{thriftUnmarshal("S", bs, func() any { return new(tS) })},
				{thriftMarshal("R", true, valTR)},
			}
		}, 99, 99, nil},
		{"proto-map-decode-warm", func() [][]call {
			return [][]call{
				{protoUnmarshal("N", mustProto(&pN{V: 5, Tags: map[int32]string{1: "a", 2: "b"}}), func() any { return new(pN) })},
				{protoUnmarshal("N", mustProto(&pN{V: 6, Tags: map[int32]string{7: "x", 8: "y"}, Next: &pN{Tags: map[int32]string{9: "z"}}}), func() any { return new(pN) })},
				{protoMarshal("*N", valN)},
			}
		}, 3, 4, func() []call {
			return []call{protoUnmarshal("N", mustProtoOnce(), func() any { return new(pN) })}
		}},
		{"json-pools-warm", func() [][]call {
			return [][]call{
				{jsonMarshal("B", valB), jsonMarshal("C", valC)},
				{jsonMarshal("C", valC)},
				{jsonTokenize(`{"a":[1,{"b":[true]}]}`), jsonEncoder("B", valB)},
			}
		}, 3, 4, func() []call {
			return []call{jsonMarshal("B", valB), jsonMarshal("C", valC), jsonTokenize(`[[[1]]]`)}
		}},
		{"shared-decode-warm", func() [][]call {
			bw := mustThrift(valTW())
			return [][]call{
				{thriftUnmarshal("W", bw, func() any { return new(tW) }), jsonUnmarshal("A", docA, func() any { return new(jA) })},
				{thriftUnmarshal("W", bw, func() any { return new(tW) }), protoUnmarshal("N", mustProtoOnce(), func() any { return new(pN) })},
				{jsonUnmarshal("A", docA, func() any { return new(jA) }), protoUnmarshal("N", mustProtoOnce(), func() any { return new(pN) })},
			}
		}, 3, 4, func() []call {
			return []call{thriftUnmarshal("W", mustThrift(valTW()), func() any { return new(tW) }), jsonUnmarshal("A", docA, func() any { return new(jA) }), protoUnmarshal("N", mustProtoOnce(), func() any { return new(pN) })}
		}},
		{"shared-decode-first-use", func() [][]call {
			bw := mustThrift(valTW())
			return [][]call{
				{thriftUnmarshal("W", bw, func() any { return new(tW) })},
				{thriftUnmarshal("W", bw, func() any { return new(tW) })},
				{thriftMarshal("W", false, valTW)},
			}
		}, 99, 99, nil},
		{"json-tokenizer-reuse", func() [][]call {
			return [][]call{
				{jsonTokenizeReuse(`{"a":[1,{"b":2}]}`, `[[1,[2,{"c":[3]}]],4]`)},
				{jsonTokenize(`[{"x":[1,2,{"y":{}}]},[[]]]`), jsonTokenize(`{"k":[`)},
				{jsonTokenizeReuse(`[1,[2`, `{"d":{"e":[1]}}`, `[[[0]]]`)},
			}
		}, 3, 4, nil},
		{"json-decode-fold-warm", func() [][]call {
			return [][]call{
				{jsonUnmarshal("Wide/upper", docWideUpper, func() any { return new(jWide) })},
				{jsonUnmarshal("Wide/mixed", docWideMixed, func() any { return new(jWide) })},
				{jsonUnmarshal("Wide/upper", docWideUpper, func() any { return new(jWide) }), jsonMarshal("Wide", func() any { return jWide{Alpha: 1, Name: "w"} })},
			}
		}, 3, 4, func() []call {
			return []call{jsonUnmarshal("Wide/exact", docWideExact, func() any { return new(jWide) })}
		}},
		{"proto-map-decode-error-warm", func() [][]call {
			good := mustProto(&pN{V: 5, Tags: map[int32]string{1: "a", 2: "b"}})
			// map entries: one failing after key and value (wire type 7), one truncated inside the value,
			// then entries that omit the key / the value (defaults must come out, not leftovers)
			bad1 := []byte{0x1a, 0x08, 0x08, 0x07, 0x12, 0x02, 'z', 'z', 0x1f, 0x00}
			bad2 := []byte{0x1a, 0x05, 0x08, 0x09, 0x12, 0x05, 'q'}
			sparse := []byte{0x08, 0x01, 0x1a, 0x02, 0x08, 0x03, 0x1a, 0x03, 0x12, 0x01, 'v', 0x1a, 0x00}
			mk := func() any { return new(pN) }
			return [][]call{
				{protoUnmarshal("N/bad-entry", bad1, mk), protoUnmarshal("N/sparse", sparse, mk)},
				{protoUnmarshal("N/sparse", sparse, mk), protoUnmarshal("N/truncated-entry", bad2, mk)},
				{protoUnmarshal("N", good, mk), protoUnmarshal("N/sparse", sparse, mk)},
			}
		}, 3, 4, func() []call {
			return []call{protoUnmarshal("N", mustProtoOnce(), func() any { return new(pN) })}
		}},
		{"json-map-pools-warm", func() [][]call {
			return [][]call{
				{jsonMarshal("map[string]RawMessage", valRawMap), jsonMarshal("nested maps", valNestedMaps)},
				{jsonMarshal("nested maps", valNestedMaps)},
				{jsonMarshal("C", valC), jsonMarshal("map[string]RawMessage", valRawMap)},
			}
		}, 2, 3, func() []call {
			return []call{jsonMarshal("map[string]RawMessage", valRawMap), jsonMarshal("nested maps", valNestedMaps)}
		}},
		{"user-callbacks-warm", func() [][]call {
			return [][]call{
				{jsonMarshal("map[yKey]int/1", valYMap1), jsonUnmarshal("yHolder", docYHolder, func() any { return new(yHolder) })},
				{jsonMarshal("map[yKey]int/2", valYMap2), jsonEncoderYieldingWriter("yHolder", valYHolder)},
				{jsonMarshal("yHolder", valYHolder), jsonMarshal("map[yKey]int/1", valYMap1)},
			}
		}, 2, 3, func() []call {
			return []call{jsonMarshal("map[yKey]int/1", valYMap1), jsonMarshal("yHolder", valYHolder), jsonUnmarshal("yHolder", docYHolder, func() any { return new(yHolder) })}
		}},
		{"user-callbacks-proto", func() [][]call {
			b := mustProto(valPYH())
			return [][]call{
				{protoMarshal("*pYH", valPYH)},
				{protoUnmarshal("pYH", b, func() any { return new(pYH) })},
				{protoSize("*pYH", valPYH), protoMarshal("*pYH", valPYH)},
			}
		}, 2, 3, func() []call {
			return []call{protoMarshal("*pYH", valPYH)}
		}},
		{"json-failed-marshal-then-maps", func() [][]call {
			failing := func() any { return map[string]any{"b": 1, "a": make(chan int), "c": "x"} }
			return [][]call{
				{jsonMarshal("map[string]any holding a channel", failing), jsonMarshal("nested maps", valNestedMaps)},
				{jsonMarshal("nested maps", valNestedMaps), jsonMarshal("C", valC)},
				{jsonMarshal("map[string]RawMessage", valRawMap), jsonMarshal("map[string]any holding a channel", failing)},
			}
		}, 2, 3, func() []call {
			return []call{jsonMarshal("nested maps", valNestedMaps), jsonMarshal("map[string]any holding a channel", func() any { return map[string]any{"a": make(chan int)} })}
		}},
		{"user-callbacks-proto-custom", func() [][]call {
			return [][]call{
				{protoMarshal("pCustom/aaaa by value", valCustom("aaaa")), protoSize("pCustomHolder", func() any { return pCustomHolder{pCustom{&pCustomData{[]byte("hh")}}} })},
				{protoMarshal("pCustom/bbbbbbbb by value", valCustom("bbbbbbbb")), protoMarshal("pCustomList", func() any {
					return &pCustomList{ID: 1, L: []pCustom{{&pCustomData{[]byte("x")}}, {&pCustomData{[]byte("yz")}}}}
				})},
				{protoSize("pCustom/cc by value", valCustom("cc")), protoMarshal("pCustomHolder", func() any { return pCustomHolder{pCustom{&pCustomData{[]byte("kkk")}}} })},
			}
		}, 2, 3, func() []call {
			return []call{protoMarshal("pCustom/w by value", valCustom("w")), protoMarshal("pCustomHolder", func() any { return pCustomHolder{pCustom{&pCustomData{[]byte("v")}}} })}
		}},
		{"thrift-recursive-first-use", func() [][]call {
			// a recursive type with fields behind the self-reference, first used by value and through a pointer at once
			valRW := func() any {
				return tRW{V: 1, Next: &tRW{V: 2, Tail: "t2", Last: []int32{7}}, Tail: "t1", Last: []int32{8, 9}}
			}
			ptrRW := func() any { v := valRW().(tRW); return &v }
			return [][]call{
				{thriftMarshal("RW", false, valRW)},
				{thriftMarshal("*RW", false, ptrRW)},
				{thriftMarshal("*RW", true, ptrRW)},
			}
		}, 99, 99, nil},
		{"mixed", func() [][]call {
			return [][]call{
				{jsonMarshal("C", valC), protoSize("M", valM)},
				{protoMarshal("*M", valMp), thriftMarshal("S", true, valTS)},
				{thriftMarshal("S", false, valTS), jsonMarshal("C", valC)},
			}
		}, 3, 4, nil},
	}
}

var protoN, thriftS []byte

func mustProtoOnce() []byte {
	if protoN == nil {
		protoN = mustProto(valN())
	}
	return protoN
}

func mustThriftOnce() []byte {
	if thriftS == nil {
		thriftS = mustThrift(valTS())
	}
	return thriftS
}

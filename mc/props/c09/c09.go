//go:build verifshim

package c09

import (
	"fmt"
	"strings"

	"github.com/segmentio/encoding/proto"
	"github.com/segmentio/encoding/verifshim/hook"
	"verif/mc/explore"
	"verif/mc/sched"
)

func init() {
	schedBody = body
	userYield = func() { hook.Point("user.callback", nil) }
}

// expected results: every call run alone on a fresh state
var expected = map[string][][]string{}

func expectedFor(d driver) [][]string {
	if e, ok := expected[d.name]; ok {
		return e
	}
	var out [][]string
	for _, th := range d.calls() {
		var row []string
		for _, cl := range th {
			hook.ResetAll()
			warmUp(d)
			row = append(row, cl.run()())
		}
		out = append(out, row)
	}
	expected[d.name] = out
	return out
}

func warmUp(d driver) {
	if d.warm != nil {
		for _, cl := range d.warm() {
			cl.run()
		}
	}
}

func body(d driver) func(c *explore.Ctx) {
	return func(c *explore.Ctx) {
		want := expectedFor(d)
		calls := d.calls()
		hook.ResetAll()
		warmUp(d)
		type res struct {
			render func() string
			at     string
			pv     any
			site   string
		}
		results := make([][]res, len(calls))
		bodies := make([]func(), len(calls))
		for i := range calls {
			i := i
			results[i] = make([]res, len(calls[i]))
			bodies[i] = func() {
				for k, cl := range calls[i] {
					r := &results[i][k]
					r.pv, r.site = explore.Catch(func() {
						r.render = cl.run()
						r.at = r.render()
					})
				}
			}
		}
		idents = map[string][]proto.Type{}
		e := sched.Run(c, bodies)
		for name, ts := range idents {
			for _, t := range ts[1:] {
				if t != ts[0] {
					c.Fail("typeof-not-canonical:"+name, "two concurrent proto.TypeOf(%s) calls returned different Type values [schedule: %s]", name, strings.Join(e.Trace, " | "))
					break
				}
			}
		}
		c.Count("points", int64(e.Points))
		c.Count("switches", int64(e.Switches))
		c.Count("preemptions", int64(e.Preemptions))
		c.Count("pool_misses", int64(e.Misses))
		for k, n := range e.Ops() {
			c.Count("op:"+k, int64(n))
		}
		sched := func() string { return strings.Join(e.Trace, " | ") }
		if e.Deadlock != "" {
			c.Fail("deadlock:"+d.name, "deadlock: %s [schedule: %s]", e.Deadlock, sched())
		}
		for _, v := range e.Violations {
			c.Fail(v[0]+":"+d.name, "%s [schedule: %s]", v[1], sched())
		}
		for _, v := range hook.TakeViolations() { // reported while no scheduler was installed (warm-up calls)
			c.Fail(v[0]+":"+d.name, "%s [during the warm-up calls]", v[1])
		}
		if e.Deadlock == "" {
			for i := range calls {
				if pv, site := e.Panicked(i); pv != nil {
					c.Fail("panic:"+site+":"+explore.PanicClass(pv), "thread %d panicked: %v [schedule: %s]", i, pv, sched())
				}
				for k, cl := range calls[i] {
					r := results[i][k]
					switch {
					case r.pv != nil:
						c.Fail("panic:"+r.site+":"+explore.PanicClass(r.pv), "%s on thread %d panicked: %v [schedule: %s]", cl.name, i, r.pv, sched())
					case r.render == nil:
						c.Fail("incomplete:"+d.name, "%s on thread %d did not complete", cl.name, i)
					case r.at != want[i][k]:
						c.Fail("result-differs:"+cl.name, "%s on thread %d returned %.200q, alone it returns %.200q [schedule: %s]", cl.name, i, r.at, want[i][k], sched())
					case r.render() != r.at:
						c.Fail("result-changed-later:"+cl.name, "%s on thread %d returned %.200q which later became %.200q [schedule: %s]", cl.name, i, r.at, r.render(), sched())
					}
				}
			}
		}
		c.NontrivialStr(d.name, string(e.Order))
		c.Outcome(fmt.Sprintf("order=%s", e.Order))
		if c.WantSample() || c.Failed() {
			c.Case(map[string]any{"driver": d.name, "points": e.Points, "switches": e.Switches, "preemptions": e.Preemptions, "pool_misses": e.Misses, "store_and_get_order": string(e.Order), "schedule": e.Trace})
		}
	}
}

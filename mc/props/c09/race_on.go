//go:build race

package c09

const raceEnabled = true

// Package c18: iso8601.Parse == time.Parse(RFC3339Nano); Valid is its grammar (DESIGN.md §5 C18).
package c18

import (
	"fmt"
	"regexp"
	"strings"
	"testing"
	"time"
	"verif/mc/guardpage"

	"github.com/segmentio/encoding/iso8601"
	"verif/mc/explore"
)

// compareParse runs both parsers on s and reports disagreements.
// site localises the signature (which family / sub-space produced the input).
func compareParse(c *explore.Ctx, site, s string) (accepted bool) {
	var got time.Time
	var gerr error
	if pv, ps := explore.Catch(func() { got, gerr = iso8601.Parse(s) }); pv != nil {
		c.Fail("Parse:panic:"+ps, "Parse(%q) panicked: %v", s, pv)
		return false
	}
	want, werr := time.Parse(time.RFC3339Nano, s)
	switch {
	case gerr != nil && werr == nil:
		c.Fail("Parse:rejects-valid:"+site+":"+shape(s), "Parse(%q) fails (%v) but time.Parse accepts (%v)", s, gerr, want)
	case gerr == nil && werr != nil:
		c.Fail("Parse:accepts-invalid:"+site+":"+shape(s), "Parse(%q) = %v but time.Parse fails: %v", s, got, werr)
	case gerr == nil:
		_, o1 := got.Zone()
		_, o2 := want.Zone()
		if !got.Equal(want) || o1 != o2 {
			c.Fail("Parse:wrong-instant:"+site, "Parse(%q) = %v (offset %d), time.Parse = %v (offset %d)", s, got.Format(time.RFC3339Nano), o1, want.Format(time.RFC3339Nano), o2)
		} else if got.Location().String() != want.Location().String() {
			c.Fail("Parse:wrong-location:"+site, "Parse(%q) location %q, time.Parse location %q", s, got.Location(), want.Location())
		}
		return true
	}
	return false
}

// shape abstracts a timestamp into a class string: digits -> 9, other bytes
// kept (non-printable as '?'), so that a signature names the grammatical form.
func shape(s string) string {
	var b strings.Builder
	last := byte(0)
	for i := 0; i < len(s); i++ {
		ch := s[i]
		switch {
		case ch >= '0' && ch <= '9':
			if last != '9' {
				b.WriteByte('9')
			}
			last = '9'
			continue
		case ch < 0x20 || ch > 0x7e:
			b.WriteByte('?')
		default:
			b.WriteByte(ch)
		}
		last = 0
	}
	return b.String()
}

func dates(c *explore.Ctx) {
	year := c.Choose(10000)
	acc, rej := 0, 0
	for month := 0; month <= 13; month++ {
		for day := 0; day <= 32; day++ {
			for _, tod := range []string{"00:00:00Z", "23:59:59.999999999Z"} {
				s := fmt.Sprintf("%04d-%02d-%02dT%s", year, month, day, tod)
				if compareParse(c, "dates", s) {
					acc++
				} else {
					rej++
				}
			}
		}
	}
	c.Inner(int64(acc + rej))
	c.Nontrivial(uint64(year))
	c.Outcome(fmt.Sprintf("accepted=%d", acc)) // 365*2 or 366*2
	if c.WantSample() {
		c.Case(map[string]any{"year": year, "months": "00..13", "days": "00..32", "times": []string{"00:00:00Z", "23:59:59.999999999Z"}, "accepted": acc})
	}
}

func times(c *explore.Ctx) {
	date := []string{"2021-03-25", "2000-02-29", "1969-12-31"}[c.Choose(3)]
	hh := c.Choose(30)
	acc := 0
	for mm := 0; mm < 70; mm++ {
		for ss := 0; ss < 70; ss++ {
			for _, suffix := range []string{"Z", ".5Z"} {
				s := fmt.Sprintf("%sT%02d:%02d:%02d%s", date, hh, mm, ss, suffix)
				if compareParse(c, "times", s) {
					acc++
				}
			}
		}
	}
	c.Inner(70 * 70 * 2)
	c.Nontrivial(1<<32 | uint64(hh)<<8 | uint64(len(date)+int(date[0])))
	if acc > 0 {
		c.Outcome("some-accepted")
	} else {
		c.Outcome("all-rejected")
	}
	if c.WantSample() {
		c.Case(map[string]any{"date": date, "hour": hh, "minutes": "00..69", "seconds": "00..69", "accepted": acc})
	}
}

func fractions(c *explore.Ctx) {
	n := c.Choose(12) // fraction digits 0..11
	pat := c.Choose(6)
	tail := []string{"Z", "+01:00", "-00:30", "z"}[c.Choose(4)]
	digits := make([]byte, n)
	for i := range digits {
		switch pat {
		case 0:
			digits[i] = '0'
		case 1:
			digits[i] = '9'
		case 2:
			digits[i] = '0'
			if i == 0 {
				digits[i] = '1'
			}
		case 3:
			digits[i] = '0'
			if i == n-1 {
				digits[i] = '1'
			}
		case 4:
			digits[i] = "1234567891"[i%10]
		case 5:
			digits[i] = "9876543210"[i%10]
		}
	}
	for _, sep := range []string{".", ","} {
		s := "2021-03-25T21:36:12"
		if n > 0 {
			s += sep + string(digits)
		}
		s += tail
		acc := compareParse(c, "fractions", s)
		c.NontrivialStr("frac", s)
		c.Outcome(fmt.Sprintf("accepted=%v", acc))
		c.Case(s)
		if n == 0 {
			break
		}
	}
}

// base timestamps of every length 19..31
func baseOfLen(L, kind int) string {
	switch kind {
	case 0: // Z-terminated, fraction fills the rest
		s := "2021-03-25T21:36:12"
		if L == 19 {
			return s
		}
		if L == 20 {
			return s + "Z"
		}
		s += "."
		for len(s) < L-1 {
			s += string(rune('1' + (len(s) % 9)))
		}
		return s + "Z"
	default: // numeric offset
		s := "1999-12-31T23:59:59"
		tail := "+01:30"
		if L < 25 {
			return baseOfLen(L, 0)
		}
		if L == 25 {
			return s + tail
		}
		s += "."
		for len(s) < L-6 {
			s += string(rune('1' + (len(s) % 9)))
		}
		return s + tail
	}
}

// ---- page-edge: the operand ends at (or starts at) the last (first) byte the process may touch

var edge *guardpage.Region

func pageEdge(c *explore.Ctx) {
	if edge == nil {
		edge = guardpage.New()
	}
	L := 19 + c.Choose(13)
	kind := c.Choose(2)
	base := baseOfLen(L, kind)
	var n int64
	try := func(s string) {
		for _, atEnd := range []bool{true, false} {
			var b []byte
			if atEnd {
				b = edge.AtEnd([]byte(s))
			} else {
				b = edge.AtStart([]byte(s), '9')
			}
			placed := guardpage.String(b)
			var got time.Time
			var gerr error
			valid := make([]bool, 32)
			fault, msg := guardpage.Faults(func() {
				got, gerr = iso8601.Parse(placed)
				for m := 0; m < 32; m++ {
					valid[m] = iso8601.Valid(placed, flagsOf(m))
				}
			})
			n++
			where := map[bool]string{true: "ending at the last accessible byte", false: "starting at the first accessible byte"}[atEnd]
			if fault {
				c.Fail("page-edge:reads-outside-the-operand", "Parse / Valid of the %d-byte string %q %s touches memory outside the string: %s", len(s), s, where, msg)
				continue
			}
			want, werr := iso8601.Parse(strings.Clone(s))
			if (gerr == nil) != (werr == nil) || (gerr == nil && !got.Equal(want)) {
				c.Fail("page-edge:Parse-differs", "Parse(%q) %s gives %v, %v; elsewhere %v, %v", s, where, got, gerr, want, werr)
			}
			for m := 0; m < 32; m++ {
				if v := iso8601.Valid(strings.Clone(s), flagsOf(m)); v != valid[m] {
					c.Fail("page-edge:Valid-differs", "Valid(%q, %05b) %s = %v, elsewhere %v", s, m, where, valid[m], v)
					break
				}
			}
		}
	}
	try(base)
	for cut := 0; cut < len(base); cut++ {
		try(base[:cut]) // every shorter operand (the word-at-a-time paths are chosen by length)
	}
	for _, ext := range []string{"0", "Z", "00", ":00", "+01:00", "123456789"} {
		try(base + ext)
	}
	buf := []byte(base)
	for pos := 0; pos < len(base); pos++ {
		for _, x := range []byte{'0', ':', 'x', 0x80, ' ', ','} {
			buf[pos] = x
			try(string(buf))
		}
		buf[pos] = base[pos]
	}
	c.Inner(n)
	c.Nontrivial(uint64(L)<<1 | uint64(kind))
	c.Outcome("page-edge")
	if c.WantSample() {
		c.Case(map[string]any{"base": base, "placements": n})
	}
}

func byteSweep(c *explore.Ctx) {
	L := 19 + c.Choose(13)
	kind := c.Choose(2)
	base := baseOfLen(L, kind)
	pos := c.Choose(L)
	b := []byte(base)
	acc := 0
	for v := 0; v < 256; v++ {
		b[pos] = byte(v)
		if compareParse(c, "byte-sweep", string(b)) {
			acc++
		}
	}
	c.Inner(256)
	c.NontrivialStr("sweep", base, fmt.Sprint(pos))
	c.Outcome(fmt.Sprintf("accepted=%d", min(acc, 11)))
	if c.WantSample() {
		c.Case(map[string]any{"base": base, "position": pos, "byte_values": "0..255", "accepted": acc})
	}
}

var classBytes = []byte{'0', '9', '-', ':', 'T', 'Z', '.', ',', ' ', 't', 'z', '+', 0x00, 0x80, '/', ';'}

func pairSweep(c *explore.Ctx) {
	L := 20 + c.Choose(11)
	kind := c.Choose(2)
	base := baseOfLen(L, kind)
	p1 := c.Choose(L)
	b := []byte(base)
	acc := 0
	n := 0
	for p2 := p1 + 1; p2 < L; p2++ {
		for _, x := range classBytes {
			for _, y := range classBytes {
				copy(b, base)
				b[p1], b[p2] = x, y
				if compareParse(c, "pair-sweep", string(b)) {
					acc++
				}
				n++
			}
		}
	}
	c.Inner(int64(n))
	c.NontrivialStr("pair", base, fmt.Sprint(p1))
	c.Outcome(fmt.Sprintf("accepted>0=%v", acc > 0))
	if c.WantSample() {
		c.Case(map[string]any{"base": base, "first_position": p1, "second_position": "all later", "alphabet": string(classBytes), "accepted": acc})
	}
}

// lengths: drop or insert one byte at every position (field-width changes:
// one-digit hour, 5-digit year, ...), which time.Parse sometimes accepts.
// thorough only: every pair of byte values at every two adjacent positions
func adjacentFull(c *explore.Ctx) {
	L := 20 + c.Choose(11)
	kind := c.Choose(2)
	base := baseOfLen(L, kind)
	p := c.Choose(L - 1)
	b := []byte(base)
	acc, n := 0, 0
	for x := 0; x < 256; x++ {
		for y := 0; y < 256; y++ {
			copy(b, base)
			b[p], b[p+1] = byte(x), byte(y)
			if compareParse(c, "adjacent-full", string(b)) {
				acc++
			}
			n++
		}
	}
	c.Inner(int64(n))
	c.NontrivialStr("adjacent", base, fmt.Sprint(p))
	c.Outcome(fmt.Sprintf("accepted>1=%v", acc > 1))
	if c.WantSample() {
		c.Case(map[string]any{"base": base, "positions": []int{p, p + 1}, "byte_pairs": 65536, "accepted": acc})
	}
}

// thorough only: all triples of positions x class alphabet cubed
func tripleSweep(c *explore.Ctx) {
	L := []int{20, 21, 25, 29, 30}[c.Choose(5)]
	kind := c.Choose(2)
	base := baseOfLen(L, kind)
	p1 := c.Choose(L)
	b := []byte(base)
	acc, n := 0, 0
	for p2 := p1 + 1; p2 < L; p2++ {
		for p3 := p2 + 1; p3 < L; p3++ {
			for _, x := range classBytes {
				for _, y := range classBytes {
					for _, z := range classBytes {
						copy(b, base)
						b[p1], b[p2], b[p3] = x, y, z
						if compareParse(c, "triple-sweep", string(b)) {
							acc++
						}
						n++
					}
				}
			}
		}
	}
	c.Inner(int64(n))
	c.NontrivialStr("triple", base, fmt.Sprint(p1))
	c.Outcome(fmt.Sprintf("accepted>0=%v", acc > 0))
	if c.WantSample() {
		c.Case(map[string]any{"base": base, "first_position": p1, "alphabet": string(classBytes), "cases": n, "accepted": acc})
	}
}

func editSweep(c *explore.Ctx) {
	L := 19 + c.Choose(13)
	kind := c.Choose(2)
	base := baseOfLen(L, kind)
	pos := c.Choose(L + 1)
	n := 0
	if pos < L {
		s := base[:pos] + base[pos+1:]
		compareParse(c, "edit-delete", s)
		n++
	}
	for _, x := range classBytes {
		s := base[:pos] + string(x) + base[pos:]
		compareParse(c, "edit-insert", s)
		n++
	}
	c.Inner(int64(n))
	c.NontrivialStr("edit", base, fmt.Sprint(pos))
	c.Outcome("edited")
	if c.WantSample() {
		c.Case(map[string]any{"base": base, "edit_position": pos, "edits": "delete one byte; insert each class byte"})
	}
}

// ---- Valid

var flagBits = []iso8601.ValidFlags{iso8601.AllowSpaceSeparator, iso8601.AllowMissingTime, iso8601.AllowMissingSubsecond, iso8601.AllowMissingTimezone, iso8601.AllowNumericTimezone}

var grammars [32]*regexp.Regexp

// ---- histories: Parse and Valid are functions of their argument, whatever was parsed before

var historyInputs = []string{
	"1969-12-31T23:59:59Z", "1969-12-31T00:00:00.5Z", "0001-01-01T00:00:00Z", "1900-02-28T12:00:00Z", "1970-01-01T00:00:00Z",
	"2021-03-25T21:36:12Z", "2021-03-25T21:36:12.123456789Z", "2021-03-25T21:36:12+02:00", "1969-12-31T23:59:59-07:00", "9999-12-31T23:59:59Z",
	"2021-02-30T00:00:00Z", "1969-12-31T24:00:00Z", "1969-12-31", "",
}

func histories(c *explore.Ctx) {
	a := c.Choose(len(historyInputs))
	b := c.Choose(len(historyInputs))
	n := 0
	for d := 0; d < len(historyInputs); d++ {
		for _, i := range []int{a, b, a, d, a, a, d, d, b} {
			compareParse(c, "history", historyInputs[i])
			checkValid(c, historyInputs[i])
			n++
		}
	}
	c.Inner(int64(n))
	c.NontrivialStr(historyInputs[a], historyInputs[b])
	c.Outcome("history")
	if c.WantSample() {
		c.Case(map[string]any{"first": historyInputs[a], "second": historyInputs[b], "calls": n})
	}
}

func init() {
	for m := 0; m < 32; m++ {
		has := func(i int) bool { return m&(1<<i) != 0 }
		sep := "T"
		if has(0) {
			sep = "[T ]"
		}
		frac := `\.[0-9]{1,9}`
		if has(2) {
			frac = "(" + frac + ")?"
		}
		sp := ""
		if has(0) {
			sp = " ?"
		}
		colon := ":"
		if has(4) {
			colon = ":?"
		}
		zone := "(Z|" + sp + "[+-][0-9]{2}" + colon + "[0-9]{2})"
		if has(3) {
			zone += "?"
		}
		rest := "(" + sep + "[0-9]{2}:[0-9]{2}:[0-9]{2}" + frac + zone + ")"
		if has(1) {
			rest += "?"
		}
		grammars[m] = regexp.MustCompile(`\A[0-9]{4}-[0-9]{2}-[0-9]{2}` + rest + `\z`)
	}
}

func flagsOf(m int) (f iso8601.ValidFlags) {
	for i, b := range flagBits {
		if m&(1<<i) != 0 {
			f |= b
		}
	}
	return f
}

func checkValid(c *explore.Ctx, s string) (anyAccepted bool) {
	for m := 0; m < 32; m++ {
		want := grammars[m].Match([]byte(s))
		var got bool
		if pv, ps := explore.Catch(func() { got = iso8601.Valid(s, flagsOf(m)) }); pv != nil {
			c.Fail("Valid:panic:"+ps, "Valid(%q,%d) panicked: %v", s, m, pv)
			continue
		}
		if got != want {
			kind := "accepts-invalid"
			if want {
				kind = "rejects-valid"
			}
			c.Fail(fmt.Sprintf("Valid:%s:flags=%05b:%s", kind, m, shape(s)), "Valid(%q, flags subset %05b [space,notime,nosubsec,notz,numtz]) = %v, grammar says %v", s, m, got, want)
		}
		anyAccepted = anyAccepted || got
	}
	return
}

func skeletons() []string {
	var out []string
	fracs := []string{""}
	for n := 1; n <= 10; n++ {
		fracs = append(fracs, "."+"1234567890"[:n])
	}
	zones := []string{"", "Z", "+07:00", "-07:00", "+0700", "-0700", " +07:00", " -0700"}
	out = append(out, "2018-01-01")
	for _, sep := range []string{"T", " "} {
		for _, fr := range fracs {
			for _, z := range zones {
				out = append(out, "2018-01-01"+sep+"23:42:59"+fr+z)
			}
		}
	}
	return out
}

var skel = skeletons()

var validClass = []byte{'0', '9', '-', ':', 'T', 'Z', '.', ',', ' ', '+', 't', 'z', '_', '/', 0x00, 0x80, 0xff, 'a'}

func validSweep(c *explore.Ctx) {
	s := skel[c.Choose(len(skel))]
	n := 0
	acc := checkValid(c, s)
	n++
	for cut := 0; cut < len(s); cut++ {
		checkValid(c, s[:cut])
		n++
	}
	for _, x := range validClass {
		checkValid(c, s+string(x))
		n++
	}
	b := []byte(s)
	for pos := 0; pos < len(s); pos++ {
		for _, x := range validClass {
			copy(b, s)
			b[pos] = x
			checkValid(c, string(b))
			n++
		}
		// delete / duplicate one byte
		checkValid(c, s[:pos]+s[pos+1:])
		checkValid(c, s[:pos]+s[pos:pos+1]+s[pos:])
		n += 2
	}
	c.Inner(int64(n) * 32)
	c.NontrivialStr("valid", s)
	c.Outcome(fmt.Sprintf("skeleton-accepted-by-some-flagset=%v", acc))
	if c.WantSample() {
		c.Case(map[string]any{"skeleton": s, "mutations": "every truncation, 1-byte extension, single class-byte substitution, deletion, duplication", "flag_subsets": 32})
	}
}

func validAllocs(c *explore.Ctx) {
	s := skel[c.Choose(len(skel))]
	m := c.Choose(32)
	f := flagsOf(m)
	a := testing.AllocsPerRun(20, func() { iso8601.Valid(s, f) })
	if a != 0 {
		c.Fail("Valid:allocates", "Valid(%q,%05b) allocates %v times per run", s, m, a)
	}
	bad := s + "\x80"
	if a := testing.AllocsPerRun(20, func() { iso8601.Valid(bad, f) }); a != 0 {
		c.Fail("Valid:allocates", "Valid(%q,%05b) allocates %v times per run", bad, m, a)
	}
	c.NontrivialStr("alloc", s, fmt.Sprint(m))
	c.Outcome("noalloc")
	c.Case(map[string]any{"string": s, "flags": m})
}

// Spec returns the C18 check.
func Spec() *explore.Spec {
	return &explore.Spec{
		ID: "C18",
		Families: []*explore.Family{
			{Name: "histories", ShardDepth: 1, Body: histories, Doc: "every sequence a, b, a, d, a, a, d, d, b over 14 timestamps (before and after 1970, the same date at different times, offsets, invalid dates and times, a bare date, the empty string): each Parse and each Valid (32 flag subsets) answers as it does for that argument alone, whatever was parsed before"},
			{Name: "page-edge", ShardDepth: 2, Body: pageEdge, Doc: "base timestamps of every length 19..31 (Z and numeric offset), every prefix, 6 extensions and 6 substitutions at every position, placed so that the string ends at the last byte before an inaccessible page, and so that it starts at the first byte behind one: Parse and Valid (32 flag subsets) touch nothing outside the string (a fault is caught) and answer as they do elsewhere"},
			{Name: "dates", Body: dates, Doc: "every year 0000-9999 x month 00-13 x day 00-32 x 2 times of day"},
			{Name: "times", ShardDepth: 2, Body: times, Doc: "hh 00-29 x mm 00-69 x ss 00-69 on 3 dates, with and without fraction"},
			{Name: "fractions", ShardDepth: 2, Body: fractions, Doc: "fraction length 0-11 x digit patterns x zone suffix x {'.', ','}"},
			{Name: "byte-sweep", ShardDepth: 2, Body: byteSweep, Doc: "every position x all 256 byte values for base timestamps of every length 19..31 (Z and numeric offset)"},
			{Name: "pair-sweep", ShardDepth: 2, Body: pairSweep, Doc: "all pairs of positions x 16-byte class alphabet squared, lengths 20..30"},
			{Name: "adjacent-full", ShardDepth: 3, Tiers: []string{"thorough"}, Body: adjacentFull, Doc: "thorough only: all 65536 byte pairs at every two adjacent positions of base timestamps of every length 20..30 (Z and numeric offset)"},
			{Name: "triple-sweep", ShardDepth: 3, Tiers: []string{"thorough"}, Body: tripleSweep, Doc: "thorough only: all triples of positions x 16-byte class alphabet cubed, lengths 20, 21, 25, 29, 30"},
			{Name: "edit-sweep", ShardDepth: 2, Body: editSweep, Doc: "delete / insert one byte at every position (width changes)"},
			{Name: "valid-sweep", Body: validSweep, Doc: "Valid on every grammar skeleton, truncation, extension, substitution, deletion, duplication x 32 flag subsets"},
			{Name: "valid-allocs", ShardDepth: 1, Serial: true, Body: validAllocs, Doc: "Valid performs no allocation (AllocsPerRun) on every skeleton x flag subset"},
		},
		Rule: "complete finite domains (all calendar dates, all times of day) and complete single/double deviation sweeps; a distinct non-trivial case is one enumerated block (year / hour / base+position / skeleton) containing accepted and rejected strings",
		Assumptions: []string{
			"time.Parse(time.RFC3339Nano) of the Go toolchain in the image (go1.23.5) is the specification of Parse",
			"Valid's grammar is the regular expression transcribed from the property statement; ±hh:mm is always allowed, AllowNumericTimezone gates the omission of ':' and AllowSpaceSeparator the optional space before the zone (as valid_test.go establishes)",
		},
	}
}

// Package c19: proto rewriters replace exactly the templated fields (DESIGN.md §5 C19).
package c19

import (
	"bytes"
	stdjson "encoding/json"
	"fmt"
	"math"
	"reflect"
	"strings"

	"github.com/segmentio/encoding/proto"
	"google.golang.org/protobuf/encoding/protowire"
	"verif/mc/explore"
	"verif/mc/gen/pgen"
)

// fieldSpec is one field shape with the template values it can take.
type fieldSpec struct {
	name  string
	field pgen.Field
	// templates: JSON text and the Go value the field must hold afterwards
	templates []tmpl
	// bitor: available for integer kinds: rule constructor, mask JSON, or-function
	bitor *bitor
}

type tmpl struct {
	json string
	val  func() reflect.Value
}

type bitor struct {
	rule any
	mask uint64
}

func sc(k pgen.Kind) pgen.Elem            { return pgen.Elem{Kind: k} }
func enc(k pgen.Kind, e string) pgen.Elem { return pgen.Elem{Kind: k, Enc: e} }

func val(v any) func() reflect.Value { return func() reflect.Value { return reflect.ValueOf(v) } }

var inner = pgen.MsgE(pgen.F(sc(pgen.Int32), pgen.Plain), pgen.F(sc(pgen.String), pgen.Plain))

func innerVal(a int32, s string) reflect.Value {
	v := reflect.New(inner.Msg.Type).Elem()
	v.Field(0).SetInt(int64(a))
	v.Field(1).SetString(s)
	return v
}

// inner2 has the kinds of inner's fields the other way round (both are anonymous structs: they share their name)
var inner2 = pgen.MsgE(pgen.F(sc(pgen.String), pgen.Plain), pgen.F(sc(pgen.Int32), pgen.Plain), pgen.F(sc(pgen.Int64), pgen.Plain))

func mapOfInner(e pgen.Elem, set func(v reflect.Value)) func() reflect.Value {
	return func() reflect.Value {
		m := reflect.MakeMap(reflect.MapOf(reflect.TypeOf(""), e.Msg.Type))
		v := reflect.New(e.Msg.Type).Elem()
		set(v)
		m.SetMapIndex(reflect.ValueOf("k"), v)
		return m
	}
}

var specs = []fieldSpec{
	{"int32", pgen.F(sc(pgen.Int32), pgen.Plain), []tmpl{{"7", val(int32(7))}, {"-1", val(int32(-1))}, {"2147483647", val(int32(math.MaxInt32))}}, &bitor{proto.BitOr[int32]{}, 0x48}},
	{"int32/or-uint64", pgen.F(sc(pgen.Int32), pgen.Plain), []tmpl{{"7", val(int32(7))}}, &bitor{proto.BitOr[uint64]{}, 1 << 31}},
	{"int32/or-uint32", pgen.F(sc(pgen.Int32), pgen.Plain), []tmpl{{"-2", val(int32(-2))}}, &bitor{proto.BitOr[uint32]{}, 0x80000001}},
	{"int64", pgen.F(sc(pgen.Int64), pgen.Plain), []tmpl{{"7", val(int64(7))}, {"-9223372036854775808", val(int64(math.MinInt64))}}, &bitor{proto.BitOr[int64]{}, 1 << 40}},
	{"int", pgen.F(sc(pgen.Int), pgen.Plain), []tmpl{{"300", val(int(300))}}, &bitor{proto.BitOr[int]{}, 0x101}},
	{"uint32", pgen.F(sc(pgen.Uint32), pgen.Plain), []tmpl{{"7", val(uint32(7))}, {"4294967295", val(uint32(math.MaxUint32))}}, &bitor{proto.BitOr[uint32]{}, 0x80000001}},
	{"uint64", pgen.F(sc(pgen.Uint64), pgen.Plain), []tmpl{{"7", val(uint64(7))}, {"18446744073709551615", val(uint64(math.MaxUint64))}}, &bitor{proto.BitOr[uint64]{}, 1 << 63}},
	{"uint", pgen.F(sc(pgen.Uint), pgen.Plain), []tmpl{{"128", val(uint(128))}}, &bitor{proto.BitOr[uint]{}, 8}},
	{"bool", pgen.F(sc(pgen.Bool), pgen.Plain), []tmpl{{"true", val(true)}}, nil},
	{"string", pgen.F(sc(pgen.String), pgen.Plain), []tmpl{{`"tmpl"`, val("tmpl")}, {`"` + strings.Repeat("z", 200) + `"`, val(strings.Repeat("z", 200))}}, nil},
	{"bytes", pgen.F(sc(pgen.Bytes), pgen.Plain), []tmpl{{`"raw"`, val([]byte("raw"))}}, nil},
	{"float32", pgen.F(sc(pgen.Float32), pgen.Plain), []tmpl{{"1.5", val(float32(1.5))}, {"-0.0", val(float32(math.Copysign(0, -1)))}}, nil},
	{"float64", pgen.F(sc(pgen.Float64), pgen.Plain), []tmpl{{"-2.25", val(float64(-2.25))}, {"-0.0", val(math.Copysign(0, -1))}}, nil},
	{"sint32", pgen.F(enc(pgen.Int32, "zigzag32"), pgen.Plain), []tmpl{{"-3", val(int32(-3))}, {"5", val(int32(5))}}, &bitor{proto.BitOr[int32]{}, 0x10}},
	{"sint64", pgen.F(enc(pgen.Int64, "zigzag64"), pgen.Plain), []tmpl{{"-3", val(int64(-3))}}, &bitor{proto.BitOr[int64]{}, 0x10}},
	{"*int32", pgen.F(sc(pgen.Int32), pgen.Ptr), []tmpl{{"9", func() reflect.Value { x := int32(9); return reflect.ValueOf(&x) }}}, nil},
	{"nested", pgen.F(inner, pgen.Plain), []tmpl{{`{"F0":11}`, nil}, {`{"F1":"in"}`, nil}, {`{"F0":11,"F1":"in"}`, nil}}, nil},
	{"*nested", pgen.F(inner, pgen.Ptr), []tmpl{{`{"F0":11}`, nil}, {`{"F1":"in"}`, nil}}, nil},
	{"[]int32", pgen.F(sc(pgen.Int32), pgen.Slice), []tmpl{{"[4,5]", val([]int32{4, 5})}, {"[6]", val([]int32{6})}, {"[]", val([]int32(nil))}, {"[1,0,3]", val([]int32{1, 0, 3})}, {"[0]", val([]int32{0})}}, nil},
	{"[]string", pgen.F(sc(pgen.String), pgen.Slice), []tmpl{{`["p","q"]`, val([]string{"p", "q"})}, {`["a","","c"]`, val([]string{"a", "", "c"})}}, nil},
	{"[]bool", pgen.F(sc(pgen.Bool), pgen.Slice), []tmpl{{"[true,false,true]", val([]bool{true, false, true})}, {"[false]", val([]bool{false})}}, nil},
	{"[]float64", pgen.F(sc(pgen.Float64), pgen.Slice), []tmpl{{"[1.5,0,2]", val([]float64{1.5, 0, 2})}}, nil},
	{"map[int32]string", pgen.MapF(pgen.Int32, sc(pgen.String)), []tmpl{{`{"5":"five"}`, val(map[int32]string{5: "five"})}, {`{"-1":"m","0":"z"}`, val(map[int32]string{-1: "m", 0: "z"})}}, nil},
	{"map[uint64]int32", pgen.MapF(pgen.Uint64, sc(pgen.Int32)), []tmpl{{`{"18446744073709551615":1}`, val(map[uint64]int32{math.MaxUint64: 1})}}, nil},
	{"map[sint32]sfixed32", pgen.Field{Elem: enc(pgen.Int32, "fixed32"), Wrap: pgen.MapVal, Key: pgen.Int32, KeyEnc: "zigzag32"}, []tmpl{{`{"3":7}`, val(map[int32]int32{3: 7})}, {`{"-2":-5}`, val(map[int32]int32{-2: -5})}}, nil},
	{"map[sint64]bool", pgen.Field{Elem: sc(pgen.Bool), Wrap: pgen.MapVal, Key: pgen.Int64, KeyEnc: "zigzag64"}, []tmpl{{`{"3":true}`, val(map[int64]bool{3: true})}}, nil},
	{"map[fixed64]sint64", pgen.Field{Elem: enc(pgen.Int64, "zigzag64"), Wrap: pgen.MapVal, Key: pgen.Uint64, KeyEnc: "fixed64"}, []tmpl{{`{"9":-1}`, val(map[uint64]int64{9: -1})}}, nil},
	{"map[bool]string", pgen.MapF(pgen.Bool, sc(pgen.String)), []tmpl{{`{"true":"t"}`, val(map[bool]string{true: "t"})}}, nil},
	// elements of a repeated message template mention every sub-field: what a partial element inherits is not specified
	{"[]nested", pgen.F(inner, pgen.Slice), []tmpl{{`[{"F0":1,"F1":"x"},{"F0":2,"F1":"y"}]`, nil}, {`[{"F0":3,"F1":"z"}]`, nil}}, nil},
	{"fixed32", pgen.F(enc(pgen.Uint32, "fixed32"), pgen.Plain), []tmpl{{"7", val(uint32(7))}, {"4294967295", val(uint32(math.MaxUint32))}}, &bitor{proto.BitOr[uint32]{}, 0x01000010}},
	{"fixed64", pgen.F(enc(pgen.Uint64, "fixed64"), pgen.Plain), []tmpl{{"7", val(uint64(7))}}, &bitor{proto.BitOr[uint64]{}, 1 << 60}},
	{"sfixed32", pgen.F(enc(pgen.Int32, "fixed32"), pgen.Plain), []tmpl{{"5", val(int32(5))}, {"-3", val(int32(-3))}, {"-2147483648", val(int32(math.MinInt32))}}, &bitor{proto.BitOr[int32]{}, 8}},
	{"sfixed64", pgen.F(enc(pgen.Int64, "fixed64"), pgen.Plain), []tmpl{{"-3", val(int64(-3))}, {"9223372036854775807", val(int64(math.MaxInt64))}}, &bitor{proto.BitOr[int64]{}, 1 << 33}},
	{"map[string]int32", pgen.MapF(pgen.String, sc(pgen.Int32)), []tmpl{{`{"k":5}`, val(map[string]int32{"k": 5})}, {`{"k":5,"l":6}`, val(map[string]int32{"k": 5, "l": 6})}}, nil},
	{"map[string]string", pgen.MapF(pgen.String, sc(pgen.String)), []tmpl{{`{"k":"v"}`, val(map[string]string{"k": "v"})}}, nil},
	{"map[string]int64", pgen.MapF(pgen.String, sc(pgen.Int64)), []tmpl{{`{"k":5}`, val(map[string]int64{"k": 5})}, {`{"k":-3,"l":6}`, val(map[string]int64{"k": -3, "l": 6})}}, nil},
	{"map[string]sint64", pgen.Field{Elem: enc(pgen.Int64, "zigzag64"), Wrap: pgen.MapVal, Key: pgen.String}, []tmpl{{`{"k":5}`, val(map[string]int64{"k": 5})}, {`{"k":-3}`, val(map[string]int64{"k": -3})}}, nil},
	{"map[int32]int32", pgen.MapF(pgen.Int32, sc(pgen.Int32)), []tmpl{{`{"3":7}`, val(map[int32]int32{3: 7})}, {`{"-2":-5}`, val(map[int32]int32{-2: -5})}}, nil},
	{"map[string]nested", pgen.MapF(pgen.String, inner), []tmpl{{`{"k":{"F0":11,"F1":"in"}}`, mapOfInner(inner, func(v reflect.Value) { v.Field(0).SetInt(11); v.Field(1).SetString("in") })}}, nil},
	{"map[string]nested2", pgen.MapF(pgen.String, inner2), []tmpl{{`{"k":{"F0":"s","F1":7,"F2":9}}`, mapOfInner(inner2, func(v reflect.Value) { v.Field(0).SetString("s"); v.Field(1).SetInt(7); v.Field(2).SetInt(9) })}}, nil},
	// a message type that declares no fields of its own (the bytes are its own business): an empty template leaves it alone
	{"RawMessage", pgen.F(sc(pgen.RawLeaf), pgen.Plain), []tmpl{{`{}`, nil}}, nil},
	{"[]sint32", pgen.F(enc(pgen.Int32, "zigzag32"), pgen.Slice), []tmpl{{"[4,-5]", val([]int32{4, -5})}, {"[-1]", val([]int32{-1})}}, nil},
}

var numberBases = []int{1, 14, 15, 30, 31, 62, 63, 64, 254, 255, 256, 299, 2046, 2047, 70000}

// build makes the message type from chosen specs with numbers base, base+1, ...
// build: order 0 numbers the fields base, base+1, ... in declaration order; 1 in descending order; 2 gives the
// first declared field the highest number (the last declared field then never carries it).
func build(idx []int, base int, order int) *pgen.Msg {
	m := &pgen.Msg{}
	var nums []int
	n := len(idx)
	for i, k := range idx {
		f := specs[k].field
		f.Name = fmt.Sprintf("F%d", i)
		m.Fields = append(m.Fields, f)
		switch order {
		case 1:
			nums = append(nums, base+n-1-i)
		case 2:
			nums = append(nums, base+(i+n-1)%n)
		default:
			nums = append(nums, base+i)
		}
	}
	m.AssignTagged(nums)
	return m.Build()
}

// origValues: per field, the value in the input message: absent (zero) or present.
func origValue(spec *fieldSpec, f *pgen.Field, which int) reflect.Value {
	d := pgen.FieldDomain(f, false)
	switch which {
	case 0:
		return d[1] // zero / absent
	case 1:
		return d[0] // typical
	default:
		return d[2%len(d)]
	}
}

// expected applies template ti of spec to the field value cur.
func expected(spec *fieldSpec, f *pgen.Field, cur reflect.Value, t tmpl) reflect.Value {
	if t.val != nil {
		return t.val()
	}
	// nested / repeated nested templates: merge into the current value
	var obj any
	stdjson.Unmarshal([]byte(t.json), &obj)
	apply := func(dst reflect.Value, o map[string]any) {
		if x, ok := o["F0"]; ok {
			dst.Field(0).SetInt(int64(x.(float64)))
		}
		if x, ok := o["F1"]; ok {
			dst.Field(1).SetString(x.(string))
		}
	}
	switch f.Wrap {
	case pgen.Plain:
		out := reflect.New(cur.Type()).Elem()
		out.Set(cur)
		apply(out, obj.(map[string]any))
		return out
	case pgen.Ptr:
		p := reflect.New(cur.Type().Elem())
		if !cur.IsNil() {
			p.Elem().Set(cur.Elem())
		}
		apply(p.Elem(), obj.(map[string]any))
		return p
	case pgen.Slice:
		list := obj.([]any)
		s := reflect.MakeSlice(cur.Type(), len(list), len(list))
		for i, e := range list {
			apply(s.Index(i), e.(map[string]any))
		}
		return s
	}
	panic("expected")
}

type wf struct {
	num protowire.Number
	typ protowire.Type
	raw string
}

func walk(b []byte) ([]wf, bool) {
	var out []wf
	for len(b) > 0 {
		num, typ, n := protowire.ConsumeTag(b)
		if n < 0 {
			return nil, false
		}
		m := protowire.ConsumeFieldValue(num, typ, b[n:])
		if m < 0 {
			return nil, false
		}
		out = append(out, wf{num, typ, string(b[n : n+m])})
		b = b[n+m:]
	}
	return out, true
}

func trunc(b []byte) []byte {
	if len(b) > 48 {
		return b[:48]
	}
	return b
}

func templates(c *explore.Ctx) {
	maxF := 2
	if c.Thorough() {
		maxF = 3
	}
	nf := 1 + c.Choose(maxF)
	idx := make([]int, nf)
	for i := range idx {
		if i == 0 {
			idx[i] = c.Choose(len(specs))
		} else {
			idx[i] = c.Choose(8) * 3 % len(specs) // a spread subset for the companions
		}
	}
	templatesBody(c, idx, numberBases, 1)
}

func specIndex(name string) int {
	for i := range specs {
		if specs[i].name == name {
			return i
		}
	}
	panic("no field spec " + name)
}

// siblingFields: two or three fields of the same Go type that differ only in their wire encoding (what the
// package remembers per Go type must not leak from one field into its sibling).
func siblingFields(c *explore.Ctx) {
	groups := [][]string{
		{"map[string]int64", "map[string]sint64"},
		{"map[string]sint64", "map[string]int64"},
		{"map[int32]int32", "map[sint32]sfixed32"},
		{"map[sint32]sfixed32", "map[int32]int32", "int32"},
		{"map[string]int64", "string", "map[string]sint64"},
		{"int32", "sint32", "sfixed32"},
		{"sfixed64", "int64", "sint64"},
		{"[]int32", "[]sint32"},
		{"map[string]nested", "map[string]nested2"},
		{"int32", "RawMessage", "string"},
		{"RawMessage", "nested"},
		{"map[string]nested2", "int32", "map[string]nested"},
		{"[]sint32", "int32", "[]int32"},
	}
	g := groups[c.Choose(len(groups))]
	idx := make([]int, len(g))
	for i, n := range g {
		idx[i] = specIndex(n)
	}
	templatesBody(c, idx, []int{1, 2046}, 3)
}

func templatesBody(c *explore.Ctx, idx []int, bases []int, orders int) {
	nf := len(idx)
	base := bases[c.Deviate(len(bases))]
	order := 0
	if orders > 1 {
		order = c.Choose(orders)
	}
	m := build(idx, base, order)
	// input value: every field absent / present / present with another value
	v := reflect.New(m.Type).Elem()
	for i := range idx {
		v.Field(i).Set(origValue(&specs[idx[i]], &m.Fields[i], c.Choose(3)))
	}
	// template: subset of fields; per chosen field a template index, or BitOr
	type choice struct {
		on    bool
		t     int
		bitor bool
		mask  uint64
	}
	ch := make([]choice, nf)
	tj := map[string]stdjson.RawMessage{}
	rules := proto.RewriterRules{}
	exp := reflect.New(m.Type).Elem()
	exp.Set(v)
	anyOn := false
	for i := range idx {
		sp := &specs[idx[i]]
		n := len(sp.templates) + 1
		if sp.bitor != nil {
			n += 2 // the mask, and a zero mask (which must leave the value unchanged)
		}
		k := c.Choose(n)
		if k == 0 {
			continue
		}
		anyOn = true
		name := strings.ToLower(m.Fields[i].Name)
		if k >= len(sp.templates)+1 {
			ch[i] = choice{on: true, bitor: true, mask: sp.bitor.mask}
			if k == len(sp.templates)+2 {
				ch[i].mask = 0
				zb := *sp.bitor
				zb.mask = 0
				sp = &fieldSpec{name: sp.name, field: sp.field, templates: sp.templates, bitor: &zb}
			}
			tj[name] = stdjson.RawMessage(fmt.Sprint(sp.bitor.mask))
			rules[name] = sp.bitor.rule
			cur := v.Field(i)
			out := reflect.New(cur.Type()).Elem()
			if cur.CanInt() {
				out.SetInt(cur.Int() | int64(sp.bitor.mask))
			} else {
				out.SetUint(cur.Uint() | sp.bitor.mask)
			}
			exp.Field(i).Set(out)
			continue
		}
		ch[i] = choice{on: true, t: k - 1}
		t := sp.templates[k-1]
		tj[name] = stdjson.RawMessage(t.json)
		exp.Field(i).Set(expected(sp, &m.Fields[i], v.Field(i), t))
	}
	_ = anyOn
	inputKind := c.Choose(4) // 0 canonical; 1 unknown fields interleaved; 2 every scalar field present twice; 3 empty input
	prefix := [][]byte{nil, []byte("PFX")}[c.Choose(2)]

	tmplJSON, _ := stdjson.Marshal(tj)
	desc := fmt.Sprintf("%s = %s, template %s (BitOr rules: %d), input kind %d", m, pgen.Describe(v), tmplJSON, len(rules), inputKind)
	shape := "templated=" + templatedNames(idx, ch2(ch)) + numClass(m, len(idx))

	var typ proto.Type
	if pv, ps := explore.Catch(func() { typ = proto.TypeOf(m.Type) }); pv != nil {
		c.Fail("TypeOf:panic:"+ps, "TypeOf(%s) panicked: %v", m, pv)
		return
	}
	var rw proto.Rewriter
	var err error
	tmplCopy := append([]byte{}, tmplJSON...)
	if pv, ps := explore.Catch(func() {
		if len(rules) > 0 {
			// the same template was parsed for this type before, without rules: what is remembered of that
			// must not stand in for this call
			proto.ParseRewriteTemplate(typ, tmplJSON)
			rw, err = proto.ParseRewriteTemplate(typ, tmplJSON, rules)
		} else {
			rw, err = proto.ParseRewriteTemplate(typ, tmplJSON)
		}
	}); pv != nil {
		c.Fail("ParseRewriteTemplate:panic:"+ps+":"+explore.PanicClass(pv), "ParseRewriteTemplate panicked: %v for %s", pv, desc)
		return
	}
	if err != nil {
		c.Fail("ParseRewriteTemplate:error:"+shape, "ParseRewriteTemplate failed: %v for %s", err, desc)
		return
	}
	in, merr := proto.Marshal(v.Addr().Interface())
	if merr != nil {
		c.Outcome("marshal-fails(C03)")
		return
	}
	canonical := true
	switch inputKind {
	case 1:
		fs, _ := walk(in)
		var b []byte
		unk := protowire.AppendVarint(protowire.AppendTag(nil, protowire.Number(base+10), protowire.VarintType), 77)
		unk2 := protowire.AppendBytes(protowire.AppendTag(nil, 100000, protowire.BytesType), []byte("unknown"))
		b = append(b, unk...)
		for _, f := range fs {
			b = protowire.AppendTag(b, f.num, f.typ)
			b = append(b, f.raw...)
			b = append(b, unk2...)
		}
		in = b
	case 2:
		fs, _ := walk(in)
		var b []byte
		for _, f := range fs {
			sp := fieldByNum(m, int(f.num))
			if sp != nil && sp.Wrap == pgen.Plain && sp.Elem.Kind != pgen.Message && sp.Elem.Kind != pgen.RawLeaf { // scalars only: "old" is not a message
				// an earlier occurrence with another value, then the real one
				b = protowire.AppendTag(b, f.num, f.typ)
				switch f.typ {
				case protowire.VarintType:
					b = append(b, 0x03)
				case protowire.Fixed32Type:
					b = append(b, 9, 9, 9, 9)
				case protowire.Fixed64Type:
					b = append(b, 9, 9, 9, 9, 9, 9, 9, 9)
				case protowire.BytesType:
					b = protowire.AppendBytes(b, []byte("old"))
				}
			}
			b = protowire.AppendTag(b, f.num, f.typ)
			b = append(b, f.raw...)
		}
		in = b
		canonical = false
	case 3:
		in = nil
		// the original value is then the zero value
		exp2 := reflect.New(m.Type).Elem()
		for i := range idx {
			if ch[i].on {
				sp := &specs[idx[i]]
				if ch[i].bitor {
					out := reflect.New(v.Field(i).Type()).Elem()
					if out.CanInt() {
						out.SetInt(int64(ch[i].mask))
					} else {
						out.SetUint(ch[i].mask)
					}
					exp2.Field(i).Set(out)
				} else {
					exp2.Field(i).Set(expected(sp, &m.Fields[i], exp2.Field(i), sp.templates[ch[i].t]))
				}
			}
		}
		exp = exp2
	}
	inCopy := append([]byte{}, in...)
	var out []byte
	if pv, ps := explore.Catch(func() { out, err = rw.Rewrite(append([]byte{}, prefix...), in) }); pv != nil {
		c.Fail("Rewrite:panic:"+ps+":"+explore.PanicClass(pv), "Rewrite panicked: %v for %s (input % x)", pv, desc, trunc(in))
		return
	}
	if err != nil {
		c.Fail("Rewrite:error:"+shape, "Rewrite failed: %v for %s (input % x)", err, desc, trunc(in))
		return
	}
	if !bytes.Equal(in, inCopy) {
		c.Fail("Rewrite:input-modified", "input modified for %s", desc)
	}
	if !bytes.Equal(tmplJSON, tmplCopy) {
		c.Fail("Rewrite:template-modified", "template modified for %s", desc)
	}
	if !bytes.HasPrefix(out, prefix) {
		c.Fail("Rewrite:prefix-lost", "output does not start with the bytes already in out for %s", desc)
		return
	}
	out = out[len(prefix):]
	ofs, ok := walk(out)
	if !ok {
		c.Fail("Rewrite:invalid-output:"+shape, "output % x is not a well-formed message for %s (input % x)", trunc(out), desc, trunc(in))
		return
	}
	got := reflect.New(m.Type)
	if uerr := proto.Unmarshal(out, got.Interface()); uerr != nil {
		c.Fail("Rewrite:output-does-not-decode:"+shape, "Unmarshal(output % x) fails: %v for %s (input % x)", trunc(out), uerr, desc, trunc(in))
		return
	}
	if ds := pgen.Diffs(exp, got.Elem()); len(ds) > 0 {
		// localise: the spec and template state of the field that differs
		loc := shape
		var fi int
		if _, err := fmt.Sscanf(ds[0].Path, ".F%d", &fi); err == nil && fi < len(idx) {
			loc = shapeOf(m, idx[fi:fi+1], ch2(ch)[fi:fi+1])
			if !ch[fi].on {
				loc += "(untouched; templated: " + templatedNames(idx, ch2(ch)) + ")"
			}
		}
		// one phenomenon, one signature: BitOr applied to the first of several occurrences instead of the effective (last) one
		if inputKind == 2 && fi < len(idx) && ch[fi].bitor && specs[idx[fi]].field.Wrap == pgen.Plain {
			g := got.Elem().Field(fi)
			mask := ch[fi].mask
			first := uint64(3) // the earlier occurrence written by input kind 2 (varint 3 / fixed 0x09090909..)
			if strings.HasPrefix(specs[idx[fi]].name, "fixed32") || strings.HasPrefix(specs[idx[fi]].name, "sfixed32") {
				first = 0x09090909
			} else if strings.HasPrefix(specs[idx[fi]].name, "fixed64") || strings.HasPrefix(specs[idx[fi]].name, "sfixed64") {
				first = 0x0909090909090909
			} else if strings.HasPrefix(specs[idx[fi]].name, "sint") {
				first = ^uint64(1) // -2: zig-zag 3
			}
			var gv uint64
			if g.CanInt() {
				gv = uint64(g.Int())
			} else {
				gv = g.Uint()
			}
			var fv uint64
			if g.CanInt() {
				w := reflect.New(g.Type()).Elem()
				w.SetInt(int64(first) | int64(mask))
				fv = uint64(w.Int())
			} else {
				w := reflect.New(g.Type()).Elem()
				w.SetUint(first | mask)
				fv = w.Uint()
			}
			if gv == fv {
				loc = "bitor-applied-to-first-of-several-occurrences"
			}
		}
		c.Fail("Rewrite:wrong-value:"+loc, "output % x decodes differently at %s: %s; for %s (input % x)", trunc(out), ds[0].Path, ds[0].Why, desc, trunc(in))
	}
	// untouched fields: same order, same bytes
	templated := map[protowire.Number]bool{}
	for i := range idx {
		if ch[i].on {
			templated[protowire.Number(m.Fields[i].Number)] = true
		}
	}
	ifs, _ := walk(in)
	var a, b []wf
	for _, f := range ifs {
		if !templated[f.num] {
			a = append(a, f)
		}
	}
	for _, f := range ofs {
		if !templated[f.num] {
			b = append(b, f)
		}
	}
	same := len(a) == len(b)
	for i := 0; same && i < len(a); i++ {
		same = a[i] == b[i]
	}
	if !same {
		c.Fail("Rewrite:untouched-fields-changed:"+shape, "fields the template does not mention differ (canonical input: %v): in %v, out %v; for %s", canonical, a, b, desc)
	}
	c.NontrivialStr(m.String(), pgen.Describe(v), string(tmplJSON), fmt.Sprint(inputKind, len(prefix)))
	c.Outcome(fmt.Sprintf("templated=%d input=%d", len(templated), inputKind))
	if c.WantSample() || c.Failed() {
		c.Case(map[string]any{"type": m.String(), "value": pgen.Describe(v), "template": string(tmplJSON), "bitor_rules": len(rules), "input_kind": inputKind, "input": fmt.Sprintf("%x", trunc(in)), "output": fmt.Sprintf("%x", trunc(out))})
	}
}

type chView struct{ on, bitor bool }

func ch2(ch any) []chView {
	v := reflect.ValueOf(ch)
	out := make([]chView, v.Len())
	for i := range out {
		out[i] = chView{v.Index(i).Field(0).Bool(), v.Index(i).Field(2).Bool()}
	}
	return out
}

func shapeOf(m *pgen.Msg, idx []int, ch []chView) string {
	var parts []string
	for i, k := range idx {
		s := specs[k].name
		if ch[i].bitor {
			s += "|bitor"
		} else if ch[i].on {
			s += "|tmpl"
		}
		parts = append(parts, s)
	}
	return strings.Join(parts, ";") + numClass(m, len(idx))
}

func numClass(m *pgen.Msg, n int) string {
	switch first := m.Fields[0].Number; {
	case first >= 65536:
		return "#>=65536"
	case first+n > 255:
		return "#>=256"
	case first+n > 63:
		return "#>=64"
	}
	return ""
}

func templatedNames(idx []int, ch []chView) string {
	var parts []string
	for i, k := range idx {
		if ch[i].on {
			parts = append(parts, specs[k].name)
		}
	}
	return strings.Join(parts, ",")
}

func fieldByNum(m *pgen.Msg, n int) *pgen.Field {
	for i := range m.Fields {
		if m.Fields[i].Number == n {
			return &m.Fields[i]
		}
	}
	return nil
}

// ---- hand-assembled MessageRewriter / MultiRewriter

func manual(c *explore.Ctx) {
	num := []int{1, 2, 15, 16, 63, 64, 65, 255, 256, 257, 300, 2048}[c.Choose(12)]
	other := []int{1, 3, 64, 256, 1000}[c.Choose(5)]
	if other == num {
		other++
	}
	kind := c.Choose(5)
	present := c.Choose(3) // templated field absent / once / twice in the input
	multi := c.Choose(3)   // plain / MultiRewriter() around it / MultiRewriter of none
	fn := proto.FieldNumber(num)
	var repl proto.RawMessage
	var wantRaw []byte
	switch kind {
	case 0:
		repl, wantRaw = fn.Int64(-5), protowire.AppendVarint(protowire.AppendTag(nil, protowire.Number(num), protowire.VarintType), uint64(0xfffffffffffffffb))
	case 1:
		repl, wantRaw = fn.String("new"), protowire.AppendBytes(protowire.AppendTag(nil, protowire.Number(num), protowire.BytesType), []byte("new"))
	case 2:
		repl, wantRaw = fn.Fixed32(0xdeadbeef), protowire.AppendFixed32(protowire.AppendTag(nil, protowire.Number(num), protowire.Fixed32Type), 0xdeadbeef)
	case 3:
		repl, wantRaw = fn.Float64(2.5), protowire.AppendFixed64(protowire.AppendTag(nil, protowire.Number(num), protowire.Fixed64Type), math.Float64bits(2.5))
	case 4:
		repl, wantRaw = fn.Bool(true), protowire.AppendVarint(protowire.AppendTag(nil, protowire.Number(num), protowire.VarintType), 1)
	}
	mr := make(proto.MessageRewriter, num+1)
	mr[num] = repl
	var rw proto.Rewriter = mr
	switch multi {
	case 1:
		rw = proto.MultiRewriter(mr)
	case 2:
		rw = proto.MultiRewriter()
	}
	// input: other field, [templated field]*, other field again
	keep1 := protowire.AppendVarint(protowire.AppendTag(nil, protowire.Number(other), protowire.VarintType), 300)
	keep2 := protowire.AppendBytes(protowire.AppendTag(nil, protowire.Number(other+1), protowire.BytesType), []byte("keep"))
	if other+1 == num {
		keep2 = protowire.AppendBytes(protowire.AppendTag(nil, protowire.Number(other+2), protowire.BytesType), []byte("keep"))
	}
	old := protowire.AppendVarint(protowire.AppendTag(nil, protowire.Number(num), protowire.VarintType), 9)
	in := append([]byte{}, keep1...)
	for i := 0; i < present; i++ {
		in = append(in, old...)
		in = append(in, keep2...)
	}
	var out []byte
	var err error
	desc := fmt.Sprintf("MessageRewriter{%d: kind %d}, multi=%d, input % x", num, kind, multi, in)
	if pv, ps := explore.Catch(func() { out, err = rw.Rewrite(nil, in) }); pv != nil {
		c.Fail("manual:panic:"+ps+":"+explore.PanicClass(pv), "Rewrite panicked: %v for %s", pv, desc)
		return
	}
	if err != nil {
		c.Fail("manual:error", "Rewrite failed: %v for %s", err, desc)
		return
	}
	var want []byte
	if multi == 2 {
		want = nil
	} else {
		want = append(want, keep1...)
		if present == 0 {
			want = append(want, wantRaw...)
		}
		for i := 0; i < present; i++ {
			if i == 0 {
				want = append(want, wantRaw...)
			}
			want = append(want, keep2...)
		}
	}
	if !bytes.Equal(out, want) {
		c.Fail(fmt.Sprintf("manual:wrong-output:kind%d:present%d:multi%d", kind, present, multi), "output % x, want % x for %s", out, want, desc)
	}
	c.NontrivialStr("manual", fmt.Sprint(num, other, kind, present, multi))
	c.Outcome(fmt.Sprintf("present=%d multi=%d", present, multi))
	if c.WantSample() || c.Failed() {
		c.Case(map[string]any{"rewriter": desc, "output": fmt.Sprintf("%x", out)})
	}
}

// ---- field construction helpers against protowire

var helperNumbers = []int{1, 2, 15, 16, 31, 32, 2047, 2048, 65535, 65536, 1<<29 - 1}

func helpers(c *explore.Ctx) {
	num := helperNumbers[c.Choose(len(helperNumbers))]
	fn := proto.FieldNumber(num)
	pn := protowire.Number(num)
	n := 0
	check := func(name string, got proto.RawMessage, want []byte) {
		n++
		if !bytes.Equal(got, want) {
			c.Fail("helper:"+name, "FieldNumber(%d).%s = % x, protowire % x", num, name, []byte(got), want)
			return
		}
		f, t, v, rest, err := proto.Parse(got)
		if err != nil || int(f) != num || len(rest) != 0 {
			c.Fail("helper:Parse:"+name, "Parse(% x) = (%d, %v, % x, rest % x, %v)", []byte(got), f, t, []byte(v), []byte(rest), err)
		}
	}
	tagV := func(v uint64) []byte {
		return protowire.AppendVarint(protowire.AppendTag(nil, pn, protowire.VarintType), v)
	}
	for _, x := range []int64{0, 1, -1, 127, 128, math.MaxInt32, math.MinInt32, math.MaxInt64, math.MinInt64} {
		check("Int64", fn.Int64(x), tagV(uint64(x)))
		check("Int", fn.Int(int(x)), tagV(uint64(x)))
		check("Int32", fn.Int32(int32(x)), tagV(uint64(int64(int32(x)))))
		check("Uint64", fn.Uint64(uint64(x)), tagV(uint64(x)))
		check("Uint", fn.Uint(uint(x)), tagV(uint64(x)))
		check("Uint32", fn.Uint32(uint32(x)), tagV(uint64(uint32(x))))
		check("Fixed32", fn.Fixed32(uint32(x)), protowire.AppendFixed32(protowire.AppendTag(nil, pn, protowire.Fixed32Type), uint32(x)))
		check("Fixed64", fn.Fixed64(uint64(x)), protowire.AppendFixed64(protowire.AppendTag(nil, pn, protowire.Fixed64Type), uint64(x)))
		check("Value(int64)", fn.Value(x), tagV(uint64(x)))
		check("Value(uint32)", fn.Value(uint32(x)), tagV(uint64(uint32(x))))
		check("AppendVarint", proto.AppendVarint(nil, fn, uint64(x)), tagV(uint64(x)))
	}
	check("Bool(true)", fn.Bool(true), tagV(1))
	check("Bool(false)", fn.Bool(false), tagV(0))
	for _, x := range []float64{0, 1, -1.5, math.Inf(1), math.MaxFloat64, math.SmallestNonzeroFloat64} {
		check("Float64", fn.Float64(x), protowire.AppendFixed64(protowire.AppendTag(nil, pn, protowire.Fixed64Type), math.Float64bits(x)))
		check("Float32", fn.Float32(float32(x)), protowire.AppendFixed32(protowire.AppendTag(nil, pn, protowire.Fixed32Type), math.Float32bits(float32(x))))
		check("Value(float64)", fn.Value(x), protowire.AppendFixed64(protowire.AppendTag(nil, pn, protowire.Fixed64Type), math.Float64bits(x)))
	}
	for _, l := range []int{0, 1, 127, 128, 16383, 16384} {
		b := bytes.Repeat([]byte{'x'}, l)
		want := protowire.AppendBytes(protowire.AppendTag(nil, pn, protowire.BytesType), b)
		check("String", fn.String(string(b)), want)
		check("Bytes", fn.Bytes(b), want)
		check("AppendVarlen", proto.AppendVarlen(nil, fn, b), want)
		check("Value([]byte)", fn.Value(b), want)
		pre := proto.RawMessage("pre")
		if got := proto.AppendVarlen(pre, fn, b); !bytes.Equal(got, append([]byte("pre"), want...)) {
			c.Fail("helper:AppendVarlen:prefix", "AppendVarlen does not append after existing content for field %d len %d", num, l)
		}
	}
	c.Inner(int64(n))
	c.Nontrivial(uint64(num))
	c.Outcome("helpers")
	c.Case(map[string]any{"field_number": num, "helper_calls": n})
}

// ---- two templated fields (seen-set indexing) and repeated application (outputs must not alias the template)

var pairNumbers = [][2]int{{1, 33}, {7, 39}, {2, 34}, {31, 63}, {1, 2}, {1, 65}, {5, 37}, {64 + 3, 64 + 35}, {100, 132}, {63, 64}, {32, 64}, {1, 129}}

func manualPairs(c *explore.Ctx) {
	pr := pairNumbers[c.Choose(len(pairNumbers))]
	a, b := pr[0], pr[1]
	presA, presB := c.Choose(3), c.Choose(3) // absent / once / twice
	order := c.Choose(2)                     // a's occurrences first, or b's
	lead := c.Bool()                         // an untemplated field before everything
	fa, fb := proto.FieldNumber(a), proto.FieldNumber(b)
	tag := func(n int, v uint64) []byte {
		return protowire.AppendVarint(protowire.AppendTag(nil, protowire.Number(n), protowire.VarintType), v)
	}
	mr := make(proto.MessageRewriter, b+1)
	// templates with spare capacity (as ParseRewriteTemplate builds them): an output that aliased a template
	// would be extended in place
	roomy := func(m proto.RawMessage) proto.RawMessage { return append(make(proto.RawMessage, 0, 256), m...) }
	mr[a], mr[b] = roomy(fa.Int64(111)), roomy(fb.String("bee"))
	wantA := tag(a, 111)
	wantB := protowire.AppendBytes(protowire.AppendTag(nil, protowire.Number(b), protowire.BytesType), []byte("bee"))
	keepNum := 200
	build := func(val, keepVal uint64) (in, want []byte) {
		occ := func(n, count int, repl []byte) {
			for i := 0; i < count; i++ {
				in = append(in, tag(n, val+uint64(i))...)
				if i == 0 {
					want = append(want, repl...)
				}
				in = append(in, tag(keepNum, keepVal)...)
				want = append(want, tag(keepNum, keepVal)...)
			}
		}
		if lead {
			in = append(in, tag(keepNum+1, 9)...)
			want = append(want, tag(keepNum+1, 9)...)
		}
		if order == 0 {
			occ(a, presA, wantA)
			occ(b, presB, wantB)
		} else {
			occ(b, presB, wantB)
			occ(a, presA, wantA)
		}
		// templated fields that the input lacks are appended in field number order
		if presA == 0 {
			want = append(want, wantA...)
		}
		if presB == 0 {
			want = append(want, wantB...)
		}
		return
	}
	in1, want1 := build(9, 5)
	in2, want2 := build(1000, 77)
	desc := fmt.Sprintf("MessageRewriter{%d: int64, %d: string}, occurrences %d/%d, order %d, lead %v", a, b, presA, presB, order, lead)
	var out1, out2, out3 []byte
	var e1, e2, e3 error
	if pv, ps := explore.Catch(func() {
		out1, e1 = mr.Rewrite(nil, in1)
		snap := append([]byte{}, out1...)
		out2, e2 = mr.Rewrite(nil, in2)
		out3, e3 = mr.Rewrite(nil, in1)
		if !bytes.Equal(out1, snap) {
			c.Fail("pairs:earlier-output-changed-by-later-Rewrite", "the output of the first Rewrite (% x) became % x after the rewriter was applied again, for %s", snap, out1, desc)
		}
	}); pv != nil {
		c.Fail("pairs:panic:"+ps+":"+explore.PanicClass(pv), "Rewrite panicked: %v for %s", pv, desc)
		return
	}
	if e1 != nil || e2 != nil || e3 != nil {
		c.Fail("pairs:error", "Rewrite failed: %v %v %v for %s", e1, e2, e3, desc)
		return
	}
	if !bytes.Equal(out1, want1) && !c.Failed() {
		c.Fail(fmt.Sprintf("pairs:wrong-output:distance=%d", b-a), "output % x, want % x for %s (input % x)", out1, want1, desc, in1)
	}
	if !bytes.Equal(out2, want2) && !c.Failed() {
		c.Fail("pairs:wrong-output:second-application", "second application gives % x, want % x for %s", out2, want2, desc)
	}
	if !bytes.Equal(out3, want1) && !c.Failed() {
		c.Fail("pairs:wrong-output:third-application", "third application gives % x, want % x for %s", out3, want1, desc)
	}
	c.NontrivialStr("pairs", fmt.Sprint(a, b, presA, presB, order, lead))
	c.Outcome(fmt.Sprintf("presA=%d presB=%d", presA, presB))
	if c.WantSample() || c.Failed() {
		c.Case(map[string]any{"rewriter": desc, "input": fmt.Sprintf("%x", in1), "output": fmt.Sprintf("%x", out1)})
	}
}

// Spec returns the C19 check.
func Spec() *explore.Spec {
	return &explore.Spec{
		ID: "C19",
		Families: []*explore.Family{
			{Name: "templates", ShardDepth: 2, Body: templates, Bound: func(tier string) int {
				if tier == "thorough" {
					return 1
				}
				return 1
			},
				Doc: "message types of 1-3 fields (21 field shapes: every integer kind, sint, bool, string, bytes, floats, pointer, nested, pointer-to-nested, repeated scalar/string/nested, string-keyed maps) x 15 field-number bases (1..70000) x input value per field {absent, present, other} x template per field {not mentioned, each template value, BitOr rule} x input form {canonical, unknown fields interleaved, scalars present twice, empty} x {empty out, out with a prefix}"},
			{Name: "sibling-fields", ShardDepth: 2, Body: siblingFields, Bound: func(string) int { return 1 }, Doc: "11 message types whose fields share a Go type but not a wire encoding, or are maps of different messages of the same (empty) name (map[string]int64 next to a map with sint64 values, map[int32]int32 next to sint32 keys / sfixed32 values, int32 / sint32 / sfixed32, []int32 / []sint32, in both orders, with a third field) x 2 field-number bases x 3 numberings (ascending, descending, the first declared field carrying the highest number) x the templates family's input values, template subsets and input forms"},
			{Name: "manual", ShardDepth: 2, Body: manual, Doc: "hand-assembled MessageRewriter / MultiRewriter for field numbers 1..2048 x replacement kinds x {absent, once, twice} : output compared byte-for-byte"},
			{Name: "manual-pairs", ShardDepth: 2, Body: manualPairs, Doc: "rewriters templating two fields (12 number pairs incl. 32 and 64 apart within and across 64-blocks) x each field absent / once / twice x input order x leading untemplated field; applied three times with a nil output buffer: byte-exact outputs, and an earlier output is not changed by a later application"},
			{Name: "helpers", ShardDepth: 1, Body: helpers, Doc: "FieldNumber.{Bool,Int*,Uint*,Fixed*,Float*,String,Bytes,Value} and Append* on boundary values x 11 field numbers vs protowire, then Parse"},
		},
		Rule: "every (type, numbering, input value, template subset/value, input form) within the bound; distinct non-trivial = distinct (type, value, template, input form) tuples",
		Assumptions: []string{
			"the expected result is computed by a Go-level model: the decoded input value with the templated fields replaced (nested templates merged field by field, repeated and map templates replace the whole field, BitOr = value | mask)",
			"zero values in templates mean 'not templated' (documented by the parse functions) and are not used as template values",
			"protowire v1.25.0 is the reference for the field-construction helpers and for well-formedness",
			"templates for maps use string keys only (the template syntax is a JSON object)",
		},
	}
}

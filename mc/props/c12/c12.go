// Package c12: proto bytes are standard protobuf wire format, both ways (DESIGN.md §5 C12).
package c12

import (
	"fmt"
	"reflect"
	"sort"
	"strings"

	segproto "github.com/segmentio/encoding/proto"
	"google.golang.org/protobuf/encoding/protowire"
	"verif/mc/explore"
	"verif/mc/gen/pgen"
	"verif/mc/gen/pref"
)

func trunc(b []byte) []byte {
	if len(b) > 48 {
		return b[:48]
	}
	return b
}

func shapeOf(m *pgen.Msg) string {
	var parts []string
	for _, f := range m.Fields {
		fs := f.String()
		if j := strings.LastIndexByte(fs, '#'); j >= 0 {
			cls := ""
			switch {
			case f.Number > 65535:
				cls = "#>65535"
			case f.Number > 2047:
				cls = "#>2047"
			}
			fs = fs[:j] + cls
		}
		parts = append(parts, fs)
	}
	s := strings.Join(parts, ";")
	if len(s) > 110 {
		s = s[:110]
	}
	return s
}

// classify turns a list of differences into (signature kind, message).
func classify(ds []pgen.Diff) (string, string) {
	d := ds[0]
	if d.NilLost && d.Want.Elem().Kind() == reflect.Struct && pgen.ContentFree(d.Want.Elem()) {
		return "non-nil-pointer-to-content-free-message-omitted", d.Path + ": " + d.Why
	}
	if d.Want.Kind() == reflect.Map && !d.Want.IsNil() && d.Want.Len() == 0 && strings.Contains(d.Why, "map len 0 != 1") {
		return "empty-non-nil-map-written-as-default-entry", d.Path + ": " + d.Why
	}
	return "value-differs", d.Path + ": " + d.Why
}

// hasEmptyNonNilMap reports whether v contains a non-nil map without entries.
func hasEmptyNonNilMap(v reflect.Value) bool {
	switch v.Kind() {
	case reflect.Map:
		if !v.IsNil() && v.Len() == 0 {
			return true
		}
		it := v.MapRange()
		for it.Next() {
			if hasEmptyNonNilMap(it.Value()) {
				return true
			}
		}
	case reflect.Ptr:
		return !v.IsNil() && hasEmptyNonNilMap(v.Elem())
	case reflect.Slice, reflect.Array:
		for i := 0; i < v.Len(); i++ {
			if hasEmptyNonNilMap(v.Index(i)) {
				return true
			}
		}
	case reflect.Struct:
		for i := 0; i < v.NumField(); i++ {
			if v.Type().Field(i).PkgPath == "" && hasEmptyNonNilMap(v.Field(i)) {
				return true
			}
		}
	}
	return false
}

// ---- wire rewriting

type wfield struct {
	num protowire.Number
	typ protowire.Type
	val []byte // varint: raw varint bytes; fixed: bytes; bytes: payload
}

func parse(b []byte) ([]wfield, bool) {
	var out []wfield
	for len(b) > 0 {
		num, typ, n := protowire.ConsumeTag(b)
		if n < 0 {
			return nil, false
		}
		b = b[n:]
		switch typ {
		case protowire.VarintType:
			_, m := protowire.ConsumeVarint(b)
			if m < 0 {
				return nil, false
			}
			out = append(out, wfield{num, typ, b[:m]})
			b = b[m:]
		case protowire.Fixed32Type:
			if len(b) < 4 {
				return nil, false
			}
			out = append(out, wfield{num, typ, b[:4]})
			b = b[4:]
		case protowire.Fixed64Type:
			if len(b) < 8 {
				return nil, false
			}
			out = append(out, wfield{num, typ, b[:8]})
			b = b[8:]
		case protowire.BytesType:
			v, m := protowire.ConsumeBytes(b)
			if m < 0 {
				return nil, false
			}
			out = append(out, wfield{num, typ, v})
			b = b[m:]
		default:
			return nil, false
		}
	}
	return out, true
}

func padVarint(v []byte, total int) []byte {
	if len(v) >= total {
		return v
	}
	out := append([]byte{}, v...)
	out[len(out)-1] |= 0x80
	for len(out) < total-1 {
		out = append(out, 0x80)
	}
	return append(out, 0x00)
}

func emit(fs []wfield, nonMinimal bool) []byte {
	var b []byte
	for _, f := range fs {
		tag := protowire.AppendTag(nil, f.num, f.typ)
		if nonMinimal {
			tag = padVarint(tag, len(tag)+1)
		}
		b = append(b, tag...)
		switch f.typ {
		case protowire.BytesType:
			l := protowire.AppendVarint(nil, uint64(len(f.val)))
			if nonMinimal {
				l = padVarint(l, len(l)+2)
			}
			b = append(b, l...)
			b = append(b, f.val...)
		case protowire.VarintType:
			v := f.val
			if nonMinimal {
				v = padVarint(v, 10)
			}
			b = append(b, v...)
		default:
			b = append(b, f.val...)
		}
	}
	return b
}

func fieldOf(m *pgen.Msg, num protowire.Number) *pgen.Field {
	for i := range m.Fields {
		if !m.Fields[i].Skip && m.Fields[i].Number == int(num) {
			return &m.Fields[i]
		}
	}
	return nil
}

func isMsgField(f *pgen.Field) bool {
	return f != nil && f.Elem.Kind == pgen.Message && f.Wrap != pgen.MapVal && f.Wrap != pgen.MapValPtr
}

func isMapField(f *pgen.Field) bool {
	return f != nil && (f.Wrap == pgen.MapVal || f.Wrap == pgen.MapValPtr)
}

// rewriteNonMinimal pads every tag, length and varint, recursively.
func rewriteNonMinimal(b []byte, m *pgen.Msg) [][]byte {
	var rec func(b []byte, m *pgen.Msg) []byte
	rec = func(b []byte, m *pgen.Msg) []byte {
		fs, ok := parse(b)
		if !ok {
			return b
		}
		for i := range fs {
			if fs[i].typ != protowire.BytesType || m == nil {
				continue
			}
			f := fieldOf(m, fs[i].num)
			switch {
			case isMsgField(f):
				fs[i].val = rec(fs[i].val, f.Elem.Msg)
			case isMapField(f):
				es, ok := parse(fs[i].val)
				if ok {
					for j := range es {
						if es[j].num == 2 && es[j].typ == protowire.BytesType && f.Elem.Kind == pgen.Message {
							es[j].val = rec(es[j].val, f.Elem.Msg)
						}
					}
					fs[i].val = emit(es, true)
				}
			}
		}
		return emit(fs, true)
	}
	return [][]byte{rec(b, m)}
}

// rewriteOrder emits the fields grouped by number in other orders (the
// relative order of occurrences of one number is kept).
func rewriteOrder(b []byte, m *pgen.Msg) [][]byte {
	fs, ok := parse(b)
	if !ok || len(fs) < 2 {
		return nil
	}
	var nums []int
	groups := map[int][]wfield{}
	for _, f := range fs {
		if _, ok := groups[int(f.num)]; !ok {
			nums = append(nums, int(f.num))
		}
		groups[int(f.num)] = append(groups[int(f.num)], f)
	}
	if len(nums) < 2 {
		return nil
	}
	var out [][]byte
	perms := [][]int{}
	rev := append([]int{}, nums...)
	sort.Sort(sort.Reverse(sort.IntSlice(rev)))
	perms = append(perms, rev)
	for r := 1; r < len(nums); r++ {
		perms = append(perms, append(append([]int{}, nums[r:]...), nums[:r]...))
	}
	for _, p := range perms {
		var o []wfield
		for _, n := range p {
			o = append(o, groups[n]...)
		}
		out = append(out, emit(o, false))
	}
	// interleave: occurrences of different numbers alternate (legal for repeated fields)
	var inter []wfield
	for i := 0; ; i++ {
		added := false
		for _, n := range nums {
			if i < len(groups[n]) {
				inter = append(inter, groups[n][i])
				added = true
			}
		}
		if !added {
			break
		}
	}
	out = append(out, emit(inter, false))
	return out
}

// rewriteDupScalar puts an earlier, different occurrence before every singular scalar field.
func rewriteDupScalar(b []byte, m *pgen.Msg) [][]byte {
	fs, ok := parse(b)
	if !ok {
		return nil
	}
	var out [][]byte
	for i, wf := range fs {
		f := fieldOf(m, wf.num)
		if f == nil || f.Elem.Kind == pgen.Message || (f.Wrap != pgen.Plain && f.Wrap != pgen.Ptr) {
			continue
		}
		other := wfield{wf.num, wf.typ, nil}
		switch wf.typ {
		case protowire.VarintType:
			other.val = []byte{0x07}
			if len(wf.val) == 1 && wf.val[0] == 0x07 {
				other.val = []byte{0x01}
			}
		case protowire.Fixed32Type:
			other.val = []byte{1, 2, 3, 4}
		case protowire.Fixed64Type:
			other.val = []byte{1, 2, 3, 4, 5, 6, 7, 8}
		case protowire.BytesType:
			other.val = []byte(strings.Repeat("Z", len(wf.val)))
			if f.Elem.Kind != pgen.ByteArray {
				other.val = append(other.val, 'q')
			}
		}
		v := append(append(append([]wfield{}, fs[:i]...), other), fs[i:]...)
		out = append(out, emit(v, false))
		// the earlier occurrence may also come first in the message
		v2 := append([]wfield{other}, fs...)
		out = append(out, emit(v2, false))
	}
	return out
}

// rewriteSplit splits singular embedded messages into two occurrences at every inner boundary.
func rewriteSplit(b []byte, m *pgen.Msg) [][]byte {
	fs, ok := parse(b)
	if !ok {
		return nil
	}
	var out [][]byte
	for i, wf := range fs {
		f := fieldOf(m, wf.num)
		if !isMsgField(f) || (f.Wrap != pgen.Plain && f.Wrap != pgen.Ptr) {
			continue
		}
		inner, ok := parse(wf.val)
		if !ok {
			continue
		}
		for cut := 0; cut <= len(inner); cut++ {
			a := wfield{wf.num, wf.typ, emit(inner[:cut], false)}
			c := wfield{wf.num, wf.typ, emit(inner[cut:], false)}
			v := append(append(append([]wfield{}, fs[:i]...), a, c), fs[i+1:]...)
			out = append(out, emit(v, false))
			// the second part may arrive after the other fields
			v2 := append(append(append([]wfield{}, fs[:i]...), a), fs[i+1:]...)
			v2 = append(v2, c)
			out = append(out, emit(v2, false))
		}
	}
	return out
}

func zeroWire(f wfield) bool {
	for _, x := range f.val {
		if x != 0 {
			return false
		}
	}
	return f.typ != protowire.BytesType || len(f.val) == 0
}

// rewriteMapEntries swaps key/value order and omits zero keys / values.
func rewriteMapEntries(b []byte, m *pgen.Msg) [][]byte {
	fs, ok := parse(b)
	if !ok {
		return nil
	}
	var out [][]byte
	for i, wf := range fs {
		f := fieldOf(m, wf.num)
		if !isMapField(f) {
			continue
		}
		es, ok := parse(wf.val)
		if !ok {
			continue
		}
		variant := func(es2 []wfield) {
			nf := wfield{wf.num, wf.typ, emit(es2, false)}
			v := append(append(append([]wfield{}, fs[:i]...), nf), fs[i+1:]...)
			out = append(out, emit(v, false))
		}
		if len(es) == 2 {
			variant([]wfield{es[1], es[0]})
		}
		for j, e := range es {
			isMsgValue := e.num == 2 && f.Elem.Kind == pgen.Message
			_ = isMsgValue
			// a missing value means the default value; for Go maps of pointers no .proto equivalent says whether that is nil
			if zeroWire(e) && f.Wrap != pgen.MapValPtr {
				variant(append(append([]wfield{}, es[:j]...), es[j+1:]...))
			}
		}
		// key written twice: the last one wins
		if len(es) >= 1 && es[0].num == 1 {
			dup := es[0]
			switch dup.typ {
			case protowire.VarintType:
				dup.val = []byte{0x63}
			case protowire.BytesType:
				dup.val = []byte("other")
			}
			variant(append([]wfield{dup}, es...))
		}
	}
	return out
}

type rewrite struct {
	name string
	f    func([]byte, *pgen.Msg) [][]byte
}

var rewrites = []rewrite{{"nonminimal", rewriteNonMinimal}, {"order", rewriteOrder}, {"dup-scalar", rewriteDupScalar}, {"split-message", rewriteSplit}, {"map-entry", rewriteMapEntries}}

// ---- the check

func wire(c *explore.Ctx) {
	m := pgen.EnumMsg(c, pgen.Options{MaxFields: 2, Thorough: c.Thorough(), NoLeaf: true})
	v := pgen.EnumValue(c, m, false)
	if !pref.Supported(m) {
		c.Outcome("no-proto-equivalent")
		return
	}
	md, err := pref.Descriptor(m)
	if err != nil {
		panic(fmt.Sprintf("descriptor synthesis failed for %s: %v", m, err))
	}
	shape := shapeOf(m)
	desc := fmt.Sprintf("%s = %s", m, pgen.Describe(v))
	nvar := 0

	// TypeOf agrees with the descriptor
	if pv, ps := explore.Catch(func() { checkTypeOf(c, m, shape) }); pv != nil {
		c.Fail("TypeOf:panic:"+ps, "TypeOf(%s) panicked: %v", m, pv)
	}

	// direction 1: segmentio bytes decoded by the reference
	var sb []byte
	if pv, _ := explore.Catch(func() { sb, err = segproto.Marshal(v.Addr().Interface()) }); pv != nil || err != nil {
		c.Outcome("marshal-fails(C03)")
		return
	}
	if rm, rerr := pref.Unmarshal(sb, md); rerr != nil {
		c.Fail("seg->ref:reference-rejects:"+shape, "reference implementation cannot decode Marshal(%s) = % x: %v", desc, trunc(sb), rerr)
	} else if got, ok, why := pref.FromRef(rm.ProtoReflect(), m); !ok && hasEmptyNonNilMap(v) {
		c.Fail("seg->ref:empty-non-nil-map-written-as-default-entry:", "Marshal(%s) = % x: %s", desc, trunc(sb), why)
	} else if !ok {
		c.Fail("seg->ref:not-the-declared-message:"+shape, "Marshal(%s) = % x: %s", desc, trunc(sb), why)
	} else if ds := pgen.Diffs(v, got); len(ds) > 0 {
		kind, msg := classify(ds)
		if kind != "value-differs" {
			shape = ""
		}
		c.Fail("seg->ref:"+kind+":"+shape, "reference decodes Marshal(%s) = % x differently at %s", desc, trunc(sb), msg)
		shape = shapeOf(m)
	}

	// direction 2: reference bytes (zero scalars omitted / written explicitly) and legal re-encodings decoded by segmentio
	for _, explicit := range []bool{false, true} {
		rb, err := pref.Marshal(pref.ToRef(md, m, v, explicit))
		if err != nil {
			panic(fmt.Sprintf("reference Marshal failed for %s: %v", desc, err))
		}
		variants := []struct {
			name string
			b    []byte
		}{{fmt.Sprintf("reference(explicit-zero=%v)", explicit), rb}}
		if !explicit {
			for i, r1 := range rewrites {
				for _, b1 := range r1.f(rb, m) {
					variants = append(variants, struct {
						name string
						b    []byte
					}{r1.name, b1})
					for _, r2 := range rewrites[i+1:] {
						for k, b2 := range r2.f(b1, m) {
							if k >= 4 {
								break
							}
							variants = append(variants, struct {
								name string
								b    []byte
							}{r1.name + "+" + r2.name, b2})
						}
					}
				}
			}
		}
		for _, vr := range variants {
			nvar++
			// sanity: the reference itself must read the variant back to the same value, otherwise the rewrite is not legal
			if rm, rerr := pref.Unmarshal(vr.b, md); rerr != nil {
				panic(fmt.Sprintf("rewrite %s produced bytes the reference rejects: % x (%v) from %s", vr.name, vr.b, rerr, desc))
			} else if back, ok, _ := pref.FromRef(rm.ProtoReflect(), m); !ok || len(pgen.Diffs(v, back)) > 0 {
				panic(fmt.Sprintf("rewrite %s changed the meaning for the reference: % x from %s", vr.name, vr.b, desc))
			}
			out := reflect.New(m.Type)
			var uerr error
			if pv, ps := explore.Catch(func() { uerr = segproto.Unmarshal(vr.b, out.Interface()) }); pv != nil {
				c.Fail("ref->seg:panic:"+ps+":"+explore.PanicClass(pv), "Unmarshal(% x) [%s of %s] panicked: %v", trunc(vr.b), vr.name, desc, pv)
				continue
			}
			if uerr != nil {
				c.Fail("ref->seg:rejects:"+vr.name+":"+shape, "Unmarshal(% x) [%s of %s] fails: %v", trunc(vr.b), vr.name, desc, uerr)
				continue
			}
			if ds := pgen.Diffs(v, out.Elem()); len(ds) > 0 {
				_, msg := classify(ds)
				c.Fail("ref->seg:value-differs:"+vr.name+":"+shape, "Unmarshal(% x) [%s of %s] differs at %s", trunc(vr.b), vr.name, desc, msg)
			}
		}
	}
	c.Inner(int64(nvar))
	c.NontrivialStr(m.String(), pgen.Describe(v))
	c.Outcome(fmt.Sprintf("variants>10=%v maps=%v", nvar > 10, m.HasMap()))
	if c.WantSample() || c.Failed() {
		c.Case(map[string]any{"type": m.String(), "value": pgen.Describe(v), "segmentio_bytes": fmt.Sprintf("%x", trunc(sb)), "reencodings": nvar})
	}
}

var kindName = map[pgen.Kind]string{pgen.Bool: "bool", pgen.Int: "int64", pgen.Int32: "int32", pgen.Int64: "int64", pgen.Uint: "uint64", pgen.Uint32: "uint32", pgen.Uint64: "uint64",
	pgen.Float32: "float", pgen.Float64: "double", pgen.String: "string", pgen.Bytes: "bytes", pgen.ByteArray: "bytes"}

func expectedTypeName(e pgen.Elem) string {
	switch e.Enc {
	case "zigzag32":
		return "sint32"
	case "zigzag64":
		return "sint64"
	case "fixed32":
		switch e.Kind {
		case pgen.Uint32:
			return "fixed32"
		case pgen.Int32:
			return "sfixed32"
		}
	case "fixed64":
		switch e.Kind {
		case pgen.Uint64:
			return "fixed64"
		case pgen.Int64:
			return "sfixed64"
		}
	}
	return kindName[e.Kind]
}

func checkTypeOf(c *explore.Ctx, m *pgen.Msg, shape string) {
	t := segproto.TypeOf(m.Type)
	n := 0
	for i := range m.Fields {
		f := &m.Fields[i]
		if f.Skip {
			continue
		}
		if n >= t.NumField() {
			c.Fail("TypeOf:missing-field:"+shape, "TypeOf(%s) has %d fields", m, t.NumField())
			return
		}
		tf := t.Field(n)
		n++
		if int(tf.Number) != f.Number {
			c.Fail("TypeOf:number:"+shape, "TypeOf(%s) field %d has number %d, want %d", m, i, tf.Number, f.Number)
		}
		wantRep := f.Wrap == pgen.Slice || f.Wrap == pgen.SlicePtr
		if tf.Repeated != wantRep {
			c.Fail("TypeOf:repeated:"+shape, "TypeOf(%s) field %d Repeated=%v", m, i, tf.Repeated)
		}
		if f.Wrap == pgen.MapVal || f.Wrap == pgen.MapValPtr {
			// keys and values: the kinds the protobuf_key / protobuf_val tags select
			if tf.Type.Kind() != segproto.Map {
				c.Fail("TypeOf:map-kind:"+shape, "TypeOf(%s) field %d is %q, want a map", m, i, tf.Type.Name())
				continue
			}
			k := pgen.Elem{Kind: f.Key, Enc: f.KeyEnc}
			if got, want := tf.Type.Key().Name(), expectedTypeName(k); got != want && f.Key != pgen.String && f.Key != pgen.Bool {
				c.Fail("TypeOf:map-key:"+k.String(), "TypeOf(%s) field %d has keys of type %q, want %q", m, i, got, want)
			}
			if f.Elem.Kind != pgen.Message && f.Wrap == pgen.MapVal && f.Elem.Kind <= pgen.Float64 {
				if got, want := tf.Type.Elem().Name(), expectedTypeName(f.Elem); got != want {
					c.Fail("TypeOf:map-value:"+f.Elem.String(), "TypeOf(%s) field %d has values of type %q, want %q", m, i, got, want)
				}
			}
		}
		if f.Elem.Kind != pgen.Message && f.Wrap != pgen.MapVal && f.Wrap != pgen.MapValPtr {
			want := expectedTypeName(f.Elem)
			if (f.Elem.Enc == "fixed32" || f.Elem.Enc == "fixed64") && tf.Type.Name() == kindName[f.Elem.Kind] {
				continue // TypeOf's table does not cover the fixed tags; either name is accepted
			}
			if tf.Type.Name() != want {
				c.Fail("TypeOf:kind:"+f.Elem.String(), "TypeOf(%s) field %d is %q, want %q", m, i, tf.Type.Name(), want)
			}
		}
	}
	if n != t.NumField() {
		c.Fail("TypeOf:extra-field:"+shape, "TypeOf(%s) has %d fields, want %d", m, t.NumField(), n)
	}
}

// Spec returns the C12 check.
func Spec() *explore.Spec {
	return &explore.Spec{
		ID: "C12",
		Families: []*explore.Family{
			{Name: "wire", ShardDepth: 2, Body: wire, Bound: func(string) int { return 1 },
				Doc: "message types (1-2 fields, C03 palette minus Message/custom leaves) x numbering patterns x values (<=1 deviation): segmentio bytes decoded by the reference; reference bytes (defaults omitted and explicit) and every legal re-encoding up to 2 combined rewrites {non-minimal varints, field order, duplicated scalar, split embedded message, map entry order/omission/duplicate key} decoded by segmentio; TypeOf vs descriptor"},
		},
		Rule: "every (type, numbering, value) within the deviation bound x every generated re-encoding; each re-encoding is first validated against the reference (it must decode to the same value there); distinct non-trivial = distinct (type, value) pairs",
		Assumptions: []string{
			"google.golang.org/protobuf v1.25.0 (dynamicpb over a descriptor synthesised from the same type description as the Go struct) is the reference implementation",
			"proto2 syntax descriptors: pointers are optional fields with presence, repeated scalars are declared packed=false; packed encodings are never generated",
			"Go kinds map to protobuf types as TypeOf documents (int->int64, uint->uint64, [N]byte->bytes)",
			"fixed32/fixed64 tags on repeated fields and tagged map values are not generated (the tag does not reach element codecs; no .proto equivalent is claimed)",
		},
	}
}

//go:build verifshim

// Package c17: json.Tokenizer enumerates exactly the tokens of the document (DESIGN.md §5 C17).
package c17

import (
	"bytes"
	stdjson "encoding/json"
	"fmt"
	"github.com/segmentio/encoding/verifshim/hook"
	"math"
	"strconv"
	"strings"
	"unsafe"

	"github.com/segmentio/encoding/json"
	"verif/mc/explore"
)

// ---- reference token model for valid documents

type tok struct {
	raw   string
	delim byte // 0 for scalars
	depth int
	index int
	isKey bool
	check bool // Depth/Index/IsKey are specified for this token (scalars and opening delimiters)
}

type modelWalker struct {
	d    []byte
	pos  int
	toks []tok
}

func (w *modelWalker) ws() {
	for w.pos < len(w.d) && strings.IndexByte(" \t\r\n", w.d[w.pos]) >= 0 {
		w.pos++
	}
}

func (w *modelWalker) scalarEnd() int {
	p := w.pos
	if w.d[p] == '"' {
		p++
		for w.d[p] != '"' {
			if w.d[p] == '\\' {
				p++
			}
			p++
		}
		return p + 1
	}
	for p < len(w.d) && strings.IndexByte(",:]} \t\r\n", w.d[p]) < 0 {
		p++
	}
	return p
}

func (w *modelWalker) value(depth, index int, isKey bool) {
	w.ws()
	switch w.d[w.pos] {
	case '[', '{':
		open := w.d[w.pos]
		closer := byte(']')
		if open == '{' {
			closer = '}'
		}
		w.toks = append(w.toks, tok{raw: string(open), delim: open, depth: depth, index: index, check: true})
		w.pos++
		for i := 0; ; i++ {
			w.ws()
			if w.d[w.pos] == closer {
				w.toks = append(w.toks, tok{raw: string(closer), delim: closer})
				w.pos++
				return
			}
			if i > 0 {
				w.toks = append(w.toks, tok{raw: ",", delim: ','})
				w.pos++
			}
			if open == '{' {
				w.value(depth+1, i, true)
				w.ws()
				w.toks = append(w.toks, tok{raw: ":", delim: ':'})
				w.pos++
			}
			w.value(depth+1, i, false)
		}
	default:
		e := w.scalarEnd()
		w.toks = append(w.toks, tok{raw: string(w.d[w.pos:e]), depth: depth, index: index, isKey: isKey, check: true})
		w.pos = e
	}
}

func model(doc []byte) []tok {
	w := &modelWalker{d: doc}
	w.value(0, 0, false)
	return w.toks
}

// validateModel checks the model's delimiter/scalar stream against encoding/json's Token().
func validateModel(doc []byte, toks []tok) error {
	dec := stdjson.NewDecoder(bytes.NewReader(doc))
	dec.UseNumber()
	i := 0
	for {
		t, err := dec.Token()
		if err != nil {
			break
		}
		for i < len(toks) && (toks[i].delim == ',' || toks[i].delim == ':') {
			i++
		}
		if i >= len(toks) {
			return fmt.Errorf("model has fewer tokens than encoding/json")
		}
		m := toks[i]
		i++
		switch v := t.(type) {
		case stdjson.Delim:
			if m.delim != byte(v) {
				return fmt.Errorf("token %d: model %q, encoding/json delimiter %q", i, m.raw, v)
			}
		case string:
			var s string
			if stdjson.Unmarshal([]byte(m.raw), &s) != nil || s != v {
				return fmt.Errorf("token %d: model %q, encoding/json string %q", i, m.raw, v)
			}
		case stdjson.Number:
			if m.raw != string(v) {
				return fmt.Errorf("token %d: model %q, encoding/json number %q", i, m.raw, v)
			}
		case bool:
			if m.raw != strconv.FormatBool(v) {
				return fmt.Errorf("token %d: model %q, encoding/json bool %v", i, m.raw, v)
			}
		case nil:
			if m.raw != "null" {
				return fmt.Errorf("token %d: model %q, encoding/json null", i, m.raw)
			}
		}
	}
	for i < len(toks) && (toks[i].delim == ',' || toks[i].delim == ':') {
		i++
	}
	if i != len(toks) {
		return fmt.Errorf("model has %d more tokens than encoding/json", len(toks)-i)
	}
	return nil
}

// ---- document enumeration

var scalars = []string{"1", `"a"`, "null", "true", "-1.5e3", `"\n"`, `""`, "false", "0", `"éé😀"`, "18446744073709551615", "-9223372036854775808", "18446744073709551616", "-9223372036854775809", "-0", "123456789012345678901234567890", "0.1e-2", "1E5"}

// genValue builds one document from explorer choices. width bounds the number of members.
// gapMarker stands for insignificant white space; validDocs substitutes every white space form for it.
const gapMarker = 0x01

var gapForms = []string{" ", "\t", "\n", "\r", "\r\n", " \t\r\n "}

func genValue(c *explore.Ctx, depth, width int, sp bool, b *strings.Builder) {
	nScal := len(scalars)
	if depth < 2 {
		nScal = 4
	}
	kinds := nScal
	if depth > 0 {
		kinds += 2
	}
	k := c.Choose(kinds)
	gap := func() {
		if sp {
			b.WriteByte(gapMarker)
		}
	}
	if k < nScal {
		b.WriteString(scalars[k])
		return
	}
	obj := k == nScal+1
	n := c.Choose(width + 1)
	if obj {
		b.WriteByte('{')
	} else {
		b.WriteByte('[')
	}
	for i := 0; i < n; i++ {
		if i > 0 {
			gap()
			b.WriteByte(',')
		}
		gap()
		if obj {
			fmt.Fprintf(b, `"k%d"`, i)
			gap()
			b.WriteByte(':')
			gap()
		}
		genValue(c, depth-1, width, sp, b)
	}
	gap()
	if obj {
		b.WriteByte('}')
	} else {
		b.WriteByte(']')
	}
}

func trunc(b []byte) string {
	if len(b) > 90 {
		return string(b[:90]) + "…"
	}
	return string(b)
}

type seen struct {
	raw          string
	delim        json.Delim
	depth, index int
	isKey        bool
	kind         json.Kind
	off          int
	str          string
	i64          int64
	u64          uint64
	f64          float64
	b            bool
}

// run tokenizes doc to the end (or the first error) with t and records what it saw.
func run(t *json.Tokenizer, doc []byte, limit int) (out []seen, err error, pv any, ps string) {
	pv, ps = explore.Catch(func() {
		for n := 0; t.Next(); n++ {
			if n > len(doc)+8 || (limit > 0 && n >= limit) {
				break
			}
			s := seen{raw: string(t.Value), delim: t.Delim, depth: t.Depth, index: t.Index, isKey: t.IsKey, kind: t.Kind()}
			if len(t.Value) > 0 && len(doc) > 0 {
				s.off = int(uintptr(unsafe.Pointer(&t.Value[0])) - uintptr(unsafe.Pointer(&doc[0])))
				if s.off != len(doc)-t.Remaining()-len(t.Value) {
					s.off = -1
				}
			}
			if t.Delim == 0 {
				s.str, s.i64, s.u64, s.f64, s.b = string(t.String()), t.Int(), t.Uint(), t.Float(), t.Bool()
			}
			out = append(out, s)
		}
		err = t.Err
	})
	return
}

// checkValid compares the tokenizer's stream with the model on a valid document.
func checkValid(c *explore.Ctx, doc []byte, site string) {
	toks := model(doc)
	if err := validateModel(doc, toks); err != nil {
		panic(fmt.Sprintf("token model disagrees with encoding/json on %s: %v", doc, err))
	}
	c.Count("model_validated", 1)
	got, err, pv, ps := run(json.NewTokenizer(doc), doc, 0)
	if pv != nil {
		c.Fail("panic:"+ps+":"+explore.PanicClass(pv), "Tokenizer panicked on %s: %v", trunc(doc), pv)
		return
	}
	if err != nil {
		c.Fail("valid-document-rejected:"+site, "Tokenizer reports %v on the valid document %s", err, trunc(doc))
		return
	}
	compare(c, doc, toks, got, site)
}

func compare(c *explore.Ctx, doc []byte, toks []tok, got []seen, site string) {
	if len(got) != len(toks) {
		c.Fail("token-count:"+site, "Tokenizer yields %d tokens, the document %s has %d", len(got), trunc(doc), len(toks))
		return
	}
	var cat strings.Builder
	for i, m := range toks {
		g := got[i]
		cat.WriteString(g.raw)
		where := fmt.Sprintf("token %d (%q) of %s", i, m.raw, trunc(doc))
		if g.raw != m.raw || byte(g.delim) != m.delim {
			c.Fail("token-value:"+site, "%s: Value %q Delim %q", where, g.raw, g.delim)
			return
		}
		if g.off < 0 {
			c.Fail("token-not-in-place:"+site, "%s: Value is not the sub-slice of the input ending Remaining() bytes before its end", where)
		}
		if m.check {
			if g.depth != m.depth {
				c.Fail(fmt.Sprintf("depth:%s", kindOfTok(m)), "%s: Depth %d, want %d", where, g.depth, m.depth)
			}
			if g.index != m.index {
				c.Fail(fmt.Sprintf("index:%s", kindOfTok(m)), "%s: Index %d, want %d", where, g.index, m.index)
			}
			if g.isKey != m.isKey {
				c.Fail(fmt.Sprintf("iskey:%s:want=%v:after=%s", kindOfTok(m), m.isKey, prevKind(toks, i)), "%s: IsKey %v, want %v", where, g.isKey, m.isKey)
			}
		}
		if m.delim == 0 {
			checkScalar(c, m.raw, g, where)
		} else if m.delim == '{' && g.kind != json.Object || m.delim == '[' && g.kind != json.Array {
			c.Fail("kind:delimiter", "%s: Kind %d", where, g.kind)
		}
	}
	var compact bytes.Buffer
	stdjson.Compact(&compact, doc)
	if cat.String() != compact.String() {
		c.Fail("concatenation:"+site, "concatenated Values %q != compacted document %q", cat.String(), compact.String())
	}
}

func kindOfTok(m tok) string {
	if m.delim != 0 {
		return "open-delimiter"
	}
	return "scalar"
}

func prevKind(toks []tok, i int) string {
	for j := i - 1; j >= 0; j-- {
		if toks[j].delim != ',' && toks[j].delim != ':' {
			if toks[j].delim == 0 {
				return "scalar"
			}
			return string(toks[j].delim)
		}
	}
	return "start"
}

func checkScalar(c *explore.Ctx, raw string, g seen, where string) {
	cls := g.kind.Class()
	switch raw[0] {
	case '"':
		var s string
		stdjson.Unmarshal([]byte(raw), &s)
		if cls != json.String {
			c.Fail("kind:string", "%s: Kind %d", where, g.kind)
		}
		if g.str != s {
			c.Fail("String()", "%s: String() %q, want %q", where, g.str, s)
		}
		v := json.RawValue(raw)
		if !v.String() || v.Null() || v.True() || v.False() || v.Number() {
			c.Fail("RawValue-predicates", "%s: wrong RawValue predicates", where)
		}
		if pv, _ := explore.Catch(func() {
			if u := string(v.Unquote()); u != s {
				c.Fail("RawValue.Unquote", "%s: Unquote() %q, want %q", where, u, s)
			}
			if u := string(v.AppendUnquote([]byte("pre"))); u != "pre"+s {
				c.Fail("RawValue.AppendUnquote", "%s: AppendUnquote(\"pre\") %q, want %q", where, u, "pre"+s)
			}
		}); pv != nil {
			c.Fail("RawValue.Unquote:panic", "%s: Unquote panicked on a valid string: %v", where, pv)
		}
	case 'n':
		if cls != json.Null || !json.RawValue(raw).Null() {
			c.Fail("kind:null", "%s: Kind %d", where, g.kind)
		}
	case 't', 'f':
		if cls != json.Bool || g.b != (raw == "true") || json.RawValue(raw).True() != (raw == "true") || json.RawValue(raw).False() != (raw == "false") {
			c.Fail("kind:bool", "%s: Kind %d Bool() %v", where, g.kind, g.b)
		}
	default:
		if cls != json.Num || !json.RawValue(raw).Number() {
			c.Fail("kind:number", "%s: Kind %d", where, g.kind)
		}
		f, _ := strconv.ParseFloat(raw, 64)
		if math.Float64bits(g.f64) != math.Float64bits(f) {
			c.Fail("Float()", "%s: Float() %v, want %v", where, g.f64, f)
		}
		if i, err := strconv.ParseInt(raw, 10, 64); err == nil && g.i64 != i {
			c.Fail("Int()", "%s: Int() %d, want %d", where, g.i64, i)
		}
		if u, err := strconv.ParseUint(raw, 10, 64); err == nil && g.u64 != u {
			c.Fail("Uint()", "%s: Uint() %d, want %d", where, g.u64, u)
		}
		isInt := !strings.ContainsAny(raw, ".eE")
		switch {
		case !isInt && g.kind != json.Float, isInt && raw[0] == '-' && g.kind != json.Int, isInt && raw[0] != '-' && g.kind != json.Uint:
			c.Fail("kind:number-subkind", "%s: Kind %d", where, g.kind)
		}
	}
}

func validDocs(c *explore.Ctx) {
	sp := c.Bool()
	var b strings.Builder
	depth, width := 2, 2
	forms := gapForms
	if c.Thorough() && c.Choose(2) == 1 {
		// thorough: the wider grammar with a single space in the gaps, next to the quick grammar with every white space form
		depth, width = 2, 3
		forms = gapForms[:1]
	}
	genValue(c, depth, width, sp, &b)
	doc := []byte(b.String())
	if sp {
		// every form of insignificant white space in every gap, also before and after the document
		tmpl := "\x01" + b.String() + "\x01"
		var n int64
		for _, ws := range forms {
			doc = []byte(strings.ReplaceAll(tmpl, "\x01", ws))
			checkValid(c, doc, "fresh")
			n++
		}
		c.Inner(n)
	} else {
		checkValid(c, doc, "fresh")
	}
	c.NontrivialBytes(doc)
	c.Outcome(fmt.Sprintf("nested=%v", bytes.ContainsAny(doc, "[{")))
	if c.WantSample() || c.Failed() {
		c.Case(map[string]any{"document": trunc(doc)})
	}
}

// ---- deep nesting: every depth a valid document can have (encoding/json accepts 10000 levels)

var nestDepths = []int{1, 2, 31, 32, 33, 63, 64, 65, 127, 128, 129, 255, 256, 257, 1023, 1024, 1025, 4096, 9998, 9999, 10000}

func deepNesting(c *explore.Ctx) {
	depth := nestDepths[c.Choose(len(nestDepths))]
	shape := c.Choose(4)
	inner := []string{"1", "", `"s"`}[c.Choose(3)]
	var b strings.Builder
	var closers []byte
	for i := 0; i < depth; i++ {
		obj := shape == 1 || (shape == 2 && i%2 == 1) || (shape == 3 && i%3 == 0)
		last := i == depth-1
		if obj {
			b.WriteString("{")
			closers = append(closers, '}')
			if !last || inner != "" {
				b.WriteString(`"k":`)
			}
		} else {
			b.WriteString("[")
			closers = append(closers, ']')
			if shape == 3 && !last {
				b.WriteString("0,") // the nested container is the second element
			}
		}
	}
	b.WriteString(inner)
	for i := len(closers) - 1; i >= 0; i-- {
		b.WriteByte(closers[i])
	}
	doc := []byte(b.String())
	if !stdjson.Valid(doc) {
		panic(fmt.Sprintf("deep-nesting generator built an invalid document (depth %d shape %d)", depth, shape))
	}
	checkValid(c, doc, "deep")
	c.NontrivialStr("deep", fmt.Sprint(depth, shape, inner))
	c.Outcome(fmt.Sprintf("deep>=1024:%v", depth >= 1024))
	if c.WantSample() || c.Failed() {
		c.Case(map[string]any{"depth": depth, "shape": []string{"arrays", "objects", "alternating", "mixed with siblings"}[shape], "innermost": inner, "bytes": len(doc)})
	}
}

// ---- arbitrary byte strings: termination, no panic, error stickiness

var alphabet = []byte{'{', '}', '[', ']', ',', ':', '"', '\\', '-', '0', '1', 'e', 'n', 'u', 'l', 't', 'r', 'a', 'f', 's', ' ', 0x1f, 0x80, '.'}

func arbitrary(c *explore.Ctx) {
	maxL := 5
	if c.Thorough() {
		maxL = 6
	}
	a, b2 := alphabet[c.Choose(len(alphabet))], alphabet[c.Choose(len(alphabet))]
	buf := []byte{a, b2}
	var n int64
	var rec func()
	rec = func() {
		n++
		doc := append([]byte{}, buf...)
		t := json.NewTokenizer(doc)
		_, err, pv, ps := run(t, doc, 0)
		if pv != nil {
			c.Fail("panic:"+ps+":"+explore.PanicClass(pv), "Tokenizer panicked on %q: %v", doc, pv)
		} else if err != nil {
			for k := 0; k < 3; k++ {
				if t.Next() || t.Err != err {
					c.Fail("error-not-sticky", "after Err was set on %q, Next returned true or Err changed (%v -> %v)", doc, err, t.Err)
					break
				}
			}
			// a Reset tokenizer behaves like a new one
			t.Reset([]byte(`[{"a":[1]}]`))
			got, e2, _, _ := run(t, []byte(`[{"a":[1]}]`), 0)
			if e2 != nil || len(got) != 9 || got[1].depth != 1 || got[5].depth != 3 {
				c.Fail("reset-after-error", "a tokenizer Reset after failing on %q mis-tokenizes [{\"a\":[1]}]: %d tokens, err %v", doc, len(got), e2)
			}
		} else if stdjson.Valid(doc) {
			checkValid(c, doc, "short")
		}
		// the same bytes as a window of a larger buffer: what the spare capacity holds is not part of the document
		if pv == nil && len(doc) <= 5 { // windows for the strings of the quick tier's length
			first, ferr, _, _ := run(json.NewTokenizer(doc), doc, 0)
			for _, fill := range []byte{'"', '\\', '0', ']', 'e'} {
				big := bytes.Repeat([]byte{fill}, len(doc)+16)
				copy(big, doc)
				win := big[:len(doc)]
				got, gerr, gpv, gps := run(json.NewTokenizer(win), win, 0)
				n++
				if gpv != nil {
					c.Fail("panic:"+gps+":"+explore.PanicClass(gpv), "Tokenizer panicked on %q followed by %q bytes in the spare capacity of the input: %v", doc, fill, gpv)
				} else if (gerr == nil) != (ferr == nil) || len(got) != len(first) {
					c.Fail("spare-capacity-matters", "tokenizing %q gives %d tokens (err %v); with %q bytes in the spare capacity behind it %d tokens (err %v)", doc, len(first), ferr, fill, len(got), gerr)
				} else {
					for i := range got {
						if got[i].raw != first[i].raw || got[i].depth != first[i].depth || got[i].index != first[i].index {
							c.Fail("spare-capacity-matters", "tokenizing %q: token %d differs when %q bytes follow in the spare capacity of the input", doc, i, fill)
							break
						}
					}
				}
			}
		}
		if len(buf) == maxL {
			return
		}
		for _, x := range alphabet {
			buf = append(buf, x)
			rec()
			buf = buf[:len(buf)-1]
		}
	}
	rec()
	c.Inner(n)
	c.Nontrivial(uint64(a)<<8 | uint64(b2))
	c.Outcome("arbitrary")
	if c.WantSample() {
		c.Case(map[string]any{"prefix": string([]byte{a, b2}), "byte_strings": n})
	}
}

// ---- histories: Reset / reuse, pooled stacks released non-empty

var histDocs = [][]byte{
	[]byte(`[1,[2,{"a":[3,{"b":null}]}],"x"]`),
	[]byte(`{"a":{"b":{"c":[1,2,{"d":true}]}},"e":[[]]}`),
	[]byte(`[{}, "x", [], {"k":{}}, 1]`),
	[]byte(`[[[[1]]], {"a":1}`), // runs into an error at depth (truncated)
	[]byte(`{"a":[1,{"b":]}`),   // error at depth 3
	[]byte(`[1,2]]`),            // surplus closer
	[]byte(`"scalar"`),
	[]byte(`[1,{"x":[2}]`), // closer of the wrong kind at depth 3
	[]byte(`{"a":1]`),      // closer of the wrong kind at depth 1
}

// ---- several tokenizers alive at once

var liveDocs = [][]byte{
	[]byte(`[1,[2,[3,{"a":[4]}]],5]`),
	[]byte(`{"k":{"l":[true,{"m":null}]},"n":[[]]}`),
	[]byte(`[[["x"],"y"],{"z":[0]}]`),
}

// interleaved: after a history on one tokenizer (which leaves stacks in the pool), two or three tokenizers
// work through nested documents at the same time, their Next calls interleaved in a fixed pattern: each
// must see the token stream of its own document (a stack handed to two of them breaks both).
func interleaved(c *explore.Ctx) {
	hook.ResetAll()
	nUses := c.Choose(3)
	t := json.NewTokenizer(nil)
	desc := ""
	for u := 0; u < nUses; u++ {
		d := histDocs[c.Choose(len(histDocs))]
		mode := c.Choose(2) // iterate to the end / abandon after 3 tokens
		t.Reset(d)
		run(t, d, 3*mode)
		desc += fmt.Sprintf("%s(mode %d); ", trunc(d), mode)
	}
	ending := c.Choose(3) // the first tokenizer is: left as it is / Reset to nothing / itself one of the live ones
	pattern := c.Choose(4)
	var live []*json.Tokenizer
	var docs [][]byte
	add := func(tk *json.Tokenizer, d []byte) { live = append(live, tk); docs = append(docs, d) }
	switch ending {
	case 1:
		t.Reset(nil)
	case 2:
		t.Reset(liveDocs[2])
		add(t, liveDocs[2])
	}
	add(json.NewTokenizer(liveDocs[0]), liveDocs[0])
	add(json.NewTokenizer(liveDocs[1]), liveDocs[1])
	got := make([][]seen, len(live))
	doneT := make([]bool, len(live))
	step := func(i int) {
		if doneT[i] {
			return
		}
		tk := live[i]
		if !tk.Next() {
			doneT[i] = true
			return
		}
		sn := seen{raw: string(tk.Value), delim: tk.Delim, depth: tk.Depth, index: tk.Index, isKey: tk.IsKey, kind: tk.Kind()}
		sn.off = len(docs[i]) - tk.Remaining() - len(tk.Value)
		if tk.Delim == 0 {
			sn.str, sn.i64, sn.u64, sn.f64, sn.b = string(tk.String()), tk.Int(), tk.Uint(), tk.Float(), tk.Bool()
		}
		got[i] = append(got[i], sn)
	}
	pv, ps := explore.Catch(func() {
		for round := 0; round < 200; round++ {
			switch pattern {
			case 0: // one token each in turn
				for i := range live {
					step(i)
				}
			case 1: // two tokens of the first for each one of the others
				step(0)
				step(0)
				for i := 1; i < len(live); i++ {
					step(i)
				}
			case 2: // the last one runs ahead by three
				for k := 0; k < 3; k++ {
					step(len(live) - 1)
				}
				for i := 0; i < len(live)-1; i++ {
					step(i)
				}
			case 3: // the first one completes before the others start
				for !doneT[0] {
					step(0)
				}
				for i := 1; i < len(live); i++ {
					step(i)
				}
			}
		}
	})
	if pv != nil {
		c.Fail("interleaved:panic:"+ps, "tokenizers working at the same time panicked after %s: %v", desc, pv)
	} else {
		for i, tk := range live {
			if tk.Err != nil {
				c.Fail("interleaved:error", "tokenizer %d of %d working at the same time fails on the valid document %s after the history %s: %v", i, len(live), docs[i], desc, tk.Err)
				continue
			}
			compare(c, docs[i], model(docs[i]), got[i], "interleaved")
		}
	}
	for _, v := range hook.TakeViolations() {
		c.Fail(v[0]+":tokenizer", "%s (history %s, ending %d)", v[1], desc, ending)
	}
	c.NontrivialStr("live", desc, fmt.Sprint(ending, pattern))
	c.Outcome(fmt.Sprintf("uses=%d ending=%d", nUses, ending))
	if c.WantSample() || c.Failed() {
		c.Case(map[string]any{"history": desc, "ending": []string{"left as it is", "Reset(nil)", "reused as one of the live tokenizers"}[ending], "interleaving": pattern, "live_documents": len(live)})
	}
}

func histories(c *explore.Ctx) {
	hook.ResetAll()
	nUses := 1 + c.Choose(3)
	t := json.NewTokenizer(nil)
	others := []*json.Tokenizer{}
	desc := ""
	for u := 0; u < nUses; u++ {
		d := histDocs[c.Choose(len(histDocs))]
		mode := c.Choose(4) // 0 iterate to the end, 1..2 abandon after k tokens, 3 another tokenizer takes a stack from the pool meanwhile
		t.Reset(d)
		limit := 0
		switch mode {
		case 1:
			limit = 3
		case 2:
			limit = 7
		}
		run(t, d, limit)
		if mode == 3 {
			o := json.NewTokenizer([]byte(`[[[1`))
			run(o, []byte(`[[[1`), 0)
			others = append(others, o)
		}
		desc += fmt.Sprintf("%s(mode %d); ", trunc(d), mode)
	}
	final := []byte(`{"k":[1,{"a":"b"},[true]],"z":{"y":[null]}}`)
	t.Reset(final)
	got, err, pv, ps := run(t, final, 0)
	if pv != nil {
		c.Fail("history:panic:"+ps, "reused tokenizer panicked after %s: %v", desc, pv)
	} else if err != nil {
		c.Fail("history:error", "reused tokenizer fails on a valid document after %s: %v", desc, err)
	} else {
		compare(c, final, model(final), got, "reused")
	}
	// a fresh tokenizer in the same pool state must behave as well
	fresh, ferr, _, _ := run(json.NewTokenizer(final), final, 0)
	if ferr != nil {
		c.Fail("history:fresh-error", "a fresh tokenizer fails after %s: %v", desc, ferr)
	} else {
		compare(c, final, model(final), fresh, "fresh-after-history")
	}
	_ = others
	for _, v := range hook.TakeViolations() {
		c.Fail(v[0]+":tokenizer", "%s (history %s)", v[1], desc)
	}
	c.NontrivialStr("hist", desc)
	c.Outcome(fmt.Sprintf("uses=%d", nUses))
	if c.WantSample() || c.Failed() {
		c.Case(map[string]any{"history": desc, "final_document": string(final)})
	}
}

// Spec returns the C17 check.
func Spec() *explore.Spec {
	return &explore.Spec{
		ID: "C17",
		Families: []*explore.Family{
			{Name: "valid-docs", ShardDepth: 3, Body: validDocs, Budget: func(tier string) int {
				if tier == "thorough" {
					return 1500
				}
				return 0
			}, Doc: "every document of a grammar with nesting depth <= 2 and <= 2 members per container (thorough: 3 members), 18 scalars, empty containers inside non-empty ones x {no white space; each of 6 white space forms (space, tab, LF, CR, CRLF, a mix) in every gap and around the document}: token-by-token equality with a reference model (validated against encoding/json's Token stream on every document): Value, Delim, Depth/Index/IsKey of scalars and opening delimiters, in-place Values, Kind, String/Int/Uint/Float/Bool, RawValue predicates, Unquote/AppendUnquote, concatenation == Compact"},
			{Name: "deep-nesting", ShardDepth: 2, Body: deepNesting, Doc: "valid documents nested 1 .. 10000 deep (21 depths around the powers of two and the limit encoding/json accepts) x {arrays, objects, alternating, mixed with a sibling before each nested container} x 3 innermost values: the token stream equals the model's"},
			{Name: "arbitrary", ShardDepth: 2, Body: arbitrary, Doc: "all byte strings of length 2..5 (6) over a 24-byte class alphabet: termination, no panic, error stickiness, Reset after error; valid ones checked against the model; each also as a window of a larger buffer whose spare capacity holds quotes, backslashes, digits, closers or letters: same tokens, same error presence"},
			{Name: "interleaved", ShardDepth: 2, Body: interleaved, Doc: "every history of 0-2 uses of one Tokenizer over 9 documents (complete, truncated, failing at depth, closers of the wrong kind, surplus closers) x {to the end, abandoned} x {left, Reset(nil), reused} followed by two or three tokenizers working through nested documents at the same time in 4 interleavings of their Next calls: each sees exactly its own document's tokens; the pool monitor (deterministic pool, sync shim) reports a stack put back twice or handed to two holders"},
			{Name: "histories", ShardDepth: 2, Body: histories, Doc: "all sequences of up to 3 uses of one Tokenizer via Reset over 9 documents x {iterate to the end, abandon after 3 or 7 tokens, abandon while another tokenizer holds a pooled stack} followed by a full tokenisation compared with the model (reused and fresh tokenizer)"},
		},
		Rule: "every document / byte string / history in the bounds; distinct non-trivial = distinct documents and histories",
		Assumptions: []string{
			"the token model is a 60-line recursive walk of valid documents; its scalar/delimiter stream is checked against encoding/json.Decoder.Token on every document explored (model_validated counter)",
			"Depth, Index and IsKey are only specified for scalars and opening delimiters",
			"the stack pool is the deterministic LIFO pool of the sync shim (go build -overlay): the next Get returns the stack just Put, nothing is dropped, and a stack Put twice or handed to two holders is reported by the pool monitor",
		},
	}
}

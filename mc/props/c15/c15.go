// Package c15: json.Append is oblivious to the destination's length and capacity (DESIGN.md §5 C15).
package c15

import (
	"bytes"
	stdjson "encoding/json"
	"fmt"
	"reflect"
	"strings"

	"github.com/segmentio/encoding/json"
	"verif/mc/explore"
	"verif/mc/gen/jgen"
	"verif/mc/props/c01"
)

const guard = 64

var prefixes = [][]byte{
	nil, {0x01}, []byte("1234567"), []byte("12345678"), []byte("123456789"), bytes.Repeat([]byte{'p'}, 4096),
	[]byte("rate-0"), []byte("abce-0"), []byte(`abc"`), []byte(`abc\`), []byte("abc,"), []byte("abc1"), []byte("abc["), []byte("null"), []byte("e-09"), []byte("1e-0"), []byte(`{"k":`),
}

var types []reflect.Type

func typeList() []reflect.Type {
	if types != nil {
		return types
	}
	seen := map[reflect.Type]bool{}
	add := func(t reflect.Type) {
		if !seen[t] {
			seen[t] = true
			types = append(types, t)
		}
	}
	for _, t := range jgen.Leaves {
		add(t)
	}
	for _, t := range jgen.Statics {
		add(t)
	}
	for _, t := range jgen.KeyedMaps() {
		add(t)
	}
	add(jgen.WideStruct(33))
	add(jgen.T[jgen.Durations]())
	for _, t := range jgen.Leaves {
		for _, w := range jgen.Wrappers(t, false) {
			add(w)
		}
	}
	// errors at depth 1 and 2 (rollback paths)
	for _, t := range []reflect.Type{jgen.T[jgen.ErrM](), jgen.T[jgen.ErrT](), jgen.T[jgen.EmbedPtr](), jgen.T[jgen.EmbedTwoPtr](), jgen.T[float64](), jgen.T[stdjson.RawMessage](), jgen.T[stdjson.Number]()} {
		for _, w := range jgen.Wrappers(t, true) {
			add(w)
			for _, w2 := range jgen.Wrappers(w, false) {
				add(w2)
			}
		}
	}
	return types
}

func typeName(t reflect.Type) string {
	s := strings.ReplaceAll(strings.ReplaceAll(t.String(), "jgen.", ""), "interface {}", "any")
	if len(s) > 90 {
		s = s[:90]
	}
	return s
}

func trunc(b []byte) string {
	if len(b) > 80 {
		return string(b[:80]) + "…"
	}
	return string(b)
}

func hasMultiMap(v reflect.Value, depth int) bool {
	if depth > 8 || !v.IsValid() {
		return false
	}
	switch v.Kind() {
	case reflect.Map:
		if v.Len() > 1 {
			return true
		}
		it := v.MapRange()
		for it.Next() {
			if hasMultiMap(it.Value(), depth+1) {
				return true
			}
		}
	case reflect.Ptr, reflect.Interface:
		return !v.IsNil() && hasMultiMap(v.Elem(), depth+1)
	case reflect.Slice, reflect.Array:
		for i := 0; i < v.Len(); i++ {
			if hasMultiMap(v.Index(i), depth+1) {
				return true
			}
		}
	case reflect.Struct:
		for i := 0; i < v.NumField(); i++ {
			if hasMultiMap(v.Field(i), depth+1) {
				return true
			}
		}
	}
	return false
}

func sameJSON(a, b []byte) bool {
	var x, y any
	d1 := stdjson.NewDecoder(bytes.NewReader(a))
	d1.UseNumber()
	d2 := stdjson.NewDecoder(bytes.NewReader(b))
	d2.UseNumber()
	if d1.Decode(&x) != nil || d2.Decode(&y) != nil {
		return false
	}
	return reflect.DeepEqual(x, y)
}

// sameBytesMultiset: equal up to a permutation of the bytes (fallback when the
// output is not valid JSON because TrustRawMessage was given invalid raw messages).
func sameBytesMultiset(a, b []byte) bool {
	var ca, cb [256]int
	for _, x := range a {
		ca[x]++
	}
	for _, x := range b {
		cb[x]++
	}
	return ca == cb
}

// sweep runs Append(b, x, flags) for every destination geometry.
func sweep(c *explore.Ctx, x any, flags json.AppendFlags, orderFree bool, shape, desc string) (n int, refErr bool) {
	var ref []byte
	var rerr error
	if pv, _ := explore.Catch(func() { ref, rerr = json.Append(nil, x, flags) }); pv != nil {
		return 0, true // panics are C06's
	}
	n = len(ref)
	var caps []int
	if n <= 128 {
		for k := 0; k <= n+2; k++ {
			caps = append(caps, k)
		}
	} else {
		caps = []int{0, 1, n - 1, n, n + 1, 2 * n, 64 << 10}
	}
	cnt := 0
	for pi, prefix := range prefixes {
		for _, k := range caps {
			if len(prefix) > 100 && k > 3 && k != n && k != n-1 {
				continue // the long prefix is combined with the boundary capacities only
			}
			arena := make([]byte, guard+len(prefix)+k+guard)
			for i := range arena {
				arena[i] = 0xA5
			}
			copy(arena[guard:], prefix)
			b := arena[guard : guard+len(prefix) : guard+len(prefix)+k]
			var out []byte
			var err error
			cnt++
			where := fmt.Sprintf("prefix #%d (%d bytes), spare capacity %d (encoded size %d), flags %03b; %s", pi, len(prefix), k, n, flags, desc)
			rel := "cap<n"
			if k >= n {
				rel = "cap>=n"
			}
			if pv, ps := explore.Catch(func() { out, err = json.Append(b, x, flags) }); pv != nil {
				c.Fail("Append:panic:"+rel+":"+ps+":"+explore.PanicClass(pv), "Append panicked: %v with %s", pv, where)
				continue
			}
			for i := 0; i < guard; i++ {
				if arena[i] != 0xA5 || arena[len(arena)-1-i] != 0xA5 {
					c.Fail("Append:write-outside-capacity:"+shape, "guard byte modified with %s", where)
					break
				}
			}
			if !bytes.Equal(arena[guard:guard+len(prefix)], prefix) {
				c.Fail("Append:write-below-len:"+shape, "bytes of b below len(b) were modified (now %q) with %s", trunc(arena[guard:guard+len(prefix)]), where)
			}
			if (err == nil) != (rerr == nil) {
				c.Fail("Append:error-depends-on-destination:"+shape, "Append(b) error %v, Append(nil) error %v with %s", err, rerr, where)
				continue
			}
			if len(out) < len(prefix) || !bytes.Equal(out[:len(prefix)], prefix) {
				kind := "result-does-not-start-with-b"
				if err != nil {
					kind += "(on error)"
				}
				c.Fail("Append:"+kind+":"+shape, "result %q does not begin with b's bytes (err=%v) with %s", trunc(out), err, where)
				continue
			}
			if err != nil {
				continue
			}
			tail := out[len(prefix):]
			if orderFree {
				if len(tail) != len(ref) || !(sameJSON(tail, ref) || sameBytesMultiset(tail, ref)) {
					c.Fail("Append:remainder-differs(maps):"+shape, "remainder %s, Append(nil) %s with %s", trunc(tail), trunc(ref), where)
				}
			} else if !bytes.Equal(tail, ref) {
				c.Fail("Append:remainder-differs:"+rel+":"+shape, "remainder %s, Append(nil) %s with %s", trunc(tail), trunc(ref), where)
			}
		}
	}
	c.Inner(int64(cnt))
	return n, rerr != nil
}

var thoroughTypes []reflect.Type

// thoroughTypeList adds C01's whole quick universe of type shapes (depth 2) to the list.
func thoroughTypeList() []reflect.Type {
	if thoroughTypes == nil {
		seen := map[reflect.Type]bool{}
		for _, t := range append(append([]reflect.Type{}, typeList()...), c01.TypeList(false)...) {
			if !seen[t] {
				seen[t] = true
				thoroughTypes = append(thoroughTypes, t)
			}
		}
	}
	return thoroughTypes
}

func typed(c *explore.Ctx) {
	ts := typeList()
	if c.Thorough() {
		ts = thoroughTypeList()
	}
	t := ts[c.Choose(len(ts))]
	dom := jgen.CachedDomain(t)
	v := dom[c.Choose(len(dom))]
	flags := json.AppendFlags(c.Choose(8))
	shape := typeName(t)
	orderFree := flags&json.SortMapKeys == 0 && hasMultiMap(v, 0)
	n, isErr := sweep(c, v.Interface(), flags, orderFree, shape, fmt.Sprintf("%s = %s", shape, jgen.Describe(v)))
	c.NontrivialStr(shape, jgen.Describe(v), fmt.Sprint(flags))
	c.Outcome(fmt.Sprintf("err=%v big=%v", isErr, n > 128))
	if c.WantSample() || c.Failed() {
		c.Case(map[string]any{"type": shape, "value": jgen.Describe(v), "flags": int(flags), "encoded_size": n, "prefixes": len(prefixes)})
	}
}

func byteSlices(c *explore.Ctx) {
	sizes := []int{}
	for i := 0; i <= 50; i++ {
		sizes = append(sizes, i)
	}
	sizes = append(sizes, 3000, 3001, 3002, 4095, 4096)
	n := sizes[c.Choose(len(sizes))]
	nested := c.Choose(3)
	b := make([]byte, n)
	for i := range b {
		b[i] = byte(i * 7)
	}
	var x any = b
	switch nested {
	case 1:
		x = struct{ A, B []byte }{b, b[:n/2]}
	case 2:
		x = [][]byte{b, nil, b}
	}
	sweep(c, x, json.AppendFlags(0), false, "[]byte", fmt.Sprintf("[]byte of %d bytes (nesting %d)", n, nested))
	c.NontrivialStr("bytes", fmt.Sprint(n, nested))
	c.Outcome("bytes")
	if c.WantSample() || c.Failed() {
		c.Case(map[string]any{"byte_slice_len": n, "nesting": nested})
	}
}

var escStrings = []string{"", "a", "<&>", "\"\\", "\x00\x1f", "\xff", "é ", strings.Repeat("x", 7), strings.Repeat("y", 8) + "\"", strings.Repeat("z", 40)}

func escapes(c *explore.Ctx) {
	s := escStrings[c.Choose(len(escStrings))]
	flags := json.AppendFlags(c.Choose(2)) // EscapeHTML or not
	ref := json.AppendEscape(nil, s, flags)
	cnt := 0
	for pi, prefix := range prefixes {
		for k := 0; k <= len(ref)+2; k++ {
			arena := bytes.Repeat([]byte{0xA5}, guard+len(prefix)+k+guard)
			copy(arena[guard:], prefix)
			b := arena[guard : guard+len(prefix) : guard+len(prefix)+k]
			cnt++
			out := json.AppendEscape(b, s, flags)
			if !bytes.Equal(out, append(append([]byte{}, prefix...), ref...)) || !bytes.Equal(arena[:guard], bytes.Repeat([]byte{0xA5}, guard)) || !bytes.Equal(arena[len(arena)-guard:], bytes.Repeat([]byte{0xA5}, guard)) || !bytes.Equal(arena[guard:guard+len(prefix)], prefix) {
				c.Fail("AppendEscape:destination", "AppendEscape(prefix #%d, cap %d, %q, %d) = %q", pi, k, s, flags, trunc(out))
			}
			// AppendUnescape of the escaped form
			un := json.AppendUnescape(nil, ref, 0)
			arena2 := bytes.Repeat([]byte{0xA5}, guard+len(prefix)+k+guard)
			copy(arena2[guard:], prefix)
			b2 := arena2[guard : guard+len(prefix) : guard+len(prefix)+k]
			out2 := json.AppendUnescape(b2, ref, 0)
			if !bytes.Equal(out2, append(append([]byte{}, prefix...), un...)) || !bytes.Equal(arena2[:guard], bytes.Repeat([]byte{0xA5}, guard)) || !bytes.Equal(arena2[len(arena2)-guard:], bytes.Repeat([]byte{0xA5}, guard)) || !bytes.Equal(arena2[guard:guard+len(prefix)], prefix) {
				c.Fail("AppendUnescape:destination", "AppendUnescape(prefix #%d, cap %d, %q) = %q", pi, k, ref, trunc(out2))
			}
		}
	}
	c.Inner(int64(cnt))
	c.NontrivialStr("esc", s, fmt.Sprint(flags))
	c.Outcome("escapes")
	if c.WantSample() || c.Failed() {
		c.Case(map[string]any{"string": s, "flags": int(flags)})
	}
}

// Spec returns the C15 check.
func Spec() *explore.Spec {
	return &explore.Spec{
		ID: "C15",
		Families: []*explore.Family{
			{Name: "typed", ShardDepth: 1, Body: typed, Doc: "~900 (thorough: ~3500, all of C01's depth-2 universe) type shapes (leaves, hand-written structs, maps, wrappers, error-producing values at depth 0-2, nil embedded pointers) x boundary values x all 8 AppendFlags subsets x 17 prefixes (lengths 0,1,7,8,9,4096 and JSON-like tails such as 'e-0', '\"', '\\\\') x every spare capacity 0..n+2 (or {0,1,n-1,n,n+1,2n,64Ki}) inside a guard-patterned arena"},
			{Name: "byte-slices", ShardDepth: 2, Body: byteSlices, Doc: "[]byte of every length 0..50 and around 3000/4096 (base64 sizing), top-level and nested, x all destinations"},
			{Name: "escapes", ShardDepth: 2, Body: escapes, Doc: "AppendEscape / AppendUnescape x strings x all destinations"},
		},
		Rule: "every (value, flags, prefix, spare capacity); distinct non-trivial = distinct (type, value, flags) tuples",
		Assumptions: []string{
			"Append(nil, v, flags) is the reference for the remainder; with SortMapKeys off and multi-entry maps the remainder is compared as decoded JSON (iteration order)",
			"panics are C06's subject and skipped here",
		},
	}
}

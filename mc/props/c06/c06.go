// Package c06: json never panics, faults, overflows the stack or hangs (DESIGN.md §5 C06).
// Panics are recovered per call; a fatal error (stack overflow, SIGSEGV, out of memory) or a hang kills
// the worker process, which the engine attributes to the case by re-running it alone.
package c06

import (
	"bytes"
	stdjson "encoding/json"
	"fmt"
	"io"
	"os"
	"os/exec"
	"reflect"
	"runtime/debug"
	"strconv"
	"strings"
	"time"
	"verif/mc/guardpage"

	"github.com/segmentio/encoding/json"
	"verif/mc/explore"
	"verif/mc/gen/jgen"
	"verif/mc/props/c01"
)

var typeLists = map[bool][]reflect.Type{}

// pointer-shaped leaves nested 1-3 levels in single-field structs and one-element arrays
func layoutTypes(thorough bool) []reflect.Type {
	if l, ok := typeLists[thorough]; ok {
		return l
	}
	out := append([]reflect.Type{}, c01.TypeList(thorough)...)
	seen := map[reflect.Type]bool{}
	for _, t := range out {
		seen[t] = true
	}
	ptrShaped := []reflect.Type{
		jgen.T[*int](), jgen.T[map[string]int](), jgen.T[*jgen.Base](), jgen.T[*jgen.PMStruct](), jgen.T[*jgen.VTStruct](), jgen.T[map[string]any](),
		jgen.T[*jgen.Recursive](), jgen.T[*string](), jgen.T[*[]int](), jgen.T[*any](), jgen.T[*json.RawMessage](), jgen.T[*jgen.PTString](),
	}
	for _, t := range ptrShaped {
		cur := []reflect.Type{t}
		for level := 0; level < 3; level++ {
			var next []reflect.Type
			for _, x := range cur {
				next = append(next, jgen.StructOf1(x, ""), reflect.ArrayOf(1, x))
				if level == 0 {
					next = append(next, jgen.StructOf1(x, `json:",omitempty"`))
				}
			}
			for _, x := range next {
				if !seen[x] {
					seen[x] = true
					out = append(out, x)
				}
			}
			cur = next
		}
	}
	typeLists[thorough] = out
	return out
}

func guard(c *explore.Ctx, what string, t reflect.Type, f func()) {
	if pv, site := explore.Catch(f); pv != nil {
		if o := explore.PanicOrigin(); strings.HasPrefix(o, "verif/mc/") {
			// raised inside a method of one of the harness types (e.g. a promoted pointer-receiver method
			// called through a nil embedded pointer, which encoding/json calls the same way): not the library's
			c.Count("panics_in_user_methods", 1)
			return
		}
		c.Fail("panic:"+site+":"+explore.PanicClass(pv), "%s panics for type %v: %v", what, t, pv)
	}
}

func layoutsEncode(c *explore.Ctx) {
	types := layoutTypes(c.Thorough())
	t := types[c.Choose(len(types))]
	vals := jgen.CachedDomain(t)
	var n int64
	for _, v := range vals {
		v := v
		forms := []struct {
			name string
			mk   func() any
		}{
			{"by value", func() any { return v.Interface() }},
			{"by pointer", func() any { p := reflect.New(t); p.Elem().Set(v); return p.Interface() }},
			{"inside []any", func() any { return []any{v.Interface()} }},
			{"as map value", func() any { return map[string]any{"k": v.Interface()} }},
			{"in typed slice", func() any { s := reflect.MakeSlice(reflect.SliceOf(t), 2, 2); s.Index(1).Set(v); return s.Interface() }},
			{"in typed map", func() any {
				m := reflect.MakeMap(reflect.MapOf(jgen.T[string](), t))
				m.SetMapIndex(reflect.ValueOf("k"), v)
				return m.Interface()
			}},
		}
		for _, f := range forms {
			guard(c, "Marshal("+f.name+")", t, func() {
				b, err := json.Marshal(f.mk())
				if err == nil && !stdjson.Valid(b) {
					c.Fail("marshal-invalid-output", "Marshal(%s of %v) returns invalid JSON %.80q without an error", f.name, t, b)
				}
			})
			n++
		}
		guard(c, "Encoder.Encode", t, func() {
			enc := json.NewEncoder(io.Discard)
			enc.SetIndent("", " ")
			enc.Encode(v.Interface())
		})
		guard(c, "Append(flags=0)", t, func() { json.Append(nil, v.Interface(), 0) })
		n += 2
	}
	c.Inner(n)
	c.NontrivialStr("enc", t.String())
	c.Outcome("kind=" + t.Kind().String())
	if c.WantSample() || c.Failed() {
		c.Case(map[string]any{"type": t.String(), "values": len(vals)})
	}
}

var genericDocs = []string{`null`, `{}`, `[]`, `""`, `0`, `true`, `"x"`, `[null]`, `{"A":null}`, `{"A":[{"A":1}]}`, `[[1]]`, `{"A":{"A":{"A":1}}}`, `[1,"a",{}]`, `{"a":1,"A":2}`,
	`-1.5e300`, `1e999`, `"\ud800"`, `{"k":"v","k":[]}`, `[{"V":1,"Next":{"V":2}}]`, `{"": 0}`, ` `, ``, `{`, `[`, `"`, `nul`, `{"A"`, `{"A":`, `[1,`, `{"A":1,}`, `[1 2]`, "\x00", "\xff", `{"A":"\u00`}

var corruptBytes = []byte{0x00, '"', '\\', '{', '[', '}', ']', ',', ':', '0', 'n', 0xff, ' ', 'e'}

func decodeInto(c *explore.Ctx, t reflect.Type, doc []byte) {
	guard(c, "Unmarshal", t, func() { json.Unmarshal(doc, reflect.New(t).Interface()) })
	guard(c, "Unmarshal(**T)", t, func() {
		pp := reflect.New(reflect.PointerTo(t))
		json.Unmarshal(doc, pp.Interface())
	})
}

func layoutsDecode(c *explore.Ctx) {
	types := layoutTypes(c.Thorough())
	t := types[c.Choose(len(types))]
	var n int64
	docs := map[string]bool{}
	for _, d := range genericDocs {
		docs[d] = true
	}
	for _, v := range jgen.CachedDomain(t) {
		func() {
			defer func() { recover() }() // encoding/json panics on some promoted-method shapes
			if b, err := stdjson.Marshal(v.Interface()); err == nil {
				docs[string(b)] = true
			}
		}()
	}
	for d := range docs {
		decodeInto(c, t, []byte(d))
		n += 2
		guard(c, "Decoder.Decode", t, func() {
			dec := json.NewDecoder(strings.NewReader(d + " " + d))
			dec.UseNumber()
			dec.Decode(reflect.New(t).Interface())
			dec.Decode(reflect.New(t).Interface())
		})
		guard(c, "Parse(ZeroCopy|DisallowUnknownFields)", t, func() {
			json.Parse([]byte(d), reflect.New(t).Interface(), json.ZeroCopy|json.DisallowUnknownFields|json.DontMatchCaseInsensitiveStructFields)
		})
		n += 2
	}
	c.Inner(n)
	c.NontrivialStr("dec", t.String())
	c.Outcome("kind=" + t.Kind().String())
	if c.WantSample() || c.Failed() {
		c.Case(map[string]any{"type": t.String(), "documents": len(docs)})
	}
}

// truncation at every offset and single-byte corruption of the typed documents
// ---- what follows the place of an error: error values quote an excerpt of the input

type excerptT struct {
	K string `json:"k"`
	N int    `json:"n"`
}

func errorExcerpts(c *explore.Ctx) {
	leads := []string{"", "[", `{"k":`, "[1,", `{"k":"v","n":`, "  "}
	bads := []string{"?", `"`, "tru?", "-", `"\u12`, "1.e", `"\q`, "]", `{"a" 1`, "nul"}
	tails := []string{"\x80", "\xbf\xbf", "é", "\xc3", "€", "\xe2\x82", "😀", "\xf0\x9f\x98", "é\x80\x80\x80", "\xff", "a\x80\x80\x80\x80\x80\x80\x80\x80", "", "\xe2", "\xe2\x80", "\xe2\x80\xa8", "<", "\\"}
	lead := leads[c.Choose(len(leads))]
	bad := bads[c.Choose(len(bads))]
	var n int64
	for L := 0; L <= 70; L++ {
		for _, tail := range tails {
			for _, fill := range []string{"a", " ", "é"} {
				body := strings.Repeat(fill, L)
				if fill == "é" {
					body = strings.Repeat(fill, L/2)
				}
				doc := []byte(lead + bad + body + tail)
				guard := func(_ *explore.Ctx, what string, _ reflect.Type, f func()) {
					if pv, site := explore.Catch(f); pv != nil {
						c.Fail("panic:"+site+":"+explore.PanicClass(pv), "%s panics on %q (%d bytes): %v", what, doc, len(doc), pv)
					}
				}
				guard(c, "Valid", nil, func() { json.Valid(doc) })
				guard(c, "Unmarshal(any)", nil, func() { var v any; json.Unmarshal(doc, &v) })
				guard(c, "Unmarshal(struct)", nil, func() { var v excerptT; json.Unmarshal(doc, &v) })
				guard(c, "Unmarshal([]string)", nil, func() { var v []string; json.Unmarshal(doc, &v) })
				guard(c, "Parse", nil, func() { var v any; json.Parse(doc, &v, json.ZeroCopy) })
				guard(c, "Decoder", nil, func() {
					d := json.NewDecoder(bytes.NewReader(doc))
					for i := 0; i < 4; i++ {
						var v any
						if d.Decode(&v) != nil {
							break
						}
					}
				})
				guard(c, "Tokenizer", nil, func() {
					t := json.NewTokenizer(doc)
					for i := 0; t.Next() && i < len(doc)+4; i++ {
					}
					_ = fmt.Sprint(t.Err)
				})
				guard(c, "Compact", nil, func() { json.Compact(new(bytes.Buffer), doc) })
				guard(c, "Indent", nil, func() { json.Indent(new(bytes.Buffer), doc, "", " ") })
				guard(c, "RawMessage.MarshalJSON", nil, func() { json.Marshal(json.RawMessage(doc)) })
				// a trusted RawMessage is not checked, but it is still walked (compacted, HTML-escaped)
				guard(c, "Append(RawMessage, TrustRawMessage|EscapeHTML)", nil, func() { json.Append(nil, json.RawMessage(doc), json.TrustRawMessage|json.EscapeHTML) })
				guard(c, "Append(RawMessage, TrustRawMessage)", nil, func() { json.Append(nil, []any{json.RawMessage(doc)}, json.TrustRawMessage) })
				guard(c, "Encoder(trusted RawMessage)", nil, func() {
					e := json.NewEncoder(io.Discard)
					e.SetTrustRawMessage(true)
					e.Encode(map[string]json.RawMessage{"k": doc})
				})
				n += 13
			}
		}
	}
	c.Inner(n)
	c.NontrivialStr("excerpt", lead, bad)
	c.Outcome("excerpts")
	if c.WantSample() || c.Failed() {
		c.Case(map[string]any{"lead": lead, "erroneous_token": bad, "calls": n})
	}
}

// ---- page-edge: documents and strings that end at the last accessible byte / start at the first one

var edge *guardpage.Region

var spareFills = []byte{'"', '\\', '0', ']', '}', 'e', ',', 'a'}

var edgeAlphabet = []byte(`{}[]",:\-0.eE tfn u` + "\x80\xe2\n\x00a/")

func pageEdge(c *explore.Ctx) {
	if edge == nil {
		edge = guardpage.New()
	}
	mode := c.Choose(3)
	first := c.Choose(len(edgeAlphabet))
	var n int64
	try := func(doc []byte) {
		for placement := 0; placement < 2+len(spareFills); placement++ {
			var b []byte
			var where string
			switch {
			case placement == 0:
				b, where = edge.AtEnd(doc), "ending at the last accessible byte"
			case placement == 1:
				b, where = edge.AtStart(doc, '"'), "starting at the first accessible byte"
			default:
				// a window of a larger buffer: 24 bytes of spare capacity behind the document hold other bytes
				fill := spareFills[placement-2]
				buf := bytes.Repeat([]byte{fill}, len(doc)+24)
				copy(buf, doc)
				b, where = buf[:len(doc)], fmt.Sprintf("followed by %q bytes in its spare capacity", fill)
			}
			heap := append([]byte{}, doc...)
			type res struct {
				valid  bool
				e1, e2 bool
				a      any
				s      string
				toks   int
				esc    string
				unesc  string
			}
			run := func(in []byte) (r res) {
				r.valid = json.Valid(in)
				r.e1 = json.Unmarshal(in, &r.a) != nil
				r.e2 = json.Unmarshal(in, &r.s) != nil
				t := json.NewTokenizer(in)
				for t.Next() && r.toks < len(in)+4 {
					r.toks++
					if t.Delim == 0 {
						r.toks += len(t.String())
					}
				}
				r.esc = string(json.Escape(guardpage.String(in)))
				if len(in) >= 2 && in[0] == '"' && in[len(in)-1] == '"' && json.Valid(in) {
					r.unesc = string(json.Unescape(in))
				}
				return
			}
			var got res
			var pv any
			var site string
			fault, msg := guardpage.Faults(func() { pv, site = explore.Catch(func() { got = run(b) }) })
			n++
			if fault || (pv != nil && strings.Contains(fmt.Sprint(pv), "fault address")) {
				c.Fail("page-edge:reads-outside-the-input", "the %d-byte document %q %s: the package touches memory outside it: %s %v", len(doc), doc, where, msg, pv)
				continue
			}
			if pv != nil {
				c.Fail("panic:"+site+":"+explore.PanicClass(pv), "the %d-byte document %q %s: panic: %v", len(doc), doc, where, pv)
				continue
			}
			want := run(heap)
			if got.valid != want.valid || got.e1 != want.e1 || got.e2 != want.e2 || got.toks != want.toks || got.esc != want.esc || got.unesc != want.unesc || got.s != want.s || !reflect.DeepEqual(got.a, want.a) {
				c.Fail("page-edge:answer-differs", "the %d-byte document %q %s gives other answers than a copy of it elsewhere (Valid %v/%v, Unmarshal errors %v/%v %v/%v, tokens %d/%d)", len(doc), doc, where, got.valid, want.valid, got.e1, want.e1, got.e2, want.e2, got.toks, want.toks)
			}
		}
	}
	switch mode {
	case 0: // all byte strings of length 1..4 over the alphabet that start with the chosen byte
		buf := []byte{edgeAlphabet[first]}
		var rec func(d int)
		rec = func(d int) {
			try(buf)
			if d == 4 {
				return
			}
			for _, x := range edgeAlphabet {
				buf = append(buf, x)
				rec(d + 1)
				buf = buf[:len(buf)-1]
			}
		}
		rec(1)
	case 1: // strings of every length 0..80 with the chosen byte in each of the last 9 positions, closed and unclosed
		for L := 0; L <= 80; L++ {
			for back := 0; back <= 9 && back <= L; back++ {
				body := bytes.Repeat([]byte{'a'}, L)
				if back > 0 {
					body[L-back] = edgeAlphabet[first]
				}
				try(append(append([]byte{'"'}, body...), '"'))
				try(append([]byte{'"'}, body...))
				try(append(append([]byte(`["k",`), append(append([]byte{'"'}, body...), '"')...), ']'))
			}
		}
	case 2: // numbers, literals and escapes cut at every length
		for _, full := range []string{"-1234567890.0123456789e+0123456789", "true", "false", "null", `"\u00e9\ud83d\ude00\n\\"`, "[1,2,3,4,5,6,7,8,9]", `{"key":"value","k2":[true,null]}`, "12345678901234567890123456789012345678901234567890123456789012345678"} {
			for cut := 0; cut <= len(full); cut++ {
				try(append([]byte(full[:cut]), edgeAlphabet[first]))
				if first == 0 {
					try([]byte(full[:cut]))
				}
			}
		}
	}
	c.Inner(n)
	c.NontrivialStr("edge", fmt.Sprint(mode, first))
	c.Outcome(fmt.Sprintf("mode=%d", mode))
	if c.WantSample() || c.Failed() {
		c.Case(map[string]any{"mode": []string{"all byte strings <= 4", "long strings, special byte near the end", "tokens cut at every length"}[mode], "byte": fmt.Sprintf("%q", edgeAlphabet[first]), "placements": n})
	}
}

func corruptTyped(c *explore.Ctx) {
	types := layoutTypes(false)
	if !c.Thorough() {
		types = types[:len(jgen.Leaves)+len(jgen.Statics)+40]
	}
	t := types[c.Choose(len(types))]
	var n int64
	seen := map[string]bool{}
	for _, v := range jgen.CachedDomain(t) {
		var doc []byte
		func() {
			defer func() { recover() }()
			doc, _ = stdjson.Marshal(v.Interface())
		}()
		if len(doc) == 0 || len(doc) > 120 || seen[string(doc)] {
			continue
		}
		seen[string(doc)] = true
		for i := 0; i <= len(doc); i++ {
			guard(c, "Unmarshal(truncated)", t, func() { json.Unmarshal(doc[:i], reflect.New(t).Interface()) })
			n++
		}
		for i := 0; i < len(doc); i++ {
			for _, cb := range corruptBytes {
				if doc[i] == cb {
					continue
				}
				m := append([]byte{}, doc...)
				m[i] = cb
				guard(c, "Unmarshal(corrupted)", t, func() { json.Unmarshal(m, reflect.New(t).Interface()) })
				n++
			}
		}
	}
	c.Inner(n)
	c.NontrivialStr("corrupt", t.String())
	c.Outcome("kind=" + t.Kind().String())
	if c.WantSample() || c.Failed() {
		c.Case(map[string]any{"type": t.String(), "documents": len(seen), "decodes": n})
	}
}

// ---- cyclic values

type cycPtr struct {
	V    int
	Next *cycPtr
}

type cycSlice struct {
	Kids []*cycSlice
}

type cycMap struct {
	M map[string]*cycMap
}

type cycAny struct {
	A any
}

type recSlice []recSlice

type recMap map[string]recMap

type cycEmbed struct {
	*cycEmbed
	X int
}

type recArrSlice [][2]recArrSlice

// cycles through interfaces that have methods
type cycLinker interface{ Link() }

type cycLinkNode struct {
	V    int
	Next cycLinker
}

func (*cycLinkNode) Link() {}

type cycLinkSlice []cycLinker

func (cycLinkSlice) Link() {}

type cycLinkMap map[string]cycLinker

func (cycLinkMap) Link() {}

type cycLinkVal struct{ Next cycLinker }

func (cycLinkVal) Link() {}

type cycArr struct {
	A [2]*cycArr
}

type cycArrElem struct {
	A [1]any
}

var cyclic = []struct {
	name string
	mk   func() any
}{
	{"pointer cycle of length 1", func() any { a := &cycPtr{V: 1}; a.Next = a; return a }},
	{"pointer cycle of length 2", func() any { a, b := &cycPtr{V: 1}, &cycPtr{V: 2}; a.Next, b.Next = b, a; return a }},
	{"pointer cycle of length 3", func() any {
		a, b, d := &cycPtr{V: 1}, &cycPtr{V: 2}, &cycPtr{V: 3}
		a.Next, b.Next, d.Next = b, d, a
		return a
	}},
	{"pointer cycle passed by value", func() any { a := &cycPtr{V: 1}; a.Next = a; return *a }},
	{"[]any containing itself", func() any { s := []any{1, nil}; s[1] = s; return s }},
	{"[]any containing a pointer to itself", func() any { s := []any{1, nil}; s[1] = &s; return s }},
	{"map[string]any containing itself", func() any { m := map[string]any{"a": 1}; m["self"] = m; return m }},
	{"map[string]any -> []any -> map", func() any { m := map[string]any{}; m["l"] = []any{m}; return m }},
	{"struct with a slice of pointers to itself", func() any { a := &cycSlice{}; a.Kids = []*cycSlice{a}; return a }},
	{"struct with a map of pointers to itself", func() any { a := &cycMap{M: map[string]*cycMap{}}; a.M["k"] = a; return a }},
	{"struct with an interface holding itself", func() any { a := &cycAny{}; a.A = a; return a }},
	{"struct with an interface holding itself, by value", func() any { a := &cycAny{}; a.A = a; return *a }},
	{"recursive slice type containing itself", func() any { s := make(recSlice, 1); s[0] = s; return s }},
	{"recursive map type containing itself", func() any { m := recMap{}; m["k"] = m; return m }},
	{"embedded pointer to itself", func() any { a := &cycEmbed{X: 1}; a.cycEmbed = a; return a }},
	{"*any pointing to itself", func() any { var a any; a = &a; return a }},
	// cycles that pass through arrays (an array is a value, but its elements may refer back), through
	// other key kinds and through typed containers of containers
	{"[][1]any containing itself", func() any { s := make([][1]any, 1); s[0][0] = s; return s }},
	{"recursive slice-of-arrays type containing itself", func() any { s := make(recArrSlice, 1); s[0][1] = s; return s }},
	{"[]struct{A [1]any} containing itself", func() any { s := make([]cycArrElem, 2); s[1].A[0] = s; return s }},
	{"map[string][1]any containing itself", func() any { m := map[string][1]any{}; m["k"] = [1]any{m}; return m }},
	{"*[1]any pointing to itself", func() any { p := new([1]any); p[0] = p; return p }},
	{"struct with an array of pointers to itself", func() any { a := &cycArr{}; a.A[1] = a; return a }},
	{"[]map[string]any whose map holds the slice", func() any { s := []map[string]any{{}}; s[0]["s"] = s; return s }},
	{"map[int]any containing itself", func() any { m := map[int]any{}; m[7] = m; return m }},
	{"[][]any whose inner slice holds the outer", func() any { s := [][]any{{nil}}; s[0][0] = s; return s }},
	{"[1][]any whose slice holds a pointer to the array", func() any { a := new([1][]any); a[0] = []any{a}; return a }},
	{"struct whose method-bearing interface field holds itself", func() any { n := &cycLinkNode{V: 1}; n.Next = n; return n }},
	{"two structs linked in a ring through method-bearing interfaces", func() any {
		a, b := &cycLinkNode{V: 1}, &cycLinkNode{V: 2}
		a.Next, b.Next = b, a
		return *a
	}},
	{"slice of method-bearing interfaces containing itself", func() any { s := make(cycLinkSlice, 1); s[0] = s; return s }},
	{"map of method-bearing interfaces containing itself", func() any { m := cycLinkMap{}; m["k"] = m; return m }},
	{"struct by value in a method-bearing interface holding a slice that holds it", func() any {
		s := make(cycLinkSlice, 1)
		s[0] = cycLinkVal{Next: s}
		return s
	}},
	{"1100 method-bearing interface hops leading into a ring", func() any {
		a, b := &cycLinkNode{V: 1}, &cycLinkNode{V: 2}
		a.Next, b.Next = b, a
		head := a
		for i := 0; i < 1100; i++ {
			head = &cycLinkNode{V: i, Next: head}
		}
		return head
	}},
	// rho shapes: a long non-cyclic lead (longer than the depth at which cycle detection starts) into a ring
	{"1500 pointer hops leading into a pointer ring of length 2", func() any {
		a, b := &cycPtr{V: 1}, &cycPtr{V: 2}
		a.Next, b.Next = b, a
		head := a
		for i := 0; i < 1500; i++ {
			head = &cycPtr{V: i, Next: head}
		}
		return head
	}},
	{"999 pointer hops leading into a pointer ring of length 3", func() any {
		a, b, d := &cycPtr{V: 1}, &cycPtr{V: 2}, &cycPtr{V: 3}
		a.Next, b.Next, d.Next = b, d, a
		head := a
		for i := 0; i < 999; i++ {
			head = &cycPtr{V: i, Next: head}
		}
		return head
	}},
	{"1200 nested []any leading into a []any containing itself", func() any {
		s := []any{1, nil}
		s[1] = s
		var v any = s
		for i := 0; i < 1200; i++ {
			v = []any{v}
		}
		return v
	}},
	{"1100 nested maps leading into a map -> slice -> map ring", func() any {
		m := map[string]any{}
		m["l"] = []any{m}
		var v any = m
		for i := 0; i < 1100; i++ {
			v = map[string]any{"k": v}
		}
		return v
	}},
}

func cycles(c *explore.Ctx) {
	cv := cyclic[c.Choose(len(cyclic))]
	form := c.Choose(5)
	entry := c.Choose(4)
	v := cv.mk()
	switch form {
	case 1:
		v = &v
	case 2:
		v = []any{0, v}
	case 3:
		v = map[string]any{"k": v}
	case 4:
		v = struct{ F any }{v}
	}
	formName := []string{"as is", "behind *any", "inside []any", "inside map[string]any", "inside a struct field"}[form]
	entryName := []string{"Marshal", "Append(flags=0)", "Encoder.Encode", "MarshalIndent"}[entry]
	var err error
	pv, site := explore.Catch(func() {
		switch entry {
		case 0:
			_, err = json.Marshal(v)
		case 1:
			_, err = json.Append(nil, v, 0)
		case 2:
			err = json.NewEncoder(io.Discard).Encode(v)
		case 3:
			_, err = json.MarshalIndent(v, "", " ")
		}
	})
	if pv != nil {
		c.Fail("panic:"+site+":"+explore.PanicClass(pv), "%s of a %s (%s) panics: %v", entryName, cv.name, formName, pv)
	} else if err == nil {
		// encoding/json reports cycles as errors; a value it encodes (e.g. an embedded pointer to the
		// struct itself, whose promoted fields are shadowed) is not cyclic as far as JSON is concerned
		var stdErr error
		explore.Catch(func() { _, stdErr = stdjson.Marshal(v) })
		if stdErr != nil {
			c.Fail("cycle-encoded-without-error:"+cv.name, "%s of a %s (%s) returns no error", entryName, cv.name, formName)
		}
	}
	c.NontrivialStr(cv.name, formName, entryName)
	c.Outcome(fmt.Sprintf("err=%v", err != nil))
	c.Case(map[string]any{"value": cv.name, "form": formName, "entry": entryName, "error": fmt.Sprint(err)})
}

// ---- decode targets whose interfaces and pointers form a ring: the decoder must come back (encoding/json itself
// spins on rings longer than one, so there is no reference result: only termination and the absence of a panic are demanded)

type ringNamed interface{}
type ringMeth interface{ M() }
type ringNode struct {
	X int
	N ringMeth
	A any
}

func (*ringNode) M() {}

type ringHolder struct {
	A any
	B ringNamed
}

var ringTargets = []struct {
	name string
	mk   func() any
}{
	{"any -> *any -> itself", func() any { x := new(any); *x = x; return x }},
	{"two any values pointing at each other", func() any { p, q := new(any), new(any); *p, *q = q, p; return p }},
	{"three any values in a ring", func() any { p, q, r := new(any), new(any), new(any); *p, *q, *r = q, r, p; return p }},
	{"two named empty interfaces pointing at each other", func() any { p, q := new(ringNamed), new(ringNamed); *p, *q = q, p; return p }},
	{"three named empty interfaces in a ring", func() any { p, q, r := new(ringNamed), new(ringNamed), new(ringNamed); *p, *q, *r = q, r, p; return p }},
	{"any and named empty interface pointing at each other", func() any { p, q := new(any), new(ringNamed); *p, *q = q, p; return p }},
	{"named empty interface and any pointing at each other", func() any { p, q := new(ringNamed), new(any); *p, *q = q, p; return p }},
	{"any -> **any -> *any -> the first any", func() any { p := new(any); pp := &p; *p = &pp; return p }},
	{"ring entered from outside (a -> b -> c -> b)", func() any { a, b, cc := new(any), new(ringNamed), new(any); *a, *b, *cc = b, cc, b; return a }},
	{"struct fields pointing at each other's interface fields", func() any { h := new(ringHolder); h.A, h.B = &h.B, &h.A; return h }},
	{"two structs whose any fields point at each other's field", func() any { g, h := new(ringHolder), new(ringHolder); g.A, h.A = &h.A, &g.A; return g }},
	{"struct whose interface field holds the struct itself", func() any { n := new(ringNode); n.N = n; n.A = n; return n }},
	{"slice element pointing at the next, the last at the first", func() any { s := make([]any, 3); s[0], s[1], s[2] = &s[1], &s[2], &s[0]; return &s }},
	{"map value any pointing at a ring", func() any { p, q := new(any), new(any); *p, *q = q, p; m := map[string]any{"k": p}; return &m }},
}

var ringDocs = []string{`1`, `"s"`, `null`, `{"k":[1]}`, `[1,[2]]`, `{"A":1,"B":"b","X":3}`, `{"N":{"X":2,"N":{"X":3}},"A":{"A":{"A":4}}}`, `{"k":{"k":{"k":5}}}`, `[{"A":[{"A":1}]},2,3]`, `tru`, ``}

func ringDecode(c *explore.Ctx) {
	rt := ringTargets[c.Choose(len(ringTargets))]
	doc := ringDocs[c.Choose(len(ringDocs))]
	entry := c.Choose(5)
	entryName := []string{"Unmarshal", "Parse(0)", "Parse(DontCopyString|UseNumber)", "Decoder.Decode", "Decoder.Decode+UseNumber"}[entry]
	target := rt.mk()
	var err error
	pv, site := explore.Catch(func() {
		switch entry {
		case 0:
			err = json.Unmarshal([]byte(doc), target)
		case 1:
			_, err = json.Parse([]byte(doc), target, 0)
		case 2:
			_, err = json.Parse([]byte(doc), target, json.DontCopyString|json.UseNumber)
		case 3:
			err = json.NewDecoder(strings.NewReader(doc)).Decode(target)
		case 4:
			d := json.NewDecoder(strings.NewReader(doc))
			d.UseNumber()
			err = d.Decode(target)
		}
	})
	if pv != nil {
		c.Fail("panic:"+site+":"+explore.PanicClass(pv), "%s(%s) into %s panics: %v", entryName, doc, rt.name, pv)
	}
	c.NontrivialStr("ring", rt.name, doc, entryName)
	c.Outcome(fmt.Sprintf("ring err=%v", err != nil))
	if c.WantSample() || c.Failed() {
		c.Case(map[string]any{"target": rt.name, "document": doc, "entry": entryName, "error": fmt.Sprint(err)})
	}
}

// ---- depth ladder
//
// Rungs up to 100,000 run in the worker process; the rungs of 1,000,000 and more (thorough tier) run in a
// child process each, because a stack overflow is a fatal error that cannot be recovered: the child's
// exit status tells a returned error from a crash without costing the worker.

const bigRung = 1000000

// Child is the entry point of `c06 --ladder-child enc|dec a b c [closed]`.
func Child(args []string) {
	n := func(i int) int { v, _ := strconv.Atoi(args[i]); return v }
	defer func() {
		if r := recover(); r != nil {
			fmt.Fprintf(os.Stderr, "PANIC: %v\n", r)
			os.Exit(3)
		}
	}()
	switch args[0] {
	case "enc":
		v := nestedValue(n(1), n(2))
		runEncode(n(3), v)
	case "dec":
		// a quarter of the default 1 GB stack: recursion that grows with the nesting of the document without
		// bound shows at a quarter of the depth (a decoder honouring its 10,000 level limit needs a few MB)
		debug.SetMaxStack(256 << 20)
		ladderTargets[n(1)].run(nestedDoc(n(2), n(3), n(4) == 1))
	}
}

// runChild returns "" (completed), "stack-overflow", "panic: ...", "hang" or "crash: ...".
func runChild(args ...string) string {
	for attempt := 0; ; attempt++ {
		cmd := exec.Command(os.Args[0], append([]string{"--ladder-child"}, args...)...)
		var stderr bytes.Buffer
		cmd.Stderr = &stderr
		if err := cmd.Start(); err != nil {
			panic("cannot start child: " + err.Error())
		}
		done := make(chan error, 1)
		go func() { done <- cmd.Wait() }()
		limit := time.Duration(900*(attempt+1)) * time.Second
		select {
		case err := <-done:
			out := stderr.String()
			switch {
			case err == nil:
				return ""
			case strings.Contains(out, "stack exceeds") || strings.Contains(out, "stack overflow"):
				return "stack-overflow"
			case strings.HasPrefix(out, "PANIC: "):
				return "panic: " + strings.TrimSpace(strings.SplitN(out, "\n", 2)[0][7:])
			default:
				first := strings.SplitN(out, "\n", 2)[0]
				return "crash: " + first
			}
		case <-time.After(limit):
			cmd.Process.Kill()
			<-done
			if attempt == 1 {
				return "hang"
			}
		}
	}
}

func reportChild(c *explore.Ctx, res, what string, depth int) {
	switch {
	case res == "":
	case res == "stack-overflow":
		c.Fail(fmt.Sprintf("stack-overflow:%s:depth=%d", strings.SplitN(what, " ", 2)[0], depth), "%s nested %d deep overflows the goroutine stack (fatal error, the process dies)", what, depth)
	case res == "hang":
		c.Fail(fmt.Sprintf("hang:%s:depth=%d", strings.SplitN(what, " ", 2)[0], depth), "%s nested %d deep does not finish within 30 minutes", what, depth)
	default:
		c.Fail("child:"+explore.PanicClass(res), "%s nested %d deep: %s", what, depth, res)
	}
}

var rungsQuick = []int{100, 1000, 9999, 10000, 10001, 100000}
var rungsThorough = []int{100, 1000, 9999, 10000, 10001, 100000, 1000000, 5000000}

func rungs(c *explore.Ctx) []int {
	if c.Thorough() {
		return rungsThorough
	}
	return rungsQuick
}

func nestedDoc(shape, depth int, closed bool) []byte {
	var open, close, leaf string
	switch shape {
	case 0:
		open, close, leaf = "[", "]", ""
	case 1:
		open, close, leaf = `{"a":`, "}", "1"
	case 2:
		open, close, leaf = `[{"Next":`, "}]", "null"
	case 3:
		open, close, leaf = `{"Next":`, "}", "null"
	case 4:
		open, close, leaf = `{"Kids":[`, "]}", ""
	case 5:
		open, close, leaf = `{"M":{"k":`, "}}", "null"
	}
	var b bytes.Buffer
	b.Grow(depth * (len(open) + len(close)))
	for i := 0; i < depth; i++ {
		b.WriteString(open)
	}
	b.WriteString(leaf)
	if closed {
		for i := 0; i < depth; i++ {
			b.WriteString(close)
		}
	}
	return b.Bytes()
}

var ladderTargets = []struct {
	name string
	run  func(doc []byte)
}{
	{"Valid", func(d []byte) { json.Valid(d) }},
	{"Unmarshal(any)", func(d []byte) { var v any; json.Unmarshal(d, &v) }},
	{"Unmarshal(RawMessage)", func(d []byte) { var v json.RawMessage; json.Unmarshal(d, &v) }},
	{"Unmarshal(struct{})", func(d []byte) { var v struct{}; json.Unmarshal(d, &v) }},
	{"Unmarshal([]any)", func(d []byte) { var v []any; json.Unmarshal(d, &v) }},
	{"Unmarshal(map[string]any)", func(d []byte) { var v map[string]any; json.Unmarshal(d, &v) }},
	{"Unmarshal(Recursive)", func(d []byte) { var v jgen.Recursive; json.Unmarshal(d, &v) }},
	{"Unmarshal([]Recursive)", func(d []byte) { var v []jgen.Recursive; json.Unmarshal(d, &v) }},
	{"Unmarshal(struct{A RawMessage})", func(d []byte) { var v struct{ A json.RawMessage }; json.Unmarshal(d, &v) }},
	{"Tokenizer", func(d []byte) {
		t := json.NewTokenizer(d)
		for t.Next() {
		}
	}},
	{"Decoder.Decode(any)", func(d []byte) { var v any; json.NewDecoder(bytes.NewReader(d)).Decode(&v) }},
	{"Compact", func(d []byte) { var b bytes.Buffer; json.Compact(&b, d) }},
	{"Indent", func(d []byte) {
		if len(d) < 400000 {
			var b bytes.Buffer
			json.Indent(&b, d, "", "")
		}
	}},
	{"Parse(any, ZeroCopy)", func(d []byte) { var v any; json.Parse(d, &v, json.ZeroCopy) }},
}

func ladderDecode(c *explore.Ctx) {
	tg := ladderTargets[c.Choose(len(ladderTargets))]
	shape := c.Choose(6)
	r := rungs(c)
	depth := r[c.Choose(len(r))]
	closed := c.Bool()
	if depth > bigRung && strings.Contains(tg.name, "Recursive") {
		// the error path of struct decoding re-parses the enclosing value at every level (quadratic): the
		// 5,000,000 rung would take longer than the hang horizon without being a hang
		c.Outcome("skipped-quadratic")
		return
	}
	if depth >= bigRung {
		cl := 0
		if closed {
			cl = 1
		}
		res := runChild("dec", fmt.Sprint(indexOfTarget(tg.name)), fmt.Sprint(shape), fmt.Sprint(depth), fmt.Sprint(cl))
		reportChild(c, res, "decode "+tg.name+fmt.Sprintf(" (shape %d, closed %v) of a document", shape, closed), depth)
		c.NontrivialStr("ladder-dec", tg.name, fmt.Sprint(shape, depth, closed))
		c.Outcome("target=" + tg.name + " child=" + res)
		c.Case(map[string]any{"entry": tg.name, "shape": shape, "depth": depth, "closed": closed, "child_result": res})
		return
	}
	doc := nestedDoc(shape, depth, closed)
	if pv, site := explore.Catch(func() { tg.run(doc) }); pv != nil {
		c.Fail("panic:"+site+":"+explore.PanicClass(pv), "%s panics on a document nested %d deep (shape %d, closed %v): %v", tg.name, depth, shape, closed, pv)
	}
	c.NontrivialStr("ladder-dec", tg.name, fmt.Sprint(shape, depth, closed))
	c.Outcome("target=" + tg.name)
	c.Case(map[string]any{"entry": tg.name, "shape": shape, "depth": depth, "closed": closed, "doc_bytes": len(doc)})
}

func indexOfTarget(name string) int {
	for i, t := range ladderTargets {
		if t.name == name {
			return i
		}
	}
	return -1
}

func runEncode(entry int, v any) (err error) {
	switch entry {
	case 0:
		_, err = json.Marshal(v)
	case 1:
		_, err = json.Append(nil, v, 0)
	case 2:
		err = json.NewEncoder(io.Discard).Encode(v)
	}
	return
}

func nestedValue(shape, depth int) any {
	switch shape {
	case 0:
		var v any = 1
		for i := 0; i < depth; i++ {
			v = []any{v}
		}
		return v
	case 1:
		var v any = 1
		for i := 0; i < depth; i++ {
			v = map[string]any{"a": v}
		}
		return v
	case 2:
		var v *jgen.Recursive
		for i := 0; i < depth; i++ {
			v = &jgen.Recursive{V: i, Next: v}
		}
		return v
	case 3:
		v := jgen.Recursive{}
		for i := 0; i < depth; i++ {
			v = jgen.Recursive{Kids: []jgen.Recursive{v}}
		}
		return v
	case 4:
		var v *jgen.Recursive
		for i := 0; i < depth; i++ {
			v = &jgen.Recursive{M: map[string]*jgen.Recursive{"k": v}}
		}
		return v
	case 5:
		v := recSlice{}
		for i := 0; i < depth; i++ {
			v = recSlice{v}
		}
		return v
	case 6:
		var v any = 1
		for i := 0; i < depth; i++ {
			x := v
			v = &x
		}
		return v
	}
	return nil
}

func ladderEncode(c *explore.Ctx) {
	shape := c.Choose(7)
	r := rungs(c)
	depth := r[c.Choose(len(r))]
	entry := c.Choose(3)
	entryName := []string{"Marshal", "Append(flags=0)", "Encoder.Encode"}[entry]
	var err error
	if depth >= bigRung {
		res := runChild("enc", fmt.Sprint(shape), fmt.Sprint(depth), fmt.Sprint(entry))
		reportChild(c, res, "encode "+entryName+fmt.Sprintf(" (shape %d) of a value", shape), depth)
		c.NontrivialStr("ladder-enc", entryName, fmt.Sprint(shape, depth))
		c.Outcome(fmt.Sprintf("shape=%d child=%s", shape, res))
		c.Case(map[string]any{"entry": entryName, "shape": shape, "depth": depth, "child_result": res})
		return
	}
	v := nestedValue(shape, depth)
	if pv, site := explore.Catch(func() { err = runEncode(entry, v) }); pv != nil {
		c.Fail("panic:"+site+":"+explore.PanicClass(pv), "%s panics on a value nested %d deep (shape %d): %v", entryName, depth, shape, pv)
	}
	c.NontrivialStr("ladder-enc", entryName, fmt.Sprint(shape, depth))
	c.Outcome(fmt.Sprintf("shape=%d err=%v", shape, err != nil))
	c.Case(map[string]any{"entry": entryName, "shape": shape, "depth": depth, "error": err != nil})
}

// Spec returns the C06 check.
func Spec() *explore.Spec {
	return &explore.Spec{
		ID: "C06",
		Families: []*explore.Family{
			{Name: "cycles", ShardDepth: 2, HangSeconds: 60, Body: cycles, Doc: "36 cyclic values (pointer cycles of length 1-3, cycles through interfaces that have methods, cycles passing through arrays, through typed containers of containers and through integer-keyed maps, rings reached through 999-1500 non-cyclic levels, slices / maps / interfaces / recursive slice and map types / embedded pointers containing themselves) x {as is, behind *any, inside []any, inside a map, inside a struct field} x {Marshal, Append, Encoder, MarshalIndent}: an error is returned"},
			{Name: "ring-targets", ShardDepth: 2, HangSeconds: 60, FatalPerCase: true, Body: ringDecode, Doc: "14 decode targets whose interfaces and pointers form a ring (any / named empty interface / mixed, length 1-3, through **any, entered from outside, struct fields, slice elements, map values, a struct holding itself in a method-bearing interface) x 11 documents x 5 entry points: the call returns, without a panic or a stack overflow"},
			{Name: "layouts-encode", ShardDepth: 1, Body: layoutsEncode, Doc: "every type shape of C01 plus pointer-shaped leaves nested 1-3 levels in single-field structs and one-element arrays x boundary values x {by value, by pointer, inside []any, as map value, in a typed slice, in a typed map} x {Marshal, Encoder with indent, Append(0)}"},
			{Name: "layouts-decode", ShardDepth: 1, Body: layoutsDecode, Doc: "the same type shapes x (34 generic documents incl. mismatching, truncated and malformed ones + the encodings of the type's own boundary values) x {Unmarshal into *T and **T, Decoder with UseNumber, Parse with ZeroCopy|DisallowUnknownFields|DontMatchCaseInsensitiveStructFields}"},
			{Name: "error-excerpts", ShardDepth: 2, Body: errorExcerpts, Doc: "malformed documents lead + erroneous token + 0..70 bytes (ASCII, spaces, two-byte runes) + one of 17 tails (stray continuation bytes, complete and cut multi-byte runes incl. the line separators the encoder escapes, '<', a backslash) for 6 leads x 10 erroneous tokens, through 13 entry points (Valid, Unmarshal into any / struct / []string, Parse, Decoder, Tokenizer, Compact, Indent, Marshal of a RawMessage, Append and Encoder with the RawMessage trusted): what follows the place of the error, at any distance, never makes the call panic"},
			{Name: "page-edge", ShardDepth: 2, Body: pageEdge, Doc: "documents placed so that they end at the last byte before an inaccessible page, and so that they start at the first byte behind one: all byte strings <= 4 over a 26-byte alphabet, strings of length 0..80 with each alphabet byte in each of the last 9 positions (closed, unclosed, inside an array), numbers / literals / escapes / containers cut at every length: Valid, Unmarshal into any and string, Tokenizer (with String), Escape, Unescape touch nothing outside the document (a fault is caught) and answer as they do for a copy elsewhere; the same documents as windows of a larger buffer whose spare capacity holds quotes, backslashes, digits, closers, commas or letters"},
			{Name: "corrupt-typed", ShardDepth: 1, Body: corruptTyped, Doc: "typed documents (encodings of boundary values) truncated at every offset and with every byte replaced by each of 14 structural bytes, decoded into their own type"},
			{Name: "ladder-decode", ShardDepth: 3, HangSeconds: 300, MaxWorkers: 8, Body: ladderDecode, Doc: "documents nested 100 ... 100,000 (thorough 1,000,000 and 5,000,000) deep in 6 shapes (arrays, objects, mixed, recursive-struct shaped), closed and unclosed, through 14 entry points (Valid, Unmarshal into any / RawMessage / struct{} / []any / map / recursive struct types, Tokenizer, Decoder, Compact, Indent, Parse)"},
			{Name: "ladder-encode", ShardDepth: 3, HangSeconds: 300, MaxWorkers: 8, Body: ladderEncode, Doc: "values nested 100 ... 100,000 (thorough 1,000,000 and 5,000,000) deep in 7 shapes ([]any, map[string]any, pointer chains, recursive struct via slice / map / pointer, recursive slice type, *any chains) through Marshal / Append / Encoder"},
		},
		Rule: "every case of the bounded sets runs under recover(); process death or a hang is attributed by re-running the case alone",
		Assumptions: []string{
			"RawValue.Unquote/AppendUnquote are documented to panic on malformed input and are not called",
			"a hang is detected by the engine's no-progress watchdog (60-300 s for cases that take microseconds to seconds) and confirmed by re-running the case alone three times; a time-out of a whole shard is reported as exhaustive:false, never as a violation",
			"the panics, crashes and hangs found by the harnesses of C01, C02, C05, C11, C14, C15, C17 are reported under those properties",
		},
	}
}

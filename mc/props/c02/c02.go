// Package c02: json.Unmarshal accepts, rejects and decodes like encoding/json (DESIGN.md §5 C02).
package c02

import (
	"bytes"
	stdjson "encoding/json"
	"fmt"
	"reflect"
	"regexp"
	"strings"
	"unicode"

	"github.com/segmentio/encoding/json"
	"verif/mc/explore"
	"verif/mc/gen/jgen"
	"verif/mc/props/c01"
)

func typeName(t reflect.Type) string {
	s := strings.ReplaceAll(t.String(), "jgen.", "")
	s = strings.ReplaceAll(s, "interface {}", "any")
	if len(s) > 100 {
		s = s[:100]
	}
	return s
}

func trunc(b []byte) string {
	if len(b) > 100 {
		return string(b[:100]) + "…"
	}
	return string(b)
}

type entry struct {
	name string
	seg  func(b []byte, x any) error
	std  func(b []byte, x any) error
}

func decEntry(useNumber, disallow bool) entry {
	name := "Decoder"
	if useNumber {
		name += "+UseNumber"
	}
	if disallow {
		name += "+DisallowUnknownFields"
	}
	return entry{name,
		func(b []byte, x any) error {
			d := json.NewDecoder(bytes.NewReader(b))
			if useNumber {
				d.UseNumber()
			}
			if disallow {
				d.DisallowUnknownFields()
			}
			return d.Decode(x)
		},
		func(b []byte, x any) error {
			d := stdjson.NewDecoder(bytes.NewReader(b))
			if useNumber {
				d.UseNumber()
			}
			if disallow {
				d.DisallowUnknownFields()
			}
			return d.Decode(x)
		}}
}

var entries = []entry{
	{"Unmarshal", func(b []byte, x any) error { return json.Unmarshal(b, x) }, func(b []byte, x any) error { return stdjson.Unmarshal(b, x) }},
	{"Parse", func(b []byte, x any) error {
		rest, err := json.Parse(b, x, 0)
		if err == nil && len(rest) != 0 {
			return fmt.Errorf("trailing data")
		}
		return err
	}, func(b []byte, x any) error { return stdjson.Unmarshal(b, x) }},
	decEntry(false, false), decEntry(true, false), decEntry(false, true), decEntry(true, true),
}

// step decodes doc into both targets and compares; it returns false when the history must stop.
func step(c *explore.Ctx, e entry, t reflect.Type, doc []byte, segT, stdT reflect.Value, site, desc string) bool {
	var serr, rerr error
	if pv, _ := explore.Catch(func() { rerr = e.std(doc, stdT.Interface()) }); pv != nil {
		return false // encoding/json panics: outside the comparison
	}
	if pv, ps := explore.Catch(func() { serr = e.seg(doc, segT.Interface()) }); pv != nil {
		c.Fail("panic:"+e.name+":"+ps+":"+explore.PanicClass(pv), "%s(%s) into %s panicked: %v [%s]", e.name, trunc(doc), typeName(t), pv, desc)
		return false
	}
	if (serr == nil) != (rerr == nil) {
		if serr == nil {
			c.Fail("accepts:"+e.name+":"+site, "%s(%s) into %s succeeds, encoding/json fails: %v [%s]", e.name, trunc(doc), typeName(t), rerr, desc)
		} else {
			c.Fail("rejects:"+e.name+":"+site, "%s(%s) into %s fails (%v), encoding/json succeeds [%s]", e.name, trunc(doc), typeName(t), serr, desc)
		}
		return false
	}
	if serr != nil {
		return false // both fail: partial content is not compared
	}
	if ok, why := jgen.DeepEq(stdT.Elem(), segT.Elem()); !ok {
		if strings.Contains(why, "nil pointer true != false") && jgen.LastPtrDiff.Elem().Kind() == reflect.Ptr && bytes.Contains(doc, []byte("null")) {
			// one phenomenon, one signature (pinned by the repository's own TestUnmarshalFuzzBugs/#10)
			c.Fail("value:null-into-non-nil-pointer-to-pointer-clears-only-the-inner-pointer", "%s(%s) into %s: targets differ at %s (encoding/json first) [%s]", e.name, trunc(doc), typeName(t), why, desc)
			return false
		}
		c.Fail("value:"+e.name+":"+site, "%s(%s) into %s: targets differ at %s (encoding/json first) [%s]", e.name, trunc(doc), typeName(t), why, desc)
		return false
	}
	return true
}

// ---- documents derived from a type

var docCache = map[reflect.Type][][]byte{}

// baseDocs are valid documents for t: the encodings of its domain values.
func baseDocs(t reflect.Type) [][]byte {
	if d, ok := docCache[t]; ok {
		return d
	}
	seen := map[string]bool{}
	var out [][]byte
	add := func(b []byte) {
		if !seen[string(b)] && len(b) <= 400 {
			seen[string(b)] = true
			out = append(out, b)
		}
	}
	for _, v := range jgen.CachedDomain(t) {
		var b []byte
		var err error
		if pv, _ := explore.Catch(func() { b, err = stdjson.Marshal(v.Interface()) }); pv == nil && err == nil {
			add(b)
		}
	}
	// object key variants of the valid documents: trailing NUL (zero padding of the
	// keyset lookup), case changes, prefix / extension, duplicate under a variant
	n := len(out)
	for i := 0; i < n && i < 3; i++ {
		d := out[i]
		for _, m := range keyRe.FindAllSubmatchIndex(d, 4) {
			name := string(d[m[2]:m[3]])
			vars := []string{name + `\u0000`, strings.ToUpper(name), strings.ToLower(name), name + " ", name + "x", name[:len(name)-1], "\u017f" + name, name + `\u0000\u0000`}
			// every rune on its own replaced by each other member of its case-folding orbit (é/É, k/K/Kelvin sign, s/S/long s, σ/ς/Σ)
			rs := []rune(name)
			for ri, r := range rs {
				for x := unicode.SimpleFold(r); x != r; x = unicode.SimpleFold(x) {
					alt := append(append(append([]rune{}, rs[:ri]...), x), rs[ri+1:]...)
					vars = append(vars, string(alt))
				}
			}
			for _, v := range vars {
				alt := string(d[:m[2]]) + v + string(d[m[3]:])
				add([]byte(alt))
			}
			// the member's value replaced by null (promoted fields behind nil embedded pointers are allocated by a
			// key alone; null leaves other kinds untouched)
			if val := memberValue(d, m[1]); val != "" && val != "null" {
				add([]byte(string(d[:m[1]]) + "null" + string(d[m[1]+len(val):])))
			}
			// the same member again under a variant name, after the original
			if d[len(d)-1] == '}' {
				val := memberValue(d, m[1])
				if val != "" {
					for _, v := range []string{name + `\u0000`, strings.ToUpper(name)} {
						add([]byte(string(d[:len(d)-1]) + `,"` + v + `":` + val + `}`))
					}
				}
			}
		}
	}
	docCache[t] = out
	return out
}

var keyRe = regexp.MustCompile(`"([\p{L}][\p{L}\p{N}_]*)":`)

// memberValue returns the text of the value that follows position p if it is a scalar.
func memberValue(d []byte, p int) string {
	rest := d[p:]
	for i, c := range rest {
		if c == ',' || c == '}' {
			v := string(rest[:i])
			if !strings.ContainsAny(v, "[{") {
				return v
			}
			return ""
		}
	}
	return ""
}

var literalDocs = [][]byte{}

func init() {
	for _, s := range []string{
		"null", "true", "false", `""`, `"a"`, "0", "-0", "1", "1.0", "1e0", "1E+2", "-1.5e-3", "127", "128", "-128", "-129", "255", "256", "32767", "32768", "65535", "65536",
		"2147483647", "2147483648", "-2147483648", "-2147483649", "4294967295", "4294967296", "9223372036854775807", "9223372036854775808", "-9223372036854775808", "-9223372036854775809",
		"18446744073709551615", "18446744073709551616", "28446744073709551616", "100000000000000000000", "1e400", "-1e400", "1e-400", "3.4028235e38", "3.4028236e38", "7.038531e-26", "3.4028235677973366e38", "0.1", "01", "-01", "1.", ".1", "+1", "--1", "1e", "1e+", "0x1", "1_0",
		`"A\n\t\"\\\/\b\f\r"`, `"\u0000"`, `"\ud800"`, `"😀"`, `"\ude00\ud83d"`, `"\ud800x"`, `"\ud800A"`, "\"\xff\xfe\"", "\"a\x00b\"", "\"a\x1fb\"", `"\x"`, `"\u12"`, `"\u12g4"`, `"abc`, `"aaaaaaa"`, `"aaaaaaaa"`, `"aaaaaaaaa"`, `"aaaaaaaaaaaaaaa"`, `"aaaaaaaaaaaaaaaa"`, `"aaaaaaaaaaaaaaaaa"`, `"aaaaaaa\n"`, `"aaaaaaaaaaaaaaa\""`,
		`"1"`, `"-1"`, `"1.5"`, `"true"`, `"null"`, `" 1"`, `"1 "`, `"007"`, `"\"x\""`, `"2021-03-25T21:36:12Z"`, `"2021-03-25T21:36:12.5+01:00"`, `"2021-03-25t21:36:12z"`, `"1h30m"`, `"aGkh"`, `"aGk"`, `"aGkh\n"`, `"!!"`,
		"[]", "[1]", "[1,2]", "[1,2,3]", `[1,"a"]`, "[null]", "[[1]]", "[1,]", "[,1]", "[1 2]", "[", "]", "[1", `["a","b"]`, "[true]", "[{}]",
		"{}", `{"F":1}`, `{"f":1}`, `{"F":null}`, `{"F":"x"}`, `{"F":1,"F":2}`, `{"F":1,"f":2}`, `{"f":1,"F":2}`, `{"G":1}`, `{"":1}`, `{"F":1,"Unknown":[1,{"a":2}]}`, `{"F":[1,2]}`, `{"F":{"F":1}}`, `{"a":1,"b":2}`, `{"1":1,"-2":2}`, `{"1.5":1}`, `{"A":1,"a":2}`, `{"F":1,}`, `{"F" 1}`, `{"F":1 "G":2}`, `{F:1}`, `{`, `{"F"`, `{"F":`, `{"F":1`,
		`{"ID":7,"name":"n","Extra":true,"Level":3,"Misc":"m","id":9,"Inner":"i"}`, `{"Name":1,"NAME":2,"name":3,"nAmE":4,"Name2":5}`, `{"ſhort":1,"Key":2}`, `{"vm":5}`, `[5,"x"]`, `"vt<5>"`, `"pt&5"`, `"vms:x"`, `"pts:y"`, `"i7"`, "1007", `"3-4"`, `"p9"`,
		`{"a":"x","b":null}`, `{"a":1,"b":null}`, `{"a":[1],"b":null}`, `{"a":true,"b":null}`, `{"a":{"a":1},"b":null}`, `{"a":["x"],"b":null,"c":[]}`, `["x",null]`, `[1,null]`, `[[1],null]`, `[{"a":1},null]`, `[true,null,false]`, `{"F":"x","G":null}`, `{"F":1,"G":null}`,
		// the same one level further down: a null element after a sibling container held a value in its place
		`{"a":["x","y"],"b":[null,"z"]}`, `{"a":[1,2],"b":[null,3]}`, `{"a":[true],"b":[null]}`, `[["x","y"],[null,"z"]]`, `[[1,2],[null,3]]`, `{"a":{"k":"v"},"b":{"k":null}}`, `{"a":{"k":1},"b":{"k":null,"l":2}}`, `[{"a":"x"},{"a":null}]`, `{"a":true,"a":null}`, `{"a":"x","a":null}`, `{"a":[["x"]],"b":[[null]]}`,
		" 1 ", "\n\t[ 1 , 2 ]\r\n", "1 2", "1}", "nul", "nulll", "tru", "True", "NaN", "Infinity", "", " ",
	} {
		literalDocs = append(literalDocs, []byte(s))
	}
}

var mutBytes = []byte{'"', ',', ':', '{', '}', '[', ']', '0', '-', 'e', ' ', '\\', 'n', 'x', 0x00, 0x80}

// mutations of a base document: every truncation, deletion, substitution and insertion over a class alphabet.
func mutations(d []byte) [][]byte {
	var out [][]byte
	for cut := 0; cut < len(d); cut++ {
		out = append(out, d[:cut])
	}
	for pos := 0; pos < len(d); pos++ {
		out = append(out, append(append([]byte{}, d[:pos]...), d[pos+1:]...))
		for _, x := range mutBytes {
			if x != d[pos] {
				m := append([]byte{}, d...)
				m[pos] = x
				out = append(out, m)
			}
		}
	}
	for pos := 0; pos <= len(d); pos++ {
		for _, x := range mutBytes[:12] {
			out = append(out, append(append(append([]byte{}, d[:pos]...), x), d[pos:]...))
		}
	}
	return out
}

func decodable(t reflect.Type) bool { return true }

var types []reflect.Type

func typeList() []reflect.Type {
	if types == nil {
		types = c01.TypeList(true)
	}
	return types
}

func classOf(t reflect.Type) string {
	// the innermost interesting type name keeps signatures small
	return typeName(t)
}

// typed: every type x (base docs, literal docs) x prior state x entry point
func typed(c *explore.Ctx) {
	ts := typeList()
	t := ts[c.Choose(len(ts))]
	docs := append(append([][]byte{}, baseDocs(t)...), literalDocs...)
	doc := docs[c.Choose(len(docs))]
	e := entries[c.Deviate(len(entries))]
	// prior state: zero value (default), a domain value, or the result of decoding an earlier document
	dom := jgen.CachedDomain(t)
	nPrior := 1 + min(len(dom), 6) + min(len(baseDocs(t)), 3)
	pk := c.Deviate(nPrior)
	segT, stdT := reflect.New(t), reflect.New(t)
	desc := "fresh target"
	switch {
	case pk == 0:
	case pk <= min(len(dom), 6):
		v := dom[pk-1]
		segT.Elem().Set(jgen.Clone(v))
		stdT.Elem().Set(jgen.Clone(v))
		desc = "target pre-set to " + jgen.Describe(v)
	default:
		pd := baseDocs(t)[pk-1-min(len(dom), 6)]
		desc = "after decoding " + trunc(pd)
		if !step(c, entries[0], t, pd, segT, stdT, "prior:"+classOf(t), "first document of a history") {
			c.Outcome("prior-failed")
			return
		}
	}
	ok := step(c, e, t, doc, segT, stdT, classOf(t), desc)
	c.NontrivialStr(typeName(t), string(doc), e.name, desc)
	c.Outcome(fmt.Sprintf("ok=%v prior=%v", ok, pk != 0))
	if c.WantSample() || c.Failed() {
		c.Case(map[string]any{"type": typeName(t), "document": trunc(doc), "entry": e.name, "prior": desc})
	}
}

// mutated: types of the first levels x base documents x every mutation
var mutTypes []reflect.Type

func mutated(c *explore.Ctx) {
	if mutTypes == nil {
		mutTypes = append(mutTypes, jgen.Leaves...)
		mutTypes = append(mutTypes, jgen.Statics...)
		mutTypes = append(mutTypes, jgen.KeyedMaps()...)
		for _, t := range jgen.Leaves[:12] {
			mutTypes = append(mutTypes, jgen.Wrappers(t, false)...)
		}
		mutTypes = append(mutTypes, jgen.WideStruct(32), jgen.WideStruct(33), jgen.LongNameStruct())
	}
	t := mutTypes[c.Choose(len(mutTypes))]
	docs := baseDocs(t)
	if len(docs) == 0 {
		c.Outcome("no-docs")
		return
	}
	maxDocs := 4
	if c.Thorough() {
		maxDocs = 10
	}
	d := docs[c.Choose(min(len(docs), maxDocs))]
	if len(d) > 48 && !c.Thorough() || len(d) > 160 {
		c.Outcome("long")
		return
	}
	var n int64
	for _, m := range mutations(d) {
		segT, stdT := reflect.New(t), reflect.New(t)
		step(c, entries[0], t, m, segT, stdT, "mutation:"+classOf(t), "mutation of "+trunc(d))
		n++
	}
	c.Inner(n)
	c.NontrivialStr("mut", typeName(t), string(d))
	c.Outcome("mutations")
	if c.WantSample() || c.Failed() {
		c.Case(map[string]any{"type": typeName(t), "base_document": trunc(d), "mutations": n})
	}
}

var tokens = []string{"{", "}", "[", "]", ",", ":", `"a"`, `"A"`, `""`, "1", "-1", "1.5", "1e2", "null", "true", "false", " ", "x", "1e+", "2E-"}

var tokenTargets = []reflect.Type{
	jgen.T[any](), jgen.T[int](), jgen.T[string](), jgen.T[[]int](), jgen.T[[2]int](), jgen.T[map[string]int](), jgen.T[struct{ A int }](), jgen.T[*int](), jgen.T[bool](), jgen.T[float64](),
	jgen.T[stdjson.RawMessage](), jgen.T[stdjson.Number](), jgen.T[uint8](), jgen.T[[]byte](), jgen.T[struct {
		A string
		a int
		B *bool `json:"b,omitempty"`
	}](), jgen.T[[]any](), jgen.T[map[string]any](), jgen.T[[0]int](), jgen.T[struct{}](), jgen.T[map[int]string](), jgen.T[[]string](), jgen.T[jgen.VMStruct](), jgen.T[jgen.VTStruct](), jgen.T[[1]*int](), jgen.T[map[string]stdjson.RawMessage](),
}

func tokenSeqs(c *explore.Ctx) {
	t := tokenTargets[c.Choose(len(tokenTargets))]
	maxL := 4
	if c.Thorough() {
		maxL = 5
	}
	first := c.Choose(len(tokens))
	var n int64
	idx := make([]int, 0, maxL)
	var rec func()
	rec = func() {
		var sb strings.Builder
		for _, i := range idx {
			sb.WriteString(tokens[i])
		}
		doc := []byte(sb.String())
		segT, stdT := reflect.New(t), reflect.New(t)
		step(c, entries[0], t, doc, segT, stdT, "tokens:"+typeName(t), "token sequence")
		n++
		if len(idx) == maxL {
			return
		}
		for i := range tokens {
			idx = append(idx, i)
			rec()
			idx = idx[:len(idx)-1]
		}
	}
	idx = append(idx, first)
	rec()
	c.Inner(n)
	c.NontrivialStr("tok", typeName(t), tokens[first])
	c.Outcome("tokens")
	if c.WantSample() || c.Failed() {
		c.Case(map[string]any{"type": typeName(t), "first_token": tokens[first], "sequences": n})
	}
}

// Unescape / AppendUnescape against the standard library's string decoding
func unescape(c *explore.Ctx) {
	d := literalDocs[c.Choose(len(literalDocs))]
	if len(d) == 0 || d[0] != '"' {
		c.Outcome("not-a-string")
		return
	}
	var want string
	werr := stdjson.Unmarshal(d, &want)
	var got []byte
	pv, ps := explore.Catch(func() { got = json.Unescape(d) })
	if pv != nil {
		if werr == nil {
			c.Fail("Unescape:panic:"+ps, "Unescape(%s) panicked: %v", d, pv)
		}
	} else if werr == nil && string(got) != want {
		c.Fail("Unescape:value", "Unescape(%s) = %q, encoding/json decodes %q", d, got, want)
	}
	if werr == nil {
		if pv, _ := explore.Catch(func() { got = json.AppendUnescape([]byte("pre"), d, 0) }); pv == nil && string(got) != "pre"+want {
			c.Fail("AppendUnescape:value", "AppendUnescape(pre,%s) = %q", d, got)
		}
	}
	c.NontrivialStr("unesc", string(d))
	c.Outcome(fmt.Sprintf("valid=%v", werr == nil))
	c.Case(map[string]any{"string_literal": trunc(d)})
}

// ---- histories of three decodes into one variable: what a decode leaves behind (backing arrays, map entries,
// allocated pointers) must influence the next one exactly as it does in encoding/json

type histItem struct{ A, B int }

var histTargets = []reflect.Type{
	jgen.T[[]histItem](), jgen.T[[]*histItem](), jgen.T[[]map[string]int](), jgen.T[[][]int](), jgen.T[[2]histItem](), jgen.T[map[string][]histItem](),
	jgen.T[struct{ L []histItem }](), jgen.T[*[]histItem](), jgen.T[[]any](), jgen.T[map[string]*histItem](), jgen.T[[]jgen.NamedAny](), jgen.T[any](),
	jgen.T[map[string]stdjson.RawMessage](), jgen.T[map[string]string](), jgen.T[map[string]bool](), jgen.T[map[string]any](), jgen.T[map[string][]string](), jgen.T[map[string]int](),
}

var histDocs = []string{`[{"A":1}]`, `[]`, `[{"B":2}]`, `null`, `[{"A":3},{"B":4}]`, `[{}]`, `[null]`, `{"k":[{"A":5}]}`, `{"k":[{"B":6}],"L":[{"B":7}]}`, `{"k":null,"L":[]}`, `[{"A":8},{"A":9}]`, `[{"B":2},{"A":9},{"A":1,"B":1}]`, `{"k":[{"B":1},{"A":2}]}`, `{"k":"v"}`, `{"m":true,"k":null}`, `{,"c":3}`, `{"l":["x"],"k":[null]}`}

func histories(c *explore.Ctx) {
	t := histTargets[c.Choose(len(histTargets))]
	d1 := c.Choose(len(histDocs))
	maxLen := 3
	var n int64
	var rec func(segT, stdT reflect.Value, path []int)
	rec = func(segT, stdT reflect.Value, path []int) {
		if len(path) == maxLen {
			return
		}
		for d := range histDocs {
			if len(path) == 0 && d != d1 {
				continue
			}
			// replay the path on fresh targets (values cannot be cloned with their spare capacity)
			s2, r2 := reflect.New(t), reflect.New(t)
			ok := true
			full := append(append([]int{}, path...), d)
			for i, di := range full {
				n++
				if !step(c, entries[0], t, []byte(histDocs[di]), s2, r2, "history:"+classOf(t), fmt.Sprintf("document %d of the history %v", i+1, full)) {
					ok = false
					break
				}
			}
			if ok {
				rec(s2, r2, full)
			}
		}
	}
	rec(reflect.Value{}, reflect.Value{}, nil)
	c.Inner(n)
	c.NontrivialStr("hist", typeName(t), fmt.Sprint(d1))
	c.Outcome("history")
	if c.WantSample() || c.Failed() {
		c.Case(map[string]any{"type": typeName(t), "first_document": histDocs[d1], "decodes": n})
	}
}

// ---- ',string' fields: the content of the string is not JSON, it is whatever encoding/json's literal store accepts

type soFloat64 struct {
	F float64 `json:",string"`
}
type soFloat32 struct {
	F float32 `json:",string"`
}
type soInt struct {
	F int `json:",string"`
}
type soInt8 struct {
	F int8 `json:",string"`
}
type soUint16 struct {
	F uint16 `json:",string"`
}
type soUint64 struct {
	F uint64 `json:",string"`
}
type soBool struct {
	F bool `json:",string"`
}
type soString struct {
	F string `json:",string"`
}
type soPFloat64 struct {
	F *float64 `json:",string"`
}
type soPInt struct {
	F *int `json:",string"`
}
type soPBool struct {
	F *bool `json:",string"`
}
type soPString struct {
	F *string `json:",string"`
}
type soNumber struct {
	F json.Number `json:",string"`
}
type soAny struct {
	F any `json:",string"`
}
type soPPFloat struct {
	F **float64 `json:",string"`
}
type soNamedFloat struct {
	F jgen.NamedInt `json:",string"`
	G float64       `json:"g,string,omitempty"`
}

// kinds with their own unmarshaling methods: the content of the string reaches the method as it is
type soMFloat float64

func (f *soMFloat) UnmarshalJSON(b []byte) error { *f = soMFloat(len(b)) + 0.25; return nil }

type soMInt int

func (i *soMInt) UnmarshalJSON(b []byte) error {
	if len(b) > 0 && b[0] == 'x' {
		return fmt.Errorf("soMInt: refused")
	}
	*i = soMInt(len(b))*100 + soMInt(b[0])
	return nil
}

type soMStr string

func (s *soMStr) UnmarshalJSON(b []byte) error { *s = soMStr("got:" + string(b)); return nil }

type soTFloat float64

func (f *soTFloat) UnmarshalText(b []byte) error { *f = soTFloat(len(b)); return nil }

type soTBool bool

func (f *soTBool) UnmarshalText(b []byte) error { *f = len(b)%2 == 1; return nil }

type soUMFloat struct {
	F soMFloat `json:",string"`
}
type soUMInt struct {
	F soMInt `json:",string"`
}
type soUMStr struct {
	F soMStr `json:",string"`
}
type soUTFloat struct {
	F soTFloat `json:",string"`
}
type soUTBool struct {
	F soTBool `json:",string"`
}
type soUMPInt struct {
	F *soMInt `json:",string"`
}

var soTypes = []reflect.Type{
	jgen.T[soUMFloat](), jgen.T[soUMInt](), jgen.T[soUMStr](), jgen.T[soUTFloat](), jgen.T[soUTBool](), jgen.T[soUMPInt](),
	jgen.T[soFloat64](), jgen.T[soFloat32](), jgen.T[soInt](), jgen.T[soInt8](), jgen.T[soUint16](), jgen.T[soUint64](), jgen.T[soBool](), jgen.T[soString](),
	jgen.T[soPFloat64](), jgen.T[soPInt](), jgen.T[soPBool](), jgen.T[soPString](), jgen.T[soNumber](), jgen.T[soAny](), jgen.T[soPPFloat](), jgen.T[soNamedFloat](),
}

var jsonNumberRE = regexp.MustCompile(`^-?(0|[1-9][0-9]*)(\.[0-9]+)?([eE][+-]?[0-9]+)?$`)

var soTokens = []string{"0", "1", "9", "-", "+", ".", "e", "x", "p", "_", " ", "true", "false", "null", `\"`, "a", "Inf", "NaN", `\n`, `\u0031`}

func stringOption(c *explore.Ctx) {
	t := soTypes[c.Choose(len(soTypes))]
	first := c.Choose(len(soTokens) + 1) // first token (or none)
	maxLen := 3
	if c.Thorough() {
		maxLen = 4
	}
	var contents []string
	var rec func(prefix string, n int)
	rec = func(prefix string, n int) {
		contents = append(contents, prefix)
		if n == 0 {
			return
		}
		for _, tk := range soTokens {
			rec(prefix+tk, n-1)
		}
	}
	if first == len(soTokens) {
		contents = []string{""}
	} else {
		rec(soTokens[first], maxLen-1)
	}
	var n int64
	for _, content := range contents {
		for _, doc := range []string{`{"F":"` + content + `"}`, `{"F":` + strings.ReplaceAll(content, `\"`, `"`) + `}`, `{"g":"` + content + `","F":"1"}`} {
			for _, preset := range []bool{false, true} {
				segT, stdT := reflect.New(t), reflect.New(t)
				if preset {
					// a prior successful decode leaves pointers allocated and values set
					pre := []byte(`{"F":"7"}`)
					if t == jgen.T[soBool]() || t == jgen.T[soPBool]() {
						pre = []byte(`{"F":"true"}`)
					} else if t == jgen.T[soString]() || t == jgen.T[soPString]() {
						pre = []byte(`{"F":"\"s\""}`)
					}
					stdjson.Unmarshal(pre, stdT.Interface())
					stdjson.Unmarshal(pre, segT.Interface())
				}
				n++
				var plain struct{ F any }
				inner, _ := "", stdjson.Unmarshal([]byte(doc), &plain)
				if sv, ok := plain.F.(string); ok {
					inner = sv
				}
				if t == jgen.T[soNumber]() && len(inner) > 0 && (inner[0] == '-' || inner[0] >= '0' && inner[0] <= '9') && !jsonNumberRE.MatchString(inner) {
					// one phenomenon, one signature: encoding/json stores any content that starts like a number
					// into a Number field tagged ',string' without validating it ("00", "0x", "1 a")
					var serr, rerr error
					explore.Catch(func() { rerr = stdjson.Unmarshal([]byte(doc), stdT.Interface()) })
					pv, _ := explore.Catch(func() { serr = json.Unmarshal([]byte(doc), segT.Interface()) })
					if pv == nil && rerr == nil && serr != nil {
						c.Fail("rejects:string-option:Number-field-with-number-like-but-invalid-content", "Unmarshal(%s) into %s fails (%v), encoding/json stores the content unvalidated", doc, t.Name(), serr)
						continue
					}
					segT, stdT = reflect.New(t), reflect.New(t)
				}
				step(c, entries[0], t, []byte(doc), segT, stdT, "string-option:"+t.Name(), fmt.Sprintf("preset=%v", preset))
			}
		}
	}
	c.Inner(n)
	c.NontrivialStr("so", t.Name(), fmt.Sprint(first))
	c.Outcome("type=" + t.Name())
	if c.WantSample() || c.Failed() {
		c.Case(map[string]any{"type": t.Name(), "first_token": first, "documents": n})
	}
}

// Spec returns the C02 check.
// ---- interfaces that hold a pointer to themselves: encoding/json decodes into the interface as if it was empty

type selfField struct {
	A int
	F any
}

var selfShapes = []struct {
	name string
	mk   func() reflect.Value // pointer to the target
}{
	{"any holding a pointer to itself", func() reflect.Value { x := new(any); *x = x; return reflect.ValueOf(x) }},
	{"named empty interface holding a pointer to itself", func() reflect.Value { x := new(jgen.NamedAny); *x = x; return reflect.ValueOf(x) }},
	{"struct field of type any holding a pointer to itself", func() reflect.Value { x := new(selfField); x.F = &x.F; return reflect.ValueOf(x) }},
	{"slice element of type any holding a pointer to itself", func() reflect.Value { x := &[]any{nil, 2}; (*x)[0] = &(*x)[0]; return reflect.ValueOf(x) }},
	{"array element of type any holding a pointer to itself", func() reflect.Value { x := new([2]any); x[1] = &x[1]; return reflect.ValueOf(x) }},
	{"any holding a pointer to another any (no cycle)", func() reflect.Value { y := new(any); *y = 5; x := new(any); *x = y; return reflect.ValueOf(x) }},
}

var selfDocs = []string{`1`, `"s"`, `null`, `true`, `{"k":[1]}`, `[1,"a"]`, `[null]`, `{"F":1}`, `{"F":{"F":[2]},"A":3}`, `{"F":null}`, `[]`, `{}`, `[[3],4]`, `tru`, `{"F":`, ``, ` 7 `}

func selfReference(c *explore.Ctx) {
	sh := selfShapes[c.Choose(len(selfShapes))]
	doc := []byte(selfDocs[c.Choose(len(selfDocs))])
	e := entries[c.Choose(len(entries))]
	segT, stdT := sh.mk(), sh.mk()
	ok := step(c, e, segT.Type().Elem(), doc, segT, stdT, "self-reference", sh.name)
	c.NontrivialStr("self", sh.name, string(doc), e.name)
	c.Outcome(fmt.Sprintf("self ok=%v", ok))
	if c.WantSample() || c.Failed() {
		c.Case(map[string]any{"target": sh.name, "document": string(doc), "entry": e.name})
	}
}

func Spec() *explore.Spec {
	return &explore.Spec{
		ID: "C02",
		Families: []*explore.Family{
			{Name: "typed", ShardDepth: 1, Body: typed, Bound: func(tier string) int {
				if tier == "thorough" {
					return 2
				}
				return 1
			},
				Doc: "every type shape of C01's universe (~6700) x {valid documents derived from the type's domain, 200 literal documents: number/string/key tables, malformed forms} x prior state {zero, 6 pre-set values incl. interface-held pointers, result of decoding an earlier document} x entry {Unmarshal, Parse, Decoder x UseNumber x DisallowUnknownFields}; one non-default choice among (entry, prior) per case (two in thorough)"},
			{Name: "mutated", ShardDepth: 1, Body: mutated, Doc: "leaf / hand-written / map / first-level wrapper types x valid documents x every truncation, deletion, substitution and insertion over a 16-byte class alphabet"},
			{Name: "token-seqs", ShardDepth: 2, Body: tokenSeqs, Doc: "all token sequences up to 4 (5 thorough) over 18 tokens x 25 target types"},
			{Name: "histories", ShardDepth: 2, Body: histories, Doc: "every sequence of up to 3 documents (17 documents: arrays that grow, shrink to a shorter non-empty array or to [], null, objects; elements given in part, so that what an element keeps from an earlier decode shows) decoded one after the other into the same variable of 18 slice / array / map (incl. the six map[string]X shapes with codecs of their own) / pointer / interface shapes"},
			{Name: "string-option", ShardDepth: 2, Body: stringOption, Doc: "struct fields tagged ',string' of 22 kinds (floats, signed/unsigned integers, bool, string, pointers to them, Number, any, and float / int / string / bool kinds with their own UnmarshalJSON or UnmarshalText) x every content string built from <= 3 (thorough 4) of 20 tokens (digits, signs, dot, exponent and hex letters, underscore, white space, true/false/null, escaped quotes, Inf, NaN, escapes) - quoted and bare - x {zero, pre-set} target"},
			{Name: "self-reference", ShardDepth: 2, FatalPerCase: true, Body: selfReference, Doc: "targets whose interface value (any, named empty interface, struct field, slice / array element) holds a pointer to itself, plus a non-cyclic control, x 17 documents x 6 entry points: same result as encoding/json, which decodes into such an interface as if it was empty (a decoder that follows the pointer never returns)"},
			{Name: "number-literals", ShardDepth: 2, Body: numberLiterals, Doc: "every float64 exponent x 3 (thorough 6) mantissa patterns x both signs, written in ~30 ways (shortest, fixed / exponent / general form with 15..25 digits, float32-shortest, one more digit towards and over the rounding boundary, upper-case exponent) decoded into float64, float32, any and (two mantissas per exponent) pointer, slice, map, struct, integer and array targets x Unmarshal (thorough: also Parse, Decoder): same acceptance and same value as encoding/json"},
			{Name: "decimal-boundaries", ShardDepth: 2, Body: decimalBoundaries, Doc: "literals of exactly 14..20 significant digits from 14 digit strings around 2^53, 2^52, 2^64, 10^15, the largest and smallest floats x 5 last digits x every position of the decimal point x 6 exponents x 7 targets x 3 entry points: same value as encoding/json (a digit count at which an exact-arithmetic shortcut stops being exact)"},
			{Name: "unescape", Body: unescape, Doc: "Unescape / AppendUnescape on every string literal of the table"},
		},
		Rule: "every (type, document, prior state, entry point) within the deviation bound, plus complete mutation sets and token sequences; distinct non-trivial = distinct tuples / blocks",
		Assumptions: []string{
			"encoding/json of go1.23.5 is the specification: failure iff failure; on success reflect.DeepEqual of the targets (time.Time by instant and offset)",
			"error values and the partial content of a target after a failure are not compared; a history stops at the first failure",
			"cases on which encoding/json itself panics are skipped",
		},
	}
}

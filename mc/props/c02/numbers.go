package c02

import (
	"fmt"
	"math"
	"reflect"
	"strconv"
	"strings"

	"verif/mc/explore"
	"verif/mc/gen/jgen"
)

// ---- number literals: every way of writing a float, decoded into every numeric kind

type numHolder struct {
	F float64
	G float32
	A any
	L []float64
}

var numTargets = []reflect.Type{
	jgen.T[float64](), jgen.T[float32](), jgen.T[any](), jgen.T[*float64](), jgen.T[[]float64](), jgen.T[map[string]float64](), jgen.T[numHolder](),
	jgen.T[int64](), jgen.T[uint64](), jgen.T[int8](), jgen.T[[2]float32](),
}

// literalsOf returns the ways of writing f (and its neighbours in decimal) that differ in digit count and form.
func literalsOf(f float64) []string {
	var out []string
	for _, prec := range []int{-1, 15, 16, 17, 18, 25} {
		out = append(out, strconv.FormatFloat(f, 'f', prec, 64), strconv.FormatFloat(f, 'e', prec, 64), strconv.FormatFloat(f, 'g', prec, 64))
	}
	out = append(out, strconv.FormatFloat(f, 'f', -1, 32), strconv.FormatFloat(f, 'e', -1, 32))
	// the shortest form with one more digit that pushes it towards / over the rounding boundary
	s := strconv.FormatFloat(f, 'e', -1, 64)
	if i := strings.IndexByte(s, 'e'); i > 0 {
		for _, d := range []string{"0", "1", "4", "5", "50000000000000001", "49999999999999999", "9"} {
			out = append(out, s[:i]+d+s[i:])
		}
		out = append(out, strings.Replace(s, "e+", "E", 1), strings.Replace(s, "e", "E", 1))
	}
	var keep []string
	seen := map[string]bool{}
	for _, l := range out {
		if len(l) > 400 || seen[l] || strings.ContainsAny(l, "IN") { // Inf, NaN
			continue
		}
		seen[l] = true
		keep = append(keep, l)
	}
	return keep
}

func numberLiterals(c *explore.Ctx) {
	exp := c.Choose(2048)
	ne, mants := 1, []uint64{0, 0x5555555555555, 1<<52 - 1}
	if c.Thorough() {
		ne, mants = 3, []uint64{0, 1, 1<<52 - 1, 0x5555555555555, 0x8000000000001, 0x3333333333333}
	}
	e := entries[c.Choose(ne)] // Unmarshal; thorough: also Parse, Decoder
	var n int64
	for _, m := range mants {
		f := math.Float64frombits(uint64(exp)<<52 | m)
		if math.IsInf(f, 0) || math.IsNaN(f) {
			continue
		}
		for _, lit := range literalsOf(f) {
			for _, neg := range []string{"", "-"} {
				doc := neg + lit
				for ti, t := range numTargets {
					if ti >= 3 && m != 0 && m != 0x5555555555555 {
						continue // the wrapped and integer targets see two mantissas per exponent
					}
					d := doc
					switch t.Kind() {
					case reflect.Slice:
						d = "[" + doc + ", " + doc + "]"
					case reflect.Array:
						d = "[" + doc + "]"
					case reflect.Map:
						d = `{"k":` + doc + `}`
					case reflect.Struct:
						d = `{"F":` + doc + `,"G":` + doc + `,"A":` + doc + `,"L":[` + doc + `]}`
					}
					step(c, e, t, []byte(d), reflect.New(t), reflect.New(t), "number-literals:"+typeName(t), "number literal")
					n++
				}
			}
		}
	}
	c.Inner(n)
	c.Nontrivial(uint64(exp))
	c.Outcome("number-literals")
	if c.WantSample() {
		c.Case(map[string]any{"exponent": exp, "entry": e.name, "documents": n})
	}
}

// decimalBoundaries: literals of exactly 14..20 significant digits around the powers of two and ten where a
// two-step conversion (integer / power of ten) stops being exact.
func decimalBoundaries(c *explore.Ctx) {
	digits := 14 + c.Choose(7)
	pointAt := c.Choose(digits + 1) // number of digits before the decimal point
	e := entries[c.Choose(3)]
	var n int64
	heads := []string{"9007199254740993", "9007199254740995", "9007199254740992", "9999999999999999", "1000000000000000", "4503599627370497", "1844674407370955", "1797693134862315", "2225073858507201", "4940656458412465", "7205759403792794", "1234567890123456", "5000000000000000", "4999999999999999"}
	for _, h := range heads {
		ds := h
		for len(ds) < digits {
			ds += string(h[len(ds)%len(h)])
		}
		ds = ds[:digits]
		for _, last := range []string{"", "5", "9", "1", "0"} {
			body := ds
			if last != "" {
				body = ds[:len(ds)-1] + last
			}
			lit := body[:pointAt] + "." + body[pointAt:]
			if pointAt == 0 {
				lit = "0" + lit
			}
			if pointAt == len(body) {
				lit = body
			}
			for _, suffix := range []string{"", "e0", "e-5", "e5", "e300", "e-320"} {
				for _, t := range numTargets[:7] {
					d := lit + suffix
					switch t.Kind() {
					case reflect.Slice:
						d = "[" + d + "]"
					case reflect.Map:
						d = `{"k":` + d + `}`
					case reflect.Struct:
						d = `{"F":` + d + `,"G":` + d + `,"A":` + d + `,"L":[` + d + `]}`
					}
					step(c, e, t, []byte(d), reflect.New(t), reflect.New(t), "decimal-boundaries:"+typeName(t), fmt.Sprintf("%d digits", digits))
					n++
				}
			}
		}
	}
	c.Inner(n)
	c.Nontrivial(uint64(digits*100 + pointAt))
	c.Outcome("decimal-boundaries")
	if c.WantSample() {
		c.Case(map[string]any{"significant_digits": digits, "digits_before_point": pointAt, "entry": e.name, "documents": n})
	}
}

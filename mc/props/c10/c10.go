//go:build verifshim

// Package c10: json memory ownership - inputs untouched, results stable, aliasing opt-in (DESIGN.md §5 C10).
// Built with the sync shim overlay so that pools are deterministic LIFO lists: "the next Get returns the
// buffer just Put" is guaranteed rather than likely.
package c10

import (
	"bytes"
	"fmt"
	"io"
	"reflect"
	"runtime"
	"strings"
	"unsafe"

	"github.com/segmentio/encoding/json"
	"github.com/segmentio/encoding/verifshim/hook"
	"verif/mc/explore"
)

// ---- leaves of a decoded value

type leaf struct {
	path  string
	class string // string, number, raw, bytes, key
	ptr   uintptr
	n     int
	val   string // owned copy
}

var (
	numberType = reflect.TypeOf(json.Number(""))
	rawType    = reflect.TypeOf(json.RawMessage(nil))
)

func walk(v reflect.Value, path string, out *[]leaf) {
	switch v.Kind() {
	case reflect.Ptr, reflect.Interface:
		if !v.IsNil() {
			walk(v.Elem(), path, out)
		}
	case reflect.String:
		class := "string"
		if v.Type() == numberType {
			class = "number"
		}
		s := v.String()
		*out = append(*out, leaf{path, class, uintptr(unsafe.Pointer(unsafe.StringData(s))), len(s), strings.Clone(s)})
	case reflect.Slice:
		if v.Type().Elem().Kind() == reflect.Uint8 {
			class := "bytes"
			if v.Type() == rawType {
				class = "raw"
			}
			b := v.Bytes()
			var p uintptr
			if len(b) > 0 {
				p = uintptr(unsafe.Pointer(&b[0]))
			}
			*out = append(*out, leaf{path, class, p, len(b), string(b)})
			return
		}
		for i := 0; i < v.Len(); i++ {
			walk(v.Index(i), fmt.Sprintf("%s[%d]", path, i), out)
		}
	case reflect.Array:
		for i := 0; i < v.Len(); i++ {
			walk(v.Index(i), fmt.Sprintf("%s[%d]", path, i), out)
		}
	case reflect.Struct:
		for i := 0; i < v.NumField(); i++ {
			walk(v.Field(i), path+"."+v.Type().Field(i).Name, out)
		}
	case reflect.Map:
		keys := v.MapKeys()
		// deterministic order
		for i := 1; i < len(keys); i++ {
			for j := i; j > 0 && fmt.Sprint(keys[j]) < fmt.Sprint(keys[j-1]); j-- {
				keys[j], keys[j-1] = keys[j-1], keys[j]
			}
		}
		for _, k := range keys {
			if k.Kind() == reflect.String {
				s := k.String()
				*out = append(*out, leaf{path + "{key " + s + "}", "key", uintptr(unsafe.Pointer(unsafe.StringData(s))), len(s), strings.Clone(s)})
			}
			walk(v.MapIndex(k), path+"{"+fmt.Sprint(k)+"}", out)
		}
	}
}

func leavesOf(x any) []leaf {
	var out []leaf
	walk(reflect.ValueOf(x), "", &out)
	return out
}

func inside(l leaf, buf []byte) bool {
	if l.n == 0 || len(buf) == 0 {
		return false
	}
	base := uintptr(unsafe.Pointer(&buf[0]))
	return l.ptr >= base && l.ptr < base+uintptr(cap(buf))
}

// ---- targets and documents

const (
	key63 = "k23456789012345678901234567890123456789012345678901234567890123"
	key64 = key63 + "4"
	key65 = key64 + "5"
)

type target struct {
	S   string            `json:"s"`
	E   string            `json:"e"`
	U   string            `json:"u"`
	N   json.Number       `json:"n"`
	NS  json.Number       `json:"ns,string"`
	NQ  json.Number       `json:"nq"`
	NL  []json.Number     `json:"nl"`
	R   json.RawMessage   `json:"r"`
	B   []byte            `json:"b"`
	M   map[string]string `json:"m"`
	A   any               `json:"a"`
	Q   string            `json:"q,string"`
	Q2  string            `json:"q2,string"`
	Q3  *string           `json:"q3,string"`
	I   int               `json:"i,string"`
	L   []string          `json:"l"`
	K63 string            `json:"k23456789012345678901234567890123456789012345678901234567890123"`
	K64 string            `json:"k234567890123456789012345678901234567890123456789012345678901234"`
	K65 string            `json:"k2345678901234567890123456789012345678901234567890123456789012345"`
}

// documents: key spelling x string content class
func buildDoc(upperKeys bool, class int) string {
	str := []string{`"plain ascii value"`, `"esc\"aped\né value"`, `"non-ascii é😀 value"`, `""`}[class]
	k := func(s string) string {
		if upperKeys {
			return `"` + strings.ToUpper(s) + `"`
		}
		return `"` + s + `"`
	}
	return `{` + k("s") + `:` + str + `,` + k("e") + `:"a\tb",` + k("u") + `:"A😀",` + k("n") + `:123.5e1,` + k("ns") + `:"1234567890",` + k("nq") + `:"3.25",` + k("nl") + `:[1.5,"1e3",-7],` +
		k("r") + `: {"x": [1, "two"]} ,` + k("b") + `:"aGVsbG8gd29ybGQ=",` + k("m") + `:{"key1":` + str + `,"key2":"v2","":"e"},` +
		k("a") + `:{"ak":[` + str + `,12,{"deep":"dv"}]},` + k("q") + `:"\"quoted\"",` + k("q2") + `:"\"second quoted string\"",` + k("q3") + `:"\"third\"",` + k("i") + `:` + []string{`"42"`, `"007"`, `"-0012"`, `"0"`}[class] + `,` + k("l") + `:[` + str + `,"x"],` +
		k(key63) + `:"v63",` + k(key64) + `:"v64",` + k(key65) + `:"v65"}`
}

type targetKind struct {
	name string
	mk   func() any
	doc  func(upper bool, class int) string
}

var targetKinds = []targetKind{
	{"struct", func() any { return new(target) }, buildDoc},
	{"any", func() any { return new(any) }, buildDoc},
	{"map-raw", func() any { return new(map[string]json.RawMessage) }, buildDoc},
	{"map-any", func() any { return new(map[string]any) }, buildDoc},
	{"strings", func() any { return new([]string) }, func(_ bool, class int) string {
		return `[` + []string{`"plain ascii value"`, `"esc\"aped\n"`, `"non-ascii é"`, `""`}[class] + `, "second" ,"third"]`
	}},
	{"map-number", func() any { return new(map[string]json.Number) }, func(_ bool, class int) string {
		return `{"a":1,"b":-2.5e3,"q":"1234567890","c":` + []string{"0", "12345678901234567890", "1e-7", "-0"}[class] + `}`
	}},
	// maps that already hold members of the document, and documents that name a member twice: the member is
	// found in the map, and what the map keeps as its key must still not be a piece of the input
	{"map-any-preset", func() any {
		m := map[string]any{strings.Clone("s"): "old", strings.Clone("m"): 1.0, strings.Clone("zz"): nil}
		return &m
	}, buildDoc},
	{"map-raw-preset", func() any {
		m := map[string]json.RawMessage{strings.Clone("s"): json.RawMessage(`"old"`), strings.Clone("r"): nil}
		return &m
	}, buildDoc},
	{"map-string-dup", func() any { m := map[string]string{strings.Clone("first"): "old"}; return &m }, func(_ bool, class int) string {
		str := []string{`"plain ascii value"`, `"esc\"aped\n"`, `"non-ascii é"`, `""`}[class]
		return `{"first":` + str + `,"second":"x","second":` + str + `,"third key":"y","first":"again"}`
	}},
	{"map-bool-dup", func() any { m := map[string]bool{strings.Clone("first"): true}; return &m }, func(_ bool, class int) string {
		return `{"first":false,"second":true,"second":false,` + []string{`"plain key"`, `"esc\"aped"`, `"non-ascii é"`, `""`}[class] + `:true,"first":true}`
	}},
	{"map-strings-dup", func() any { m := map[string][]string{strings.Clone("first"): {"old"}}; return &m }, func(_ bool, class int) string {
		str := []string{`"plain ascii value"`, `"esc\"aped\n"`, `"non-ascii é"`, `""`}[class]
		return `{"first":[` + str + `],"second":["x"],"second":[` + str + `,"y"],"first":[]}`
	}},
	{"map-int-dup", func() any { m := map[string]int{strings.Clone("first"): 1}; return &m }, func(_ bool, class int) string {
		return `{"first":2,"second":3,"second":4,` + []string{`"plain key"`, `"esc\"aped"`, `"non-ascii é"`, `""`}[class] + `:5,"first":6}`
	}},
	{"map-number-dup", func() any { m := map[string]json.Number{strings.Clone("first"): "1"}; return &m }, func(_ bool, class int) string {
		return `{"first":2,"second":3.5,"second":4e2,"first":` + []string{"0", "12345678901234567890", "1e-7", "-0"}[class] + `}`
	}},
	{"array-raw", func() any { return new([2]json.RawMessage) }, func(_ bool, class int) string {
		return `[ {"a":` + []string{`"x"`, `"\n"`, `"é"`, `""`}[class] + `} , [1,2] ]`
	}},
}

// ---- other-call menu (the "post" operations)

type otherT struct {
	Name  string         `json:"name"`
	Count int            `json:"count"`
	Tags  map[string]any `json:"tags"`
}

var otherDoc = []byte(`{"name":"ZZZZZZZZZZZZZZZZZZZZZZZZZZZZZZZZZZZZZZZZ","count":99999,"tags":{"YYYYYYYY":"XXXXXXXXXXXXXXXXXXXXXXXX","W":[1,2,3]}}`)

var otherVal = otherT{Name: strings.Repeat("Q", 300), Count: 777777, Tags: map[string]any{"PPPPPPPP": strings.Repeat("O", 100), "N": []any{1.5, "MMMM"}}}

type post struct {
	name string
	run  func(h *history)
}

type history struct {
	in          []byte // the lent input buffer
	want        []byte // what it must contain
	overwritten bool
	dec         *json.Decoder
	sameVal     any
	earlier     []byte // the input of an earlier zero-copy call on an equal document (nothing of the later result may live there)
}

var posts = []post{
	{"overwrite-input", func(h *history) {
		for i := range h.in {
			h.in[i] = 0xAA
		}
		h.want = bytes.Repeat([]byte{0xAA}, len(h.in))
		h.overwritten = true
	}},
	{"overwrite-earlier-input", func(h *history) {
		for i := range h.earlier {
			h.earlier[i] = 0xBB
		}
	}},
	{"Marshal(failing map)", func(h *history) {
		json.Marshal(map[string]any{"b": 1, "a": make(chan int), "c": map[string]any{"d": 2}})
		json.Marshal(map[string]any{"z": map[string]any{"y": 1, "x": 2}, "w": 3})
	}},
	{"Marshal(other)", func(h *history) { json.Marshal(otherVal) }},
	{"Marshal(same)", func(h *history) {
		if h.sameVal != nil {
			json.Marshal(h.sameVal)
		} else {
			json.Marshal(map[string]string{"kkkkkkkkkkkkkkkkkkkkkkkk": "vvvvvvvvvvvvvvvvvvvvvvvvvvvvvvvvvvvvvv"})
		}
	}},
	{"Encoder.Encode(other)", func(h *history) { json.NewEncoder(io.Discard).Encode(otherVal) }},
	{"Unmarshal(other)", func(h *history) {
		var o otherT
		json.Unmarshal(append([]byte{}, otherDoc...), &o)
		var a any
		json.Unmarshal(append([]byte{}, otherDoc...), &a)
	}},
	{"Decoder.Decode(next)", func(h *history) {
		if h.dec != nil {
			var a any
			h.dec.Decode(&a)
		} else {
			var a any
			json.NewDecoder(bytes.NewReader(otherDoc)).Decode(&a)
		}
	}},
	{"Parse(other, ',string' fields)", func(h *history) {
		var o struct {
			A string `json:"a,string"`
			B string `json:"b,string"`
		}
		json.Parse([]byte(`{"a":"\"ZZZZZZZZZZZZZZZZZZZZZZZZZZZZZZZZZZZZ\"","b":"\"YYYYYYYYYYYYYYYYYYYY\""}`), &o, json.DontCopyString)
		json.Parse([]byte(`{"a":"\"XXXXXXXXXXXXXXXXXXXXXXXXXXXXXXXXXXXX\"","b":"\"WWWWWWWWWWWWWWWWWWWW\""}`), &o, 0)
	}},
	{"Tokenizer(other)", func(h *history) {
		t := json.NewTokenizer(append([]byte{}, otherDoc...))
		for t.Next() {
			if t.Kind().Class() == json.String {
				t.String()
			}
		}
	}},
	{"GC", func(h *history) { runtime.GC() }},
}

// choosePosts draws a sequence of post operations of length <= 2 (quick) / 3 (thorough).
func choosePosts(c *explore.Ctx, withGC bool) []post {
	maxLen := 2
	if c.Thorough() {
		maxLen = 3
	}
	return choosePostsN(c, withGC, maxLen)
}

func choosePostsN(c *explore.Ctx, withGC bool, maxLen int) []post {
	menu := posts
	if !withGC {
		menu = posts[:len(posts)-1]
	}
	var seq []post
	for len(seq) < maxLen {
		k := c.Choose(len(menu) + 1)
		if k == 0 {
			break
		}
		seq = append(seq, menu[k-1])
	}
	return seq
}

func postNames(seq []post) string {
	var s []string
	for _, p := range seq {
		s = append(s, p.name)
	}
	return strings.Join(s, ";")
}

func allowedAlias(class string, flags json.ParseFlags) bool {
	switch class {
	case "string", "key":
		return flags&json.DontCopyString != 0
	case "number":
		return flags&json.DontCopyNumber != 0
	case "raw":
		return flags&json.DontCopyRawMessage != 0
	}
	return false
}

// checkResult verifies the ownership rules for a decoded result over a post sequence.
func checkResult(c *explore.Ctx, site string, h *history, res any, flags json.ParseFlags, seq []post) {
	if !bytes.Equal(h.in, h.want) {
		c.Fail("input-modified:"+site, "%s modified its input: %q became %q", site, h.want, h.in)
		h.want = append([]byte{}, h.in...)
	}
	snap := leavesOf(res)
	aliased := map[string]bool{}
	var fragileKeys []string // prefixes of paths below a map key that legitimately aliases the input
	for _, l := range snap {
		if inside(l, h.earlier) {
			c.Fail("aliases-an-earlier-input:"+site+":"+l.class, "%s with flags %b: the %s at %s (%q) points into the input buffer of an EARLIER zero-copy call on an equal document", site, flags, l.class, l.path, l.val)
		}
		if inside(l, h.in) {
			aliased[l.path] = true
			if !allowedAlias(l.class, flags) {
				c.Fail("aliases-input:"+site+":"+l.class, "%s with flags %b: the %s at %s (%q) points into the input buffer although the corresponding zero-copy flag is not set", site, flags, l.class, l.path, l.val)
			} else if l.class == "key" {
				fragileKeys = append(fragileKeys, strings.TrimSuffix(l.path, "{key "+l.val+"}")+"{"+l.val+"}")
			}
		}
	}
	// fragile leaves may change once the caller overwrites the input: opted-in aliases, and everything
	// reached through a map key that is such an alias (the map can no longer be looked up)
	fragile := func(l leaf) bool {
		if aliased[l.path] && allowedAlias(l.class, flags) {
			return true
		}
		for _, p := range fragileKeys {
			if strings.HasPrefix(l.path, p) {
				return true
			}
		}
		return false
	}
	done := ""
	for _, p := range seq {
		p.run(h)
		done += p.name + ";"
		if !bytes.Equal(h.in, h.want) {
			c.Fail("input-modified-later:"+site+":after="+p.name, "after %s (%s) the input buffer lent to %s changed", p.name, done, site)
			h.want = append([]byte{}, h.in...)
		}
		now := map[string]string{}
		nowLeaves := leavesOf(res)
		for _, l := range nowLeaves {
			now[l.path] = l.val
		}
		if !h.overwritten && len(nowLeaves) != len(snap) {
			c.Fail("result-changed:"+site+":shape:after="+p.name, "%s: the result has %d leaves, had %d at return (after %s)", site, len(nowLeaves), len(snap), done)
			return
		}
		for i, l := range snap {
			if h.overwritten && fragile(l) {
				continue
			}
			if v, ok := now[l.path]; !ok || v != l.val {
				c.Fail("result-changed:"+site+":"+l.class+":after="+p.name, "%s with flags %b: the %s at %s was %q at return and is %q (present: %v) after %s", site, flags, l.class, l.path, l.val, v, ok, done)
				snap[i].val = v
			}
		}
	}
}

var flagSets = []json.ParseFlags{0, json.DontCopyString, json.DontCopyNumber, json.DontCopyRawMessage,
	json.DontCopyString | json.DontCopyNumber, json.DontCopyString | json.DontCopyRawMessage, json.DontCopyNumber | json.DontCopyRawMessage, json.ZeroCopy}

func parseFamily(c *explore.Ctx) {
	tk := targetKinds[c.Choose(len(targetKinds))]
	upper := c.Bool()
	class := c.Choose(4)
	fi := c.Choose(len(flagSets) + 1) // last = Unmarshal
	useNumber := c.Bool()
	seq := choosePosts(c, false)
	// an earlier call on an equal document in another buffer: none / Parse with ZeroCopy / with DontCopyString
	// (before a copying call only: what a zero-copy call may share is not specified further)
	pre := 0
	if fi == 0 || fi == len(flagSets) {
		pre = c.Choose(3)
	}
	hook.ResetAll()
	doc := tk.doc(upper, class)
	h := &history{in: []byte(doc), want: []byte(doc)}
	if pre > 0 {
		h.earlier = []byte(doc)
		json.Parse(h.earlier, tk.mk(), []json.ParseFlags{json.ZeroCopy, json.DontCopyString}[pre-1])
	}
	res := tk.mk()
	var flags json.ParseFlags
	site := "Unmarshal"
	var err error
	if fi < len(flagSets) {
		flags = flagSets[fi]
		site = "Parse"
		pf := flags
		if useNumber {
			pf |= json.UseNumber
		}
		_, err = json.Parse(h.in, res, pf)
	} else {
		err = json.Unmarshal(h.in, res)
	}
	if err != nil {
		c.Fail("decode-error:"+tk.name, "%s(%s) fails: %v", site, doc, err)
		return
	}
	checkResult(c, site+":"+tk.name, h, res, flags, seq)
	c.NontrivialStr(tk.name, doc, fmt.Sprint(flags, useNumber))
	c.Outcome(fmt.Sprintf("target=%s flags=%b", tk.name, flags))
	if c.WantSample() || c.Failed() {
		c.Case(map[string]any{"op": site, "target": tk.name, "doc": doc, "flags": uint32(flags), "use_number": useNumber, "posts": postNames(seq)})
	}
}

// chunkReader delivers data in the given chunk sizes.
type chunkReader struct {
	data   []byte
	chunks []int
	i      int
}

func (r *chunkReader) Read(p []byte) (int, error) {
	if len(r.data) == 0 {
		return 0, io.EOF
	}
	n := len(r.data)
	if r.i < len(r.chunks) && r.chunks[r.i] < n {
		n = r.chunks[r.i]
	}
	r.i++
	if n > len(p) {
		n = len(p)
	}
	copy(p, r.data[:n])
	r.data = r.data[n:]
	return n, nil
}

// Decoder: the k-th value stays intact while later values are decoded (tail compaction, buffer growth).
func decoderFamily(c *explore.Ctx) {
	tk := targetKinds[c.Choose(len(targetKinds))]
	class := c.Choose(4)
	layout := c.Choose(7) // how the stream is cut relative to the values / what kind of reader delivers it
	useNumber := c.Bool()
	seq := choosePosts(c, false)
	hook.ResetAll()
	doc := tk.doc(false, class)
	big := `"` + strings.Repeat("B", 40000) + `"`
	filler := `{"f":"` + strings.Repeat("F", 900) + `"}`
	var stream string
	var chunks []int
	switch layout {
	case 0: // value, then a second value cut in half: the tail is compacted over the first value
		stream = doc + "\n" + filler + "\n" + doc + "\n"
		chunks = []int{len(doc) + 1 + len(filler)/2, 1 << 20}
	case 1: // value followed by one larger than the buffer: the buffer is reallocated
		stream = doc + "\n" + big + "\n" + doc
		chunks = []int{len(doc) + 10, 1 << 20}
	case 2: // single-byte reads
		stream = doc + " " + doc + " " + filler
		chunks = nil
	case 3: // everything at once
		stream = doc + filler + doc + big
		chunks = []int{1 << 20}
	}
	h := &history{}
	if layout >= 4 {
		// readers of the standard library over the caller's own bytes: *bytes.Buffer, *bytes.Reader, and a Buffer
		// holding a stream that ends inside a value (the unconsumed tail is moved around by the Decoder)
		stream = doc + "\n" + filler + "\n" + doc + "\n1234567"
		if layout == 6 {
			stream = doc + "\n" + filler + "\n" + doc[:len(doc)/2]
		}
	}
	sdata := []byte(stream)
	var rd io.Reader = &chunkReader{data: sdata, chunks: chunks}
	switch layout {
	case 2:
		rd = iotestOneByte{&chunkReader{data: sdata, chunks: []int{1 << 20}}}
	case 4, 6:
		rd = bytes.NewBuffer(sdata)
		h.in, h.want = sdata, append([]byte{}, sdata...)
	case 5:
		rd = bytes.NewReader(sdata)
		h.in, h.want = sdata, append([]byte{}, sdata...)
	}
	dec := json.NewDecoder(rd)
	if useNumber {
		dec.UseNumber()
	}
	res := tk.mk()
	if err := dec.Decode(res); err != nil {
		c.Fail("decode-error:decoder:"+tk.name, "Decoder.Decode fails on %q: %v", doc, err)
		return
	}
	h.dec = dec
	// always decode the following values first, then the chosen posts
	full := append([]post{posts[7], posts[7]}, seq...)
	checkResult(c, "Decoder.Decode:"+tk.name, h, res, 0, full)
	c.NontrivialStr("decoder", tk.name, doc, fmt.Sprint(layout, useNumber))
	c.Outcome(fmt.Sprintf("target=%s layout=%d", tk.name, layout))
	if c.WantSample() || c.Failed() {
		c.Case(map[string]any{"op": "Decoder.Decode", "target": tk.name, "doc": doc, "layout": layout, "posts": postNames(full)})
	}
}

type iotestOneByte struct{ r io.Reader }

func (o iotestOneByte) Read(p []byte) (int, error) {
	if len(p) == 0 {
		return 0, nil
	}
	return o.r.Read(p[:1])
}

// Tokenizer: input untouched; unescaped strings (fresh slices) stay intact over later tokens and calls.
func tokenizerFamily(c *explore.Ctx) {
	tk := targetKinds[c.Choose(3)]
	class := c.Choose(4)
	seq := choosePosts(c, false)
	hook.ResetAll()
	doc := tk.doc(c.Bool(), class)
	h := &history{in: []byte(doc), want: []byte(doc)}
	type strTok struct {
		b     []byte
		copyv string
		fresh bool
	}
	var toks []strTok
	t := json.NewTokenizer(h.in)
	for t.Next() {
		if t.Kind().Class() == json.String {
			b := t.String()
			fresh := !inside(leaf{ptr: ptrOf(b), n: len(b)}, h.in)
			toks = append(toks, strTok{b, string(b), fresh})
		}
	}
	if t.Err != nil {
		c.Fail("tokenizer-error", "Tokenizer fails on %q: %v", doc, t.Err)
		return
	}
	check := func(after string) {
		if !bytes.Equal(h.in, h.want) {
			c.Fail("input-modified:Tokenizer:after="+after, "the Tokenizer's input changed (after %s)", after)
			h.want = append([]byte{}, h.in...)
		}
		for i, k := range toks {
			if string(k.b) != k.copyv && !(h.overwritten && !k.fresh) {
				c.Fail("result-changed:Tokenizer.String:after="+after, "string token %d was %q when returned and is %q after %s (fresh slice: %v)", i, k.copyv, k.b, after, k.fresh)
				toks[i].copyv = string(k.b)
			}
		}
	}
	check("tokenizing")
	done := ""
	for _, p := range seq {
		p.run(h)
		done += p.name + ";"
		check(p.name)
	}
	c.NontrivialStr("tokenizer", doc)
	c.Outcome(fmt.Sprintf("strings=%d", len(toks)))
	if c.WantSample() || c.Failed() {
		c.Case(map[string]any{"op": "Tokenizer", "doc": doc, "posts": postNames(seq)})
	}
}

func ptrOf(b []byte) uintptr {
	if len(b) == 0 {
		return 0
	}
	return uintptr(unsafe.Pointer(&b[0]))
}

// ---- encode side

type encT struct {
	Name    string            `json:"name"`
	Esc     string            `json:"esc\"key<>"`
	Num     json.Number       `json:"num"`
	Raw     json.RawMessage   `json:"raw"`
	Bytes   []byte            `json:"bytes"`
	M       map[string]string `json:"m"`
	A       any               `json:"a,omitempty"`
	Q       int               `json:"q,string"`
	Nested  *encT             `json:"nested,omitempty"`
	private int
}

type encEmbedded struct {
	encInner
	Z string `json:"z"`
}

type encInner struct {
	X int    `json:"x"`
	Y string `json:"y"`
}

var encValues = []struct {
	name string
	mk   func() any
}{
	{"struct", func() any {
		return encT{Name: "n", Esc: "<e>", Num: "12.5", Raw: json.RawMessage(`{"r":[1,2]}`), Bytes: []byte("hello"), M: map[string]string{"b": "2", "a": "1"}, A: []any{"x", 1.5}, Q: 7, Nested: &encT{Name: "inner"}}
	}},
	{"*struct", func() any { return &encT{Name: "p", M: map[string]string{"k": "v"}} }},
	{"embedded", func() any { return encEmbedded{encInner{1, "y"}, "z"} }},
	{"map-any", func() any { return map[string]any{"z": 1, "y": []any{"s", nil, map[string]any{"k": true}}, "x": "str"} }},
	{"map-int", func() any { return map[int]string{3: "c", 1: "a", 2: "b"} }},
	{"strings", func() any { return []string{"a", "b\n", "é"} }},
	{"raw", func() any { return json.RawMessage(`{"already":"json"}`) }},
	{"string", func() any { return strings.Repeat("s", 100) }},
	{"big string (larger than a fresh pooled buffer)", func() any { return strings.Repeat("B", 5000) }},
	{"big bytes", func() any { return struct{ D []byte }{bytes.Repeat([]byte{7}, 6000)} }},
	{"map-raw", func() any {
		return map[string]json.RawMessage{"b": json.RawMessage(`{"x":1}`), "a": json.RawMessage(`[1,2]`), "c": json.RawMessage(`"s"`)}
	}},
	{"map-raw in map-any", func() any {
		return map[string]any{"outer": map[string]json.RawMessage{"k": json.RawMessage("1")}, "m": map[string]any{"n": map[string]string{"s": "t"}}}
	}},
}

func encodeFamily(c *explore.Ctx) {
	ev := encValues[c.Choose(len(encValues))]
	op := c.Choose(6) // Marshal, Encoder, Append, MarshalIndent, Encoder with a re-entrant writer (plain / indented)
	seq := choosePosts(c, true)
	hook.ResetAll()
	prewarm := c.Bool()
	if prewarm {
		json.Marshal(otherVal) // a used buffer sits in the pool
	}
	h := &history{sameVal: ev.mk()}
	var get func() []byte
	var site string
	switch op {
	case 0:
		site = "Marshal"
		b, err := json.Marshal(ev.mk())
		if err != nil {
			c.Fail("encode-error", "Marshal(%s): %v", ev.name, err)
			return
		}
		get = func() []byte { return b }
	case 1:
		site = "Encoder.Encode"
		var buf bytes.Buffer
		enc := json.NewEncoder(&buf)
		if err := enc.Encode(ev.mk()); err != nil {
			c.Fail("encode-error", "Encode(%s): %v", ev.name, err)
			return
		}
		enc.Encode(ev.mk())
		get = func() []byte { return buf.Bytes() }
	case 2:
		site = "Append"
		dst := make([]byte, 3, 4096)
		copy(dst, "dst")
		b, err := json.Append(dst, ev.mk(), json.EscapeHTML|json.SortMapKeys)
		if err != nil {
			c.Fail("encode-error", "Append(%s): %v", ev.name, err)
			return
		}
		get = func() []byte { return b }
	case 4, 5:
		// a writer that itself uses the library before consuming the bytes it was handed (framing / logging writers)
		site = "Encoder.Encode(re-entrant writer)"
		w := &reentrantWriter{}
		enc := json.NewEncoder(w)
		if op == 5 {
			enc.SetIndent(">", " ")
		}
		if err := enc.Encode(ev.mk()); err != nil {
			c.Fail("encode-error", "Encode(%s): %v", ev.name, err)
			return
		}
		var plain bytes.Buffer
		penc := json.NewEncoder(&plain)
		if op == 5 {
			penc.SetIndent(">", " ")
		}
		penc.Encode(ev.mk())
		if w.buf.String() != plain.String() {
			c.Fail("bytes-handed-to-writer-changed-during-Write", "Encoder.Encode(%s): a writer that calls Marshal before copying receives %.120q, a plain writer receives %.120q", ev.name, w.buf.String(), plain.String())
		}
		get = func() []byte { return w.buf.Bytes() }
	case 3:
		site = "MarshalIndent"
		b, err := json.MarshalIndent(ev.mk(), ">", "  ")
		if err != nil {
			c.Fail("encode-error", "MarshalIndent(%s): %v", ev.name, err)
			return
		}
		get = func() []byte { return b }
	}
	at := string(get())
	done := ""
	for _, p := range seq {
		p.run(h)
		done += p.name + ";"
		if now := string(get()); now != at {
			c.Fail("result-changed:"+site+":after="+p.name, "the result of %s(%s) was %.120q at return and is %.120q after %s", site, ev.name, at, now, done)
			at = now
		}
	}
	for _, v := range hook.TakeViolations() {
		c.Fail(v[0]+":"+site, "%s during %s(%s) followed by %s", v[1], site, ev.name, done)
	}
	// the same call made again after other calls gives the same bytes (key fragments built once per type)
	if op == 0 {
		b2, err := json.Marshal(ev.mk())
		if err != nil || string(b2) != at {
			c.Fail("marshal-not-repeatable:after="+done, "Marshal(%s) gives %.120q, the same call gave %.120q before (%s)", ev.name, b2, at, done)
		}
	}
	c.NontrivialStr("encode", ev.name, fmt.Sprint(op, prewarm))
	c.Outcome(fmt.Sprintf("op=%s value=%s", site, ev.name))
	if c.WantSample() || c.Failed() {
		c.Case(map[string]any{"op": site, "value": ev.name, "prewarmed_pool": prewarm, "posts": postNames(seq)})
	}
}

// ---- memory lent to the encoder

// spare returns a copy of b in a buffer with room to spare, the room filled with 0x55.
func spare(b []byte, extra int) []byte {
	buf := bytes.Repeat([]byte{0x55}, len(b)+extra)
	copy(buf, b)
	return buf[:len(b)]
}

func bigRaw(n int) []byte {
	var b []byte
	b = append(b, `{"k":[`...)
	for len(b) < n {
		b = append(b, `"<elem>",`...)
	}
	return append(b, `0]}`...)
}

// cachedDoc / cachedText hand the encoder memory they keep (a cached document, a cached name).
type cachedDoc struct{ b []byte }

func (d *cachedDoc) MarshalJSON() ([]byte, error) { return d.b, nil }

type cachedText struct{ b []byte }

func (d *cachedText) MarshalText() ([]byte, error) { return d.b, nil }

var lentValues = []struct {
	name string
	mk   func() (any, [][]byte)
}{
	{"raw", func() (any, [][]byte) {
		r := spare([]byte(`{"a":[1,2,"<x>"]}`), 64)
		return json.RawMessage(r), [][]byte{r}
	}},
	{"raw larger than a fresh pooled buffer", func() (any, [][]byte) { r := spare(bigRaw(5000), 4096); return json.RawMessage(r), [][]byte{r} }},
	{"raw larger than a grown pooled buffer", func() (any, [][]byte) { r := spare(bigRaw(70000), 100); return json.RawMessage(r), [][]byte{r} }},
	{"*raw", func() (any, [][]byte) { r := json.RawMessage(spare(bigRaw(5000), 64)); return &r, [][]byte{r} }},
	{"raw in struct", func() (any, [][]byte) {
		r := spare(bigRaw(5000), 64)
		b := spare(bytes.Repeat([]byte{9}, 3000), 64)
		return struct {
			R json.RawMessage
			B []byte
		}{r, b}, [][]byte{r, b}
	}},
	{"raw only member of a struct", func() (any, [][]byte) {
		r := spare(bigRaw(5000), 64)
		return struct{ R json.RawMessage }{r}, [][]byte{r}
	}},
	{"map of raws", func() (any, [][]byte) {
		r1, r2 := spare(bigRaw(5000), 64), spare([]byte(`"<s>"`), 64)
		return map[string]json.RawMessage{"b": r1, "a": r2}, [][]byte{r1, r2}
	}},
	{"raws in []any", func() (any, [][]byte) {
		r1, r2 := spare(bigRaw(5000), 64), spare([]byte(`[ 1 , 2 ]`), 64)
		return []any{json.RawMessage(r1), json.RawMessage(r2)}, [][]byte{r1, r2}
	}},
	{"bytes", func() (any, [][]byte) { b := spare(bytes.Repeat([]byte{7}, 6000), 64); return b, [][]byte{b} }},
	{"Marshaler returning a document it keeps (with white space and HTML characters)", func() (any, [][]byte) {
		b := spare([]byte("{ \"a\" : [ 1 , 2 , \"<x> & y\" ] ,\n \"b\" : { } }"), 64)
		return &cachedDoc{b}, [][]byte{b}
	}},
	{"Marshalers returning documents they keep, in a struct, a slice and a map", func() (any, [][]byte) {
		b1, b2, b3 := spare([]byte("[ 1 , 2 ]"), 32), spare(append([]byte("  "), bigRaw(5000)...), 64), spare([]byte(" \"<s>\" "), 32)
		return struct {
			D *cachedDoc
			L []*cachedDoc
			M map[string]*cachedDoc
		}{&cachedDoc{b1}, []*cachedDoc{{b2}}, map[string]*cachedDoc{"k": {b3}}}, [][]byte{b1, b2, b3}
	}},
	{"TextMarshalers returning text they keep, as value and as map key", func() (any, [][]byte) {
		b1, b2 := spare([]byte("text <with> \"quotes\" & é"), 32), spare([]byte("key<1>"), 32)
		return struct {
			T *cachedText
			M map[*cachedText]int
		}{&cachedText{b1}, map[*cachedText]int{{b2}: 1}}, [][]byte{b1, b2}
	}},
	{"number and strings", func() (any, [][]byte) {
		return struct {
			N json.Number
			S string
		}{"12.5e3", strings.Repeat("<s>", 2000)}, nil
	}},
}

var lentPosts = []string{"Marshal(other)", "Marshal(failing map)", "Encoder.Encode(other)", "Unmarshal(other)", "GC"}

func postByName(name string) post {
	for _, p := range posts {
		if p.name == name {
			return p
		}
	}
	panic("no post " + name)
}

// ---- the same variable decoded into again: what an earlier decode handed out stays as it was

type sameVarT struct {
	R json.RawMessage
	B []byte
	S string
	L []json.RawMessage
	M map[string]json.RawMessage
}

func collectBytes(v reflect.Value, out *[][]byte) {
	switch v.Kind() {
	case reflect.Ptr, reflect.Interface:
		if !v.IsNil() {
			collectBytes(v.Elem(), out)
		}
	case reflect.Slice:
		if v.Type().Elem().Kind() == reflect.Uint8 {
			if v.Len() > 0 {
				*out = append(*out, v.Bytes())
			}
			return
		}
		for i := 0; i < v.Len(); i++ {
			collectBytes(v.Index(i), out)
		}
	case reflect.Struct:
		for i := 0; i < v.NumField(); i++ {
			collectBytes(v.Field(i), out)
		}
	case reflect.Map:
		it := v.MapRange()
		for it.Next() {
			collectBytes(it.Value(), out)
		}
	}
}

func sameVariable(c *explore.Ctx) {
	kind := c.Choose(5)
	entry := c.Choose(3) // Decoder.Decode on one stream, Unmarshal, Parse
	order := c.Choose(3)
	hook.ResetAll()
	mk := func(long bool) string {
		raw, b64, str := `{"k":[1,2,3,"four"]}`, `"aGVsbG8gd29ybGQhIQ=="`, `"a string value"`
		if !long {
			raw, b64, str = `[7]`, `"aGk="`, `"s"`
		}
		switch kind {
		case 0:
			return raw
		case 1:
			return b64
		case 2:
			return `{"R":` + raw + `,"B":` + b64 + `,"S":` + str + `,"L":[` + raw + `,` + raw + `],"M":{"k":` + raw + `}}`
		case 3:
			return `{"a":` + raw + `,"b":` + raw + `}`
		default:
			return `[` + raw + `,` + raw + `]`
		}
	}
	var x any
	switch kind {
	case 0:
		x = new(json.RawMessage)
	case 1:
		x = new([]byte)
	case 2:
		x = new(sameVarT)
	case 3:
		x = new(map[string]json.RawMessage)
	default:
		x = new([]json.RawMessage)
	}
	seqs := [][]bool{{true, false, true}, {true, true, false}, {false, true, false}}
	docs := []string{}
	for _, l := range seqs[order] {
		docs = append(docs, mk(l))
	}
	dec := json.NewDecoder(strings.NewReader(strings.Join(docs, "\n")))
	var handed [][]byte // what earlier decodes handed out (the slices themselves)
	var saved [][]byte  // and what they held then
	for i, d := range docs {
		var err error
		switch entry {
		case 0:
			err = dec.Decode(x)
		case 1:
			err = json.Unmarshal([]byte(d), x)
		case 2:
			_, err = json.Parse([]byte(d), x, 0)
		}
		if err != nil {
			c.Fail("same-variable:decode-error", "decode %d of %s into the same variable fails: %v", i+1, d, err)
			return
		}
		for k := range handed {
			if !bytes.Equal(handed[k], saved[k]) {
				c.Fail("same-variable:earlier-result-overwritten", "after decoding %s into the same variable (%s %d), bytes handed out by an earlier decode changed from %.40q to %.40q", d, []string{"Decoder.Decode", "Unmarshal", "Parse"}[entry], i+1, saved[k], handed[k])
				return
			}
		}
		var now [][]byte
		collectBytes(reflect.ValueOf(x), &now)
		for _, b := range now {
			handed = append(handed, b)
			saved = append(saved, append([]byte{}, b...))
		}
	}
	c.NontrivialStr("samevar", fmt.Sprint(kind, entry, order))
	c.Outcome(fmt.Sprintf("kind=%d", kind))
	if c.WantSample() || c.Failed() {
		c.Case(map[string]any{"target_kind": kind, "entry": entry, "documents": docs})
	}
}

func lentFamily(c *explore.Ctx) {
	lv := lentValues[c.Choose(len(lentValues))]
	op := c.Choose(4) // Marshal, Append, Encoder, Encoder with a re-entrant writer
	fl := json.AppendFlags(c.Choose(8))
	dstKind := 0
	if op == 1 {
		dstKind = c.Choose(3)
	}
	var seq []post // up to two later calls from the encoding half of the menu
	for len(seq) < 2 {
		k := c.Choose(len(lentPosts) + 1)
		if k == 0 {
			break
		}
		seq = append(seq, postByName(lentPosts[k-1]))
	}
	// the caller overwrites what it lent before post number i (len+1: never); quick tier: at once, or never
	overwriteAt := 0
	if c.Thorough() {
		overwriteAt = c.Choose(len(seq) + 2)
	} else if c.Choose(2) == 1 {
		overwriteAt = len(seq) + 1
	}
	hook.ResetAll()
	if c.Bool() {
		json.Marshal(otherVal) // a used buffer sits in the pool
	}
	val, lent := lv.mk()
	snap := make([][]byte, len(lent))
	for i, l := range lent {
		snap[i] = append([]byte{}, l[:cap(l)]...)
	}
	h := &history{}
	var get func() []byte
	site := ""
	var err error
	switch op {
	case 0:
		if fl != json.EscapeHTML|json.SortMapKeys {
			return
		}
		site = "Marshal"
		var b []byte
		b, err = json.Marshal(val)
		get = func() []byte { return b }
	case 1:
		site = fmt.Sprintf("Append(flags=%03b,dst=%s)", fl, []string{"nil", "small", "large"}[dstKind])
		var dst []byte
		switch dstKind {
		case 1:
			dst = make([]byte, 0, 16)
		case 2:
			dst = make([]byte, 2, 1<<17)
		}
		var b []byte
		b, err = json.Append(dst, val, fl)
		get = func() []byte { return b }
	case 2, 3:
		site = fmt.Sprintf("Encoder(flags=%03b)", fl)
		var buf bytes.Buffer
		var w io.Writer = &buf
		rw := &reentrantWriter{}
		if op == 3 {
			site += "(re-entrant writer)"
			w = rw
		}
		enc := json.NewEncoder(w)
		enc.SetEscapeHTML(fl&json.EscapeHTML != 0)
		enc.SetSortMapKeys(fl&json.SortMapKeys != 0)
		enc.SetTrustRawMessage(fl&json.TrustRawMessage != 0)
		err = enc.Encode(val)
		if err == nil {
			err = enc.Encode(val)
		}
		get = func() []byte {
			if op == 3 {
				return rw.buf.Bytes()
			}
			return buf.Bytes()
		}
	}
	if err != nil {
		c.Fail("encode-error:"+lv.name, "%s(%s): %v", site, lv.name, err)
		return
	}
	checkLent := func(when string) {
		for i, l := range lent {
			if now := l[:cap(l)]; !bytes.Equal(now, snap[i]) {
				d := 0
				for d < len(now) && now[d] == snap[i][d] {
					d++
				}
				what := "contents"
				if d >= len(l) {
					what = "spare capacity"
				}
				c.Fail("lent-memory-written:"+what+":"+when, "%s(%s): the %s of the %d-byte value lent to the call differ at offset %d %s (%.40q, was %.40q)", site, lv.name, what, len(l), d, when, now[d:], snap[i][d:])
				copy(snap[i], now)
			}
		}
	}
	checkLent("at return")
	at := string(get())
	done := ""
	for i := 0; i <= len(seq); i++ {
		if i == overwriteAt {
			for k, l := range lent {
				for j := range l[:cap(l)] {
					l[:cap(l)][j] = 0xAA
				}
				copy(snap[k], l[:cap(l)])
			}
			done += "caller overwrites what it lent;"
			if now := string(get()); now != at {
				c.Fail("result-shares-lent-memory", "the result of %s(%s) was %.80q at return and is %.80q once the caller has overwritten the value it passed in", site, lv.name, at, now)
				at = now
			}
		}
		if i == len(seq) {
			break
		}
		seq[i].run(h)
		done += seq[i].name + ";"
		checkLent("after " + seq[i].name)
		if now := string(get()); now != at {
			c.Fail("result-changed:lent:after="+seq[i].name, "the result of %s(%s) was %.80q at return and is %.80q after %s", site, lv.name, at, now, done)
			at = now
		}
	}
	for _, v := range hook.TakeViolations() {
		c.Fail(v[0]+":"+site, "%s during %s(%s) followed by %s", v[1], site, lv.name, done)
	}
	c.NontrivialStr("lent", lv.name, site)
	c.Outcome(fmt.Sprintf("op=%d value=%s", op, lv.name))
	if c.WantSample() || c.Failed() {
		c.Case(map[string]any{"op": site, "value": lv.name, "posts": postNames(seq), "caller_overwrites_before_post": overwriteAt})
	}
}

type reentrantWriter struct{ buf bytes.Buffer }

func (w *reentrantWriter) Write(p []byte) (int, error) {
	json.Marshal(otherVal)
	json.NewEncoder(io.Discard).Encode(otherVal)
	return w.buf.Write(p)
}

// Spec returns the C10 check.
func Spec() *explore.Spec {
	return &explore.Spec{
		ID: "C10",
		Families: []*explore.Family{
			{Name: "parse", ShardDepth: 3, Body: parseFamily, Doc: "Parse/Unmarshal of 14 target kinds (incl. maps that already hold members of the document, and documents naming a member twice) x documents (4 string classes, exact / upper-case keys incl. 63/64/65-byte keys) x all 8 subsets of the DontCopy flags (+Unmarshal) x UseNumber x every sequence of <= 2 (thorough 3) later calls from a menu of 10 (overwrite the input, overwrite the input of an earlier zero-copy Parse of an equal document, a failing Marshal of a map followed by a nested one, Marshal, Encoder, Unmarshal, Parse with ',string' fields, Decoder, Tokenizer on other data)"},
			{Name: "decoder", ShardDepth: 3, Body: decoderFamily, Doc: "Decoder.Decode of the first value of a stream delivered so that the tail is compacted over it / the buffer is reallocated / bytes arrive one at a time / all at once / from a *bytes.Buffer or *bytes.Reader over the caller's own bytes (which must stay as they are, also when the stream ends inside a value), followed by the next two Decode calls and every sequence of later calls"},
			{Name: "tokenizer", ShardDepth: 2, Body: tokenizerFamily, Doc: "Tokenizer.String results (slices of the input, or fresh slices for escaped strings) x every sequence of later calls"},
			{Name: "encode", ShardDepth: 2, Body: encodeFamily, Doc: "Marshal / Encoder.Encode (plain writer; writer that calls the library before consuming its argument, with and without SetIndent) / Append / MarshalIndent of 12 value kinds (incl. outputs larger than a fresh pooled buffer and sorted map[string]RawMessage), with and without a used buffer in the pool, x every sequence of <= 2 (3) later calls incl. GC; Marshal repeated at the end gives the same bytes"},
			{Name: "same-variable", ShardDepth: 2, Body: sameVariable, Doc: "three documents (long / short values in 3 orders) decoded one after the other into the same variable of 5 kinds (RawMessage, []byte, a struct with RawMessage / []byte / string / list / map members, map[string]RawMessage, []RawMessage) through Decoder.Decode, Unmarshal and Parse: the byte slices an earlier decode handed out keep their contents"},
			{Name: "lent-values", ShardDepth: 3, Body: lentFamily, Doc: "memory lent to the encoder: 13 values holding RawMessages / byte slices / Marshalers and TextMarshalers that return memory they keep (small, larger than a fresh pooled buffer, larger than a grown one; top-level, behind a pointer, in structs, maps and []any), each with spare capacity behind it x {Marshal, Append x 8 flag subsets x 3 destinations, Encoder x 8 setter combinations x {plain, re-entrant writer}} x every sequence of <= 2 later calls x the moment at which the caller overwrites what it lent (quick: at once or never; thorough: before any of the later calls, or never): neither the contents nor the spare capacity of a lent value is ever written, and the result does not change when the caller overwrites it"},
		},
		Rule: "every history op;post* within the bounds; distinct non-trivial = distinct (operation, document/value, flags)",
		Assumptions: []string{
			"pools are deterministic LIFO lists (sync shim via go build -overlay): the next Get returns the buffer just Put",
			"the cross-goroutine clause (results stable while other goroutines call the library) is decided by C09's end-of-execution re-check",
			"with zero-copy flags on a Decoder the results may alias the Decoder's read buffer, whose lifetime is not specified by the property: Decoder histories run without zero-copy flags",
		},
	}
}

package c03

import (
	"fmt"
	"reflect"

	"github.com/segmentio/encoding/proto"
	"verif/mc/explore"
)

// ---- message structs larger than 64 KiB / with very many fields: field offsets and indexes beyond the
// ranges the small types of the other families reach

type bigTail struct {
	B int32
	C string
	D []int32
	M map[string]int32
	P *int64
	N *bigInner
	F float64
	G [4]byte
}

type bigInner struct {
	X int32
	S string
}

func bigTailValue(k int) bigTail {
	p := int64(1<<40 + k)
	return bigTail{B: int32(7 + k), C: "after the pad", D: []int32{1, -2, 3}, M: map[string]int32{"k": 9}, P: &p, N: &bigInner{X: 5, S: "in"}, F: 1.5, G: [4]byte{1, 2, 3, 4}}
}

// largeStructs: struct{A int32; Pad [n]byte; tail...} for pad sizes around 2^16 and 2^17, the pad empty or
// holding a byte at its end, alone / nested by value / behind a pointer / as slice element.
func largeStructs(c *explore.Ctx) {
	pads := []int{65523, 65524, 65528, 65531, 65532, 65533, 65536, 65540, 70000, 131068, 131072, 200000}
	pad := pads[c.Choose(len(pads))]
	form := c.Choose(4)
	padSet := c.Choose(2) == 1
	tailT := reflect.TypeOf(bigTail{})
	fields := []reflect.StructField{{Name: "A", Type: reflect.TypeOf(int32(0))}, {Name: "Pad", Type: reflect.ArrayOf(pad, reflect.TypeOf(byte(0)))}}
	for i := 0; i < tailT.NumField(); i++ {
		f := tailT.Field(i)
		fields = append(fields, reflect.StructField{Name: f.Name, Type: f.Type})
	}
	st := reflect.StructOf(fields)
	mk := func(k int) reflect.Value {
		v := reflect.New(st).Elem()
		v.Field(0).SetInt(int64(3 + k))
		if padSet {
			v.Field(1).Index(pad - 1).SetUint(0x5a)
			v.Field(1).Index(0).SetUint(0x01)
		}
		tv := reflect.ValueOf(bigTailValue(k))
		for i := 0; i < tailT.NumField(); i++ {
			v.Field(2 + i).Set(tv.Field(i))
		}
		return v
	}
	var val reflect.Value // pointer to the value to marshal
	formName := []string{"top level", "nested by value after another field", "behind a pointer field", "as elements of a repeated field"}[form]
	switch form {
	case 0:
		val = reflect.New(st)
		val.Elem().Set(mk(0))
	case 1:
		ot := reflect.StructOf([]reflect.StructField{{Name: "Z", Type: reflect.TypeOf("")}, {Name: "In", Type: st}, {Name: "Y", Type: reflect.TypeOf(int64(0))}})
		val = reflect.New(ot)
		val.Elem().Field(0).SetString("z")
		val.Elem().Field(1).Set(mk(1))
		val.Elem().Field(2).SetInt(-4)
	case 2:
		ot := reflect.StructOf([]reflect.StructField{{Name: "In", Type: reflect.PointerTo(st)}, {Name: "Y", Type: reflect.TypeOf(int64(0))}})
		val = reflect.New(ot)
		p := reflect.New(st)
		p.Elem().Set(mk(2))
		val.Elem().Field(0).Set(p)
		val.Elem().Field(1).SetInt(11)
	case 3:
		ot := reflect.StructOf([]reflect.StructField{{Name: "L", Type: reflect.SliceOf(st)}})
		val = reflect.New(ot)
		l := reflect.MakeSlice(reflect.SliceOf(st), 2, 2)
		l.Index(0).Set(mk(3))
		l.Index(1).Set(mk(4))
		val.Elem().Field(0).Set(l)
	}
	name := fmt.Sprintf("struct{A int32; Pad [%d]byte; B int32; C string; D []int32; M map[string]int32; P *int64; N *Inner; F float64; G [4]byte} %s, pad %s", pad, formName, map[bool]string{false: "zero", true: "set at both ends"}[padSet])
	fresh := reflect.New(val.Type().Elem())
	var b []byte
	var merr, uerr error
	size := -1
	if pv, ps := explore.Catch(func() {
		size = proto.Size(val.Interface())
		b, merr = proto.Marshal(val.Interface())
		if merr == nil {
			uerr = proto.Unmarshal(b, fresh.Interface())
		}
	}); pv != nil {
		c.Fail("large:panic:"+ps+":"+explore.PanicClass(pv), "%s panics: %v", name, pv)
		return
	}
	switch {
	case merr != nil:
		c.Fail("large:Marshal-error", "Marshal fails for %s: %v", name, merr)
	case size != len(b):
		c.Fail("large:Size", "Size %d, len(Marshal) %d for %s", size, len(b), name)
	case uerr != nil:
		c.Fail("large:Unmarshal-error", "Unmarshal(Marshal(v)) fails for %s: %v", name, uerr)
	case !reflect.DeepEqual(normalize(fresh).Interface(), normalize(val).Interface()):
		c.Fail("large:value-differs", "Unmarshal(Marshal(v)) != v for %s (%d bytes)", name, len(b))
	}
	c.NontrivialStr("large", name)
	c.Outcome(fmt.Sprintf("form=%d", form))
	if c.WantSample() || c.Failed() {
		c.Case(map[string]any{"type": name, "encoded_bytes": len(b)})
	}
}

// manyFields: structs with 60..300 fields (field indexes and presence bitmaps beyond one or two machine
// words), sparse values: every field alone, the last ones together.
func manyFields(c *explore.Ctx) {
	counts := []int{63, 64, 65, 127, 128, 129, 255, 256, 257, 300}
	n := counts[c.Choose(len(counts))]
	kind := c.Choose(3)
	var ft reflect.Type
	switch kind {
	case 0:
		ft = reflect.TypeOf(int32(0))
	case 1:
		ft = reflect.TypeOf("")
	case 2:
		ft = reflect.TypeOf([]int64(nil))
	}
	var fields []reflect.StructField
	for i := 0; i < n; i++ {
		fields = append(fields, reflect.StructField{Name: fmt.Sprintf("F%d", i), Type: ft})
	}
	st := reflect.StructOf(fields)
	set := func(v reflect.Value, i int) {
		switch kind {
		case 0:
			v.Field(i).SetInt(int64(i + 1))
		case 1:
			v.Field(i).SetString(fmt.Sprintf("s%d", i))
		case 2:
			v.Field(i).Set(reflect.ValueOf([]int64{int64(i), -1}))
		}
	}
	name := fmt.Sprintf("struct of %d %s fields", n, ft)
	try := func(which string, idx ...int) {
		val, fresh := reflect.New(st), reflect.New(st)
		for _, i := range idx {
			set(val.Elem(), i)
		}
		var b []byte
		var merr, uerr error
		size := -1
		if pv, ps := explore.Catch(func() {
			size = proto.Size(val.Interface())
			b, merr = proto.Marshal(val.Interface())
			if merr == nil {
				uerr = proto.Unmarshal(b, fresh.Interface())
			}
		}); pv != nil {
			c.Fail("many-fields:panic:"+ps+":"+explore.PanicClass(pv), "%s, %s: panics: %v", name, which, pv)
			return
		}
		switch {
		case merr != nil:
			c.Fail("many-fields:Marshal-error", "Marshal fails for %s, %s: %v", name, which, merr)
		case size != len(b):
			c.Fail("many-fields:Size", "Size %d, len(Marshal) %d for %s, %s", size, len(b), name, which)
		case uerr != nil:
			c.Fail("many-fields:Unmarshal-error", "Unmarshal(Marshal(v)) fails for %s, %s: %v (bytes % x)", name, which, uerr, trunc(b))
		case !reflect.DeepEqual(normalize(fresh).Interface(), normalize(val).Interface()):
			c.Fail("many-fields:value-differs", "Unmarshal(Marshal(v)) != v for %s, %s (bytes % x)", name, which, trunc(b))
		}
	}
	for i := 0; i < n; i++ {
		try(fmt.Sprintf("field %d alone", i), i)
	}
	all := make([]int, n)
	for i := range all {
		all[i] = i
	}
	try("all fields", all...)
	try("the last three", n-3, n-2, n-1)
	try("first and last", 0, n-1)
	c.Inner(int64(n + 3))
	c.NontrivialStr("many", name)
	c.Outcome(fmt.Sprintf("kind=%d", kind))
	if c.WantSample() || c.Failed() {
		c.Case(map[string]any{"type": name, "values": n + 3})
	}
}

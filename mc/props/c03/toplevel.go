package c03

import (
	"bytes"
	"fmt"
	"reflect"

	"github.com/segmentio/encoding/proto"
	"verif/mc/explore"
	"verif/mc/gen/pgen"
)

// ---- top-level values that implement Message or the custom interface themselves: the encoding is what the value's
// own methods produce, whether the value is passed by value or by pointer, whatever its shape in an interface

func toplevelMessages(c *explore.Ctx) {
	data := [][]byte{{8, 1}, {}, make([]byte, 127), make([]byte, 128), {0x12, 3, 'a', 'b', 'c'}}[c.Choose(5)]
	k := c.Choose(7)
	byPtr := c.Bool()
	var val any
	var name string
	pl := &pgen.LeafPayload{Next: &pgen.LeafPayload{Data: []byte("not this one")}, Data: data}
	switch k {
	case 0:
		val, name = pgen.LeafMsg{Data: data}, "LeafMsg"
	case 1:
		val, name = pgen.LeafCustom{Data: data}, "LeafCustom"
	case 2:
		val, name = proto.RawMessage(data), "RawMessage"
	case 3:
		val, name = pgen.LeafBox{P: pl}, "LeafBox (a Message that is a single pointer)"
	case 4:
		val, name = pgen.LeafBoxCustom{P: pl}, "LeafBoxCustom (a custom message that is a single pointer)"
	case 5:
		val, name = struct{ B pgen.LeafBox }{pgen.LeafBox{P: pl}}, "struct whose only field is a LeafBox"
	case 6:
		val, name = struct {
			A int32
			B pgen.LeafBoxCustom
		}{7, pgen.LeafBoxCustom{P: pl}}, "struct with an int32 and a LeafBoxCustom"
	}
	want := data
	switch k {
	case 5:
		want = nil
		if len(data) > 0 {
			want = append(append([]byte{0x0a}, lenPrefix(len(data))...), data...)
		}
	case 6:
		want = []byte{0x08, 7}
		if len(data) > 0 {
			want = append(append(append(want, 0x12), lenPrefix(len(data))...), data...)
		}
	}
	if byPtr {
		p := reflect.New(reflect.TypeOf(val))
		p.Elem().Set(reflect.ValueOf(val))
		val = p.Interface()
		name = "pointer to " + name
	}
	var got []byte
	var err error
	var size int
	if pv, ps := explore.Catch(func() { size = proto.Size(val); got, err = proto.Marshal(val) }); pv != nil {
		c.Fail("toplevel-message:panic:"+ps, "Marshal of a %s with %d bytes panics: %v", name, len(data), pv)
	} else if err != nil {
		c.Fail("toplevel-message:error", "Marshal of a %s with %d bytes fails: %v", name, len(data), err)
	} else if k >= 5 && len(data) == 0 {
		// whether an empty message field is written as present-and-empty is the roundtrip family's subject
	} else if !bytes.Equal(got, want) || size != len(want) {
		c.Fail("toplevel-message:bytes-differ", "Marshal of a %s gives % x (Size %d), want % x", name, trunc(got), size, trunc(want))
	}
	c.NontrivialStr("toplevel-message", name, fmt.Sprint(len(data)))
	c.Outcome(fmt.Sprintf("byPtr=%v", byPtr))
	c.Case(map[string]any{"value": name, "payload": len(data), "bytes": fmt.Sprintf("%x", trunc(got))})
}

func lenPrefix(n int) []byte {
	var b []byte
	for n >= 0x80 {
		b = append(b, byte(n)|0x80)
		n >>= 7
	}
	return append(b, byte(n))
}

// Package c03: proto Unmarshal(Marshal(v)) == v and Size(v) == len(Marshal(v)) (DESIGN.md §5 C03).
package c03

import (
	"bytes"
	"fmt"
	"math"
	"reflect"
	"strings"

	"github.com/segmentio/encoding/proto"
	"verif/mc/explore"
	"verif/mc/gen/pgen"
)

// Failure is one way a value failed the round-trip obligations.
type Failure struct{ Kind, Msg string }

// Probe runs the C03 obligations on one value without reporting.
func Probe(m *pgen.Msg, v reflect.Value) (fails []Failure, encoded []byte) {
	ptr := v.Addr().Interface()
	add := func(kind, format string, args ...any) {
		fails = append(fails, Failure{kind, fmt.Sprintf(format, args...)})
	}
	var b []byte
	var err error
	if pv, ps := explore.Catch(func() { b, err = proto.Marshal(ptr) }); pv != nil {
		add("Marshal:panic:"+ps+":"+explore.PanicClass(pv), "Marshal panicked: %v", pv)
		return
	}
	if err != nil {
		if !m.HasLeaf() {
			add("Marshal:error", "Marshal failed: %v", err)
		}
		return
	}
	var size int
	if pv, ps := explore.Catch(func() { size = proto.Size(ptr) }); pv != nil {
		add("Size:panic:"+ps+":"+explore.PanicClass(pv), "Size panicked: %v", pv)
		return fails, b
	}
	if size != len(b) {
		add("Size!=len(Marshal)", "Size=%d but Marshal returned %d bytes (% x)", size, len(b), trunc(b))
	}
	if !m.HasMap() {
		b2, err2 := proto.Marshal(ptr)
		if err2 != nil || !bytes.Equal(b, b2) {
			add("Marshal:nondeterministic", "two Marshal calls differ for a map-free value")
		}
	}
	decode := func(tag string, b []byte) {
		out := reflect.New(m.Type)
		if pv, ps := explore.Catch(func() { err = proto.Unmarshal(b, out.Interface()) }); pv != nil {
			add("Unmarshal"+tag+":panic:"+ps+":"+explore.PanicClass(pv), "Unmarshal(Marshal(v)) panicked: %v (bytes % x)", pv, trunc(b))
			return
		}
		if err != nil {
			add("Unmarshal"+tag+":error", "Unmarshal(Marshal(v)) failed: %v (bytes % x)", err, trunc(b))
			return
		}
		for _, d := range pgen.Diffs(v, out.Elem()) {
			kind := "roundtrip" + tag + ":value-differs"
			if d.NilLost && d.Want.Elem().Kind() == reflect.Struct && pgen.ContentFree(d.Want.Elem()) {
				// one phenomenon, one signature: presence of a message that has nothing to encode
				kind = "roundtrip" + tag + ":non-nil-pointer-to-content-free-message-decodes-as-nil"
			}
			add(kind, "Unmarshal(Marshal(v)) != v at %s: %s (bytes % x; got %s)", d.Path, d.Why, trunc(b), pgen.Describe(out.Elem()))
		}
	}
	decode("", b)
	// by value: the interface word is a pointer to a copy, or the value itself for pointer-shaped structs
	var bv []byte
	if pv, ps := explore.Catch(func() { bv, err = proto.Marshal(v.Interface()) }); pv != nil {
		add("Marshal(by value):panic:"+ps+":"+explore.PanicClass(pv), "Marshal(by value) panicked: %v", pv)
	} else if err != nil {
		if !m.HasLeaf() {
			add("Marshal(by value):error", "Marshal(by value) failed: %v", err)
		}
	} else {
		var sv int
		if pv, ps := explore.Catch(func() { sv = proto.Size(v.Interface()) }); pv != nil {
			add("Size(by value):panic:"+ps+":"+explore.PanicClass(pv), "Size(by value) panicked: %v", pv)
		} else if sv != len(bv) {
			add("Size!=len(Marshal)(by value)", "Size=%d but Marshal returned %d bytes (% x)", sv, len(bv), trunc(bv))
		}
		decode("(by value)", bv)
	}
	return fails, b
}

// localise finds a single field that alone reproduces the failure kind.
func localise(m *pgen.Msg, v reflect.Value, kind string) string {
	if len(m.Fields) > 1 {
		for i := range m.Fields {
			if m.Fields[i].Skip {
				continue
			}
			sub := (&pgen.Msg{Fields: []pgen.Field{m.Fields[i]}}).Build()
			sv := reflect.New(sub.Type).Elem()
			sv.Field(0).Set(v.Field(i))
			fs, _ := Probe(sub, sv)
			for _, f := range fs {
				if f.Kind == kind {
					return "field=" + siteOf(sub)
				}
			}
		}
	}
	return "type=" + siteOf(m)
}

// RoundTrip checks one value and reports failures with a localised signature.
func RoundTrip(c *explore.Ctx, m *pgen.Msg, v reflect.Value) (encoded []byte, ok bool) {
	fails, b := Probe(m, v)
	for _, f := range fails {
		if strings.HasSuffix(f.Kind, "content-free-message-decodes-as-nil") {
			c.Fail(f.Kind, "%s for %s = %s", f.Msg, m, pgen.Describe(v))
			continue
		}
		c.Fail(f.Kind+":"+localise(m, v, f.Kind), "%s for %s = %s", f.Msg, m, pgen.Describe(v))
	}
	return b, len(fails) == 0
}

func trunc(b []byte) []byte {
	if len(b) > 48 {
		return b[:48]
	}
	return b
}

// siteOf names the codec combination of a message: the set of field shapes
// (without numbers unless they are large), used to localise signatures.
func siteOf(m *pgen.Msg) string {
	s := ""
	for i, f := range m.Fields {
		if i > 0 {
			s += ";"
		}
		fs := f.String()
		if j := indexByte(fs, '#'); j >= 0 {
			num := f.Number
			cls := ""
			switch {
			case num > 65535:
				cls = "#>65535"
			case num > 2047:
				cls = "#>2047"
			case num > 15:
				cls = "#>15"
			}
			fs = fs[:j] + cls
		}
		s += fs
	}
	if len(s) > 120 {
		s = s[:120]
	}
	return s
}

func indexByte(s string, b byte) int {
	for i := len(s) - 1; i >= 0; i-- {
		if s[i] == b {
			return i
		}
	}
	return -1
}

func roundtrip(c *explore.Ctx) {
	m := pgen.EnumMsg(c, pgen.Options{MaxFields: 3, Thorough: c.Thorough()})
	v := pgen.EnumValue(c, m, c.Thorough())
	b, ok := RoundTrip(c, m, v)
	c.NontrivialStr(m.String(), pgen.Describe(v))
	switch {
	case !ok:
		c.Outcome("fail-or-error")
	case len(b) == 0:
		c.Outcome("empty-encoding")
	default:
		c.Outcome(fmt.Sprintf("fields=%d maps=%v", len(m.Fields), m.HasMap()))
	}
	if c.WantSample() || c.Failed() {
		c.Case(map[string]any{"type": m.String(), "value": pgen.Describe(v), "encoded_len": len(b)})
	}
}

var ladderShapes = pgen.LadderShapes()

func ladder(c *explore.Ctx) {
	sh := ladderShapes[c.Choose(len(ladderShapes))]
	lens := pgen.LadderLengths(c.Thorough())
	n := lens[c.Choose(len(lens))]
	if strings.Contains(sh.Name, "(count)") && n > 3000 {
		n = n % 3000
	}
	v := sh.Make(n)
	b, ok := RoundTrip(c, sh.Msg, v)
	c.NontrivialStr("ladder", sh.Name, fmt.Sprint(n))
	c.Outcome(fmt.Sprintf("ok=%v prefix-bytes=%d", ok, prefixClass(len(b))))
	if c.WantSample() || c.Failed() {
		c.Case(map[string]any{"shape": sh.Name, "payload_len": n, "encoded_len": len(b)})
	}
}

func prefixClass(n int) int {
	switch {
	case n < 128:
		return 1
	case n < 16384:
		return 2
	case n < 2097152:
		return 3
	}
	return 4
}

// Spec returns the C03 check.
func Spec() *explore.Spec {
	spec := specBase()
	spec.Families = []*explore.Family{
		{Name: "roundtrip", ShardDepth: 2, Body: roundtrip,
			Bound: func(tier string) int {
				if tier == "thorough" {
					return 2
				}
				return 2
			},
			Doc: "message types of 1-3 fields from a palette of ~200 field shapes (scalars, tagged encodings, pointers, repeated, maps, nested/inlined messages in every wrapper, Message/custom leaves) x field-number patterns x values (all-typical / all-zero base with up to 2 deviating choices from boundary domains)"},
	}
	spec.Families = append(spec.Families, &explore.Family{Name: "toplevel-messages", ShardDepth: 2, Body: toplevelMessages,
		Doc: "values that implement Message / the custom interface themselves (by value and by pointer; plain, RawMessage, and types that are a single pointer, alone and as struct fields) x 5 payloads: Size and Marshal give the bytes the value's own methods produce"})
	spec.Families = append(spec.Families, &explore.Family{Name: "length-ladder", ShardDepth: 2, Body: ladder,
		Doc: "20 positions of a length-delimited payload (string, bytes, nested, pointer, repeated, map key/value, Message/custom leaf, element counts) x every payload length 0..300 and 16370..16400 (thorough: ..2100 and around 2^21): every length-prefix width boundary at every nesting position"})
	spec.Families = append(spec.Families, &explore.Family{Name: "varint-widths", ShardDepth: 2, Body: varintWidths,
		Doc: "every varint byte count 1..10 x {smallest, largest, alternating bits, top group only} as int64 / uint64 / sint64 / int32 / uint32 / sint32 field, pointer, repeated element, map key and map value"})
	spec.Families = append(spec.Families, &explore.Family{Name: "recursive-types", ShardDepth: 2, Serial: true, Body: recursiveTypes,
		Doc: "recursive message types (through []*T, map[string]*T, *T inside []T, []T by value) reached through an outer type before / after the recursive type was used on its own, values 1-3 levels deep: Size, Marshal, Unmarshal, equality"})
	spec.Families = append(spec.Families, &explore.Family{Name: "after-failed-decode", ShardDepth: 2, Body: afterFailedDecode,
		Doc: "histories of length 2: a decode that fails (the encoding of a fully populated value truncated at every offset, or with one byte replaced by 0x07 / 0xff at every offset) followed by Unmarshal(Marshal(v)) of sparse values of the same type (maps of messages, of pointers to messages, of strings; repeated messages): pooled scratch state must not leak into the second decode"})
	spec.Families = append(spec.Families, &explore.Family{Name: "large-structs", ShardDepth: 2, Body: largeStructs,
		Doc: "message structs larger than 64 KiB: struct{A int32; Pad [n]byte; 8 more fields of every kind} for 12 pad sizes around 2^16 and 2^17 (field offsets 65532..65540, 131072, 200000) x pad zero / set at both ends x {top level, nested by value between other fields, behind a pointer, as elements of a repeated field}: Size, Marshal, Unmarshal, equality"})
	spec.Families = append(spec.Families, &explore.Family{Name: "many-fields", ShardDepth: 2, Body: manyFields,
		Doc: "structs of 63..300 fields (int32 / string / repeated int64): every field alone, all fields, the last three, first and last: field indexes and presence bitmaps beyond one, two and four machine words"})
	return spec
}

// ---- every varint width: the encoder has one unrolled case per byte count

type vwT struct {
	I   int64            `protobuf:"varint,1,opt,name=i"`
	U   uint64           `protobuf:"varint,2,opt,name=u"`
	S   int64            `protobuf:"zigzag64,3,opt,name=s"`
	R   []uint64         `protobuf:"varint,4,rep,name=r"`
	M   map[uint64]int64 `protobuf:"bytes,5,rep,name=m"`
	I32 int32            `protobuf:"varint,6,opt,name=i32"`
	U32 uint32           `protobuf:"varint,7,opt,name=u32"`
	S32 int32            `protobuf:"zigzag32,8,opt,name=s32"`
	P   *uint64          `protobuf:"varint,9,opt,name=p"`
}

func varintWidths(c *explore.Ctx) {
	k := 1 + c.Choose(10) // number of bytes of the varint
	which := c.Choose(4)  // smallest value of the width, largest, alternating bit pattern, top byte only
	lo := uint64(1) << (7 * uint(k-1))
	if k == 1 {
		lo = 0
	}
	hi := uint64(math.MaxUint64)
	if k < 10 {
		hi = uint64(1)<<(7*uint(k)) - 1
	}
	var u uint64
	switch which {
	case 0:
		u = lo
	case 1:
		u = hi
	case 2:
		u = lo | (0x5555555555555555 & hi)
	case 3:
		u = lo | (hi &^ (hi >> 7))
	}
	unzig := func(z uint64) int64 { return int64(z>>1) ^ -int64(z&1) }
	v := vwT{I: int64(u), U: u, S: unzig(u), R: []uint64{u, 1, u}, M: map[uint64]int64{u: int64(u)}, P: &u}
	if u <= math.MaxUint32 {
		v.U32 = uint32(u)
		v.I32 = int32(uint32(u))
		v.S32 = int32(unzig(u))
	}
	var b []byte
	var merr, uerr error
	var out vwT
	size := -1
	if pv, ps := explore.Catch(func() {
		size = proto.Size(&v)
		b, merr = proto.Marshal(&v)
		if merr == nil {
			uerr = proto.Unmarshal(b, &out)
		}
	}); pv != nil {
		c.Fail("varint-width:panic:"+ps, "round trip panics for the %d-byte varint %#x: %v", k, u, pv)
		return
	}
	switch {
	case merr != nil:
		c.Fail("varint-width:Marshal-error", "Marshal fails for the %d-byte varint %#x: %v", k, u, merr)
	case size != len(b):
		c.Fail("varint-width:Size", "Size %d, len(Marshal) %d for the %d-byte varint %#x", size, len(b), k, u)
	case uerr != nil:
		c.Fail(fmt.Sprintf("varint-width:Unmarshal-error:%d-bytes", k), "Unmarshal(Marshal(v)) fails for the %d-byte varint %#x: %v (bytes % x)", k, u, uerr, b)
	case !reflect.DeepEqual(normalize(reflect.ValueOf(&out)).Interface(), normalize(reflect.ValueOf(&v)).Interface()):
		c.Fail(fmt.Sprintf("varint-width:value-differs:%d-bytes", k), "Unmarshal(Marshal(v)) != v for the %d-byte varint %#x: got %+v (bytes % x)", k, u, out, b)
	}
	c.NontrivialStr("vw", fmt.Sprint(k, which))
	c.Outcome(fmt.Sprintf("bytes=%d", k))
	c.Case(map[string]any{"varint_bytes": k, "value": fmt.Sprintf("%#x", u), "encoded": fmt.Sprintf("%x", b)})
}

// ---- recursive message types, reached through a pointer / map / slice before the type itself was ever used

type rTree1 struct {
	V    int
	Kids []*rTree1
}
type rOuter1 struct{ T *rTree1 }

type rTree2 struct {
	V    int
	Kids []*rTree2
}
type rOuter2 struct{ T *rTree2 }

type rTree3 struct {
	V    int32
	Kids map[string]*rTree3
}
type rOuter3 struct{ M map[string]*rTree3 }

type rList4 struct {
	V    int64
	Next *rList4
	Tags []string
}
type rOuter4 struct {
	Name string
	L    []rList4
}

type rTree5 struct {
	V    int
	Kids []rTree5
}
type rOuter5 struct{ P **rTree5 }

func recursiveTypes(c *explore.Ctx) {
	scenario := c.Choose(6)
	depth := 1 + c.Choose(3)
	var v, fresh any
	name := ""
	switch scenario {
	case 0: // the outer type first: the recursive type has never been used on its own
		name = "Outer{T *Tree}; Tree{V int; Kids []*Tree}, outer type first"
		var mk func(d int) *rTree1
		mk = func(d int) *rTree1 {
			t := &rTree1{V: d}
			if d > 0 {
				t.Kids = []*rTree1{mk(d - 1), mk(d - 1)}
			}
			return t
		}
		v, fresh = &rOuter1{T: mk(depth)}, new(rOuter1)
	case 1: // the recursive type first, then the outer one
		name = "Tree first, then Outer{T *Tree}"
		var mk func(d int) *rTree2
		mk = func(d int) *rTree2 {
			t := &rTree2{V: d}
			if d > 0 {
				t.Kids = []*rTree2{mk(d - 1)}
			}
			return t
		}
		proto.Marshal(mk(1))
		v, fresh = &rOuter2{T: mk(depth)}, new(rOuter2)
	case 2:
		name = "Outer{M map[string]*Tree}; Tree{V int32; Kids map[string]*Tree}"
		var mk func(d int) *rTree3
		mk = func(d int) *rTree3 {
			t := &rTree3{V: int32(d)}
			if d > 0 {
				t.Kids = map[string]*rTree3{"a": mk(d - 1), "b": mk(d - 1)}
			}
			return t
		}
		v, fresh = &rOuter3{M: map[string]*rTree3{"root": mk(depth)}}, new(rOuter3)
	case 3:
		name = "Outer{Name string; L []List}; List{V int64; Next *List; Tags []string}"
		var mk func(d int) *rList4
		mk = func(d int) *rList4 {
			l := &rList4{V: int64(d), Tags: []string{"t"}}
			if d > 0 {
				l.Next = mk(d - 1)
			}
			return l
		}
		v, fresh = &rOuter4{Name: "n", L: []rList4{*mk(depth), *mk(0)}}, new(rOuter4)
	case 4:
		name = "Tree{V int; Kids []Tree} by value"
		var mk func(d int) rTree5
		mk = func(d int) rTree5 {
			t := rTree5{V: d + 1}
			if d > 0 {
				t.Kids = []rTree5{mk(d - 1), mk(d - 1)}
			}
			return t
		}
		t := mk(depth)
		v, fresh = &t, new(rTree5)
	case 5:
		name = "the same outer type again (codec cached)"
		v, fresh = &rOuter1{T: &rTree1{V: 9, Kids: []*rTree1{{V: 8}}}}, new(rOuter1)
	}
	var b []byte
	var merr, uerr error
	size := -1
	if pv, ps := explore.Catch(func() {
		size = proto.Size(v)
		b, merr = proto.Marshal(v)
		if merr == nil {
			uerr = proto.Unmarshal(b, fresh)
		}
	}); pv != nil {
		c.Fail("recursive:panic:"+ps+":"+explore.PanicClass(pv), "%s (depth %d) panics: %v", name, depth, pv)
		return
	}
	switch {
	case merr != nil:
		c.Fail("recursive:Marshal-error", "Marshal fails for %s (depth %d): %v", name, depth, merr)
	case size != len(b):
		c.Fail("recursive:Size", "Size %d, len(Marshal) %d for %s (depth %d)", size, len(b), name, depth)
	case uerr != nil:
		c.Fail("recursive:Unmarshal-error", "Unmarshal(Marshal(v)) fails for %s (depth %d): %v (bytes % x)", name, depth, uerr, b)
	case !reflect.DeepEqual(normalize(reflect.ValueOf(fresh)).Interface(), normalize(reflect.ValueOf(v)).Interface()):
		c.Fail("recursive:value-differs", "Unmarshal(Marshal(v)) != v for %s (depth %d) (bytes % x)", name, depth, b)
	}
	c.NontrivialStr("recursive", name, fmt.Sprint(depth))
	c.Outcome(fmt.Sprintf("scenario=%d", scenario))
	c.Case(map[string]any{"types": name, "depth": depth, "encoded_bytes": len(b)})
}

// ---- histories: a failed decode must not influence the next one (pooled scratch structs of map codecs)

type hv struct {
	A int32
	B int64
	C string
	P *int32
	L []int32
}

type hm1 struct{ M map[string]hv }
type hm2 struct{ M map[int32]*hv }
type hm3 struct {
	M map[string]string
	N map[string]hv
	R []hv
}
type hm4 struct{ M map[string]map0 }
type map0 struct{ K map[int32]hv }

func i32(v int32) *int32 { return &v }

var (
	hvFull   = hv{A: 7, B: 8, C: "xyz", P: i32(9), L: []int32{1, 2, 3}}
	hvSparse = []hv{{}, {A: 1}, {B: 2}, {C: "c"}, {P: i32(5)}, {L: []int32{4}}}
)

var historyTypes = []struct {
	name   string
	dirty  func() any
	sparse func(hv) any
	fresh  func() any
}{
	{"map[string]message", func() any { return &hm1{M: map[string]hv{"dirty": hvFull}} }, func(x hv) any { return &hm1{M: map[string]hv{"k": x}} }, func() any { return new(hm1) }},
	{"map[int32]*message", func() any { v := hvFull; return &hm2{M: map[int32]*hv{77: &v}} }, func(x hv) any { return &hm2{M: map[int32]*hv{0: &x}} }, func() any { return new(hm2) }},
	{"map[string]string + map + repeated", func() any {
		return &hm3{M: map[string]string{"dk": "dv"}, N: map[string]hv{"dn": hvFull}, R: []hv{hvFull, hvFull}}
	}, func(x hv) any {
		return &hm3{M: map[string]string{"": "v", "k": ""}, N: map[string]hv{"": x}, R: []hv{x}}
	}, func() any { return new(hm3) }},
	{"map of message holding a map", func() any { return &hm4{M: map[string]map0{"d": {K: map[int32]hv{5: hvFull}}}} }, func(x hv) any { return &hm4{M: map[string]map0{"k": {K: map[int32]hv{0: x}}}} }, func() any { return new(hm4) }},
}

func dirty3() []byte {
	b, _ := proto.Marshal(&hm3{R: []hv{hvFull, hvFull, hvFull}})
	return b
}

func afterFailedDecode(c *explore.Ctx) {
	ht := historyTypes[c.Choose(len(historyTypes))]
	mode := c.Choose(3) // truncate, replace by 0x07, replace by 0xff
	dirty, err := proto.Marshal(ht.dirty())
	if err != nil {
		c.Fail("history:Marshal-error", "Marshal of the populated %s value fails: %v", ht.name, err)
		return
	}
	var n int64
	for off := 0; off < len(dirty); off++ {
		var bad []byte
		switch mode {
		case 0:
			bad = dirty[:off]
		case 1:
			bad = append([]byte{}, dirty...)
			bad[off] = 0x07
		case 2:
			bad = append([]byte{}, dirty...)
			bad[off] = 0xff
		}
		for si, x := range hvSparse {
			// step 1: a decode that (usually) fails half-way
			explore.Catch(func() { proto.Unmarshal(bad, ht.fresh()) })
			// step 2: an ordinary round trip of a sparse value of the same type
			v := ht.sparse(x)
			var b []byte
			var merr, uerr error
			got := ht.fresh()
			if pv, ps := explore.Catch(func() {
				b, merr = proto.Marshal(v)
				if merr == nil {
					uerr = proto.Unmarshal(b, got)
				}
			}); pv != nil {
				c.Fail("history:panic:"+ps, "round trip after a failed decode panics: %v", pv)
				continue
			}
			n++
			if merr != nil || uerr != nil {
				c.Fail("history:error:"+ht.name, "round trip of %s sparse value #%d after a failed decode (mode %d, offset %d) fails: %v %v", ht.name, si, mode, off, merr, uerr)
				continue
			}
			if !reflect.DeepEqual(normalize(reflect.ValueOf(got)).Interface(), normalize(reflect.ValueOf(v)).Interface()) {
				c.Fail("history:value-differs-after-failed-decode:"+ht.name, "Unmarshal(Marshal(v)) of %s sparse value #%d differs from v after a failed decode of % x (mode %d, offset %d): got %+v", ht.name, si, bad, mode, off, reflect.ValueOf(got).Elem().Interface())
			}
		}
	}
	// a target whose repeated field was truncated to be reused (spare capacity holding old elements)
	if mode == 0 {
		for si, x := range hvSparse {
			t := new(hm3)
			if err := proto.Unmarshal(dirty3(), t); err != nil {
				break
			}
			t.R, t.M, t.N = t.R[:0], nil, nil
			want := &hm3{R: []hv{x, x}}
			b, _ := proto.Marshal(want)
			if pv, ps := explore.Catch(func() { err = proto.Unmarshal(b, t) }); pv != nil {
				c.Fail("history:panic:"+ps, "decoding into a recycled target panics: %v", pv)
			} else if err != nil || !reflect.DeepEqual(normalize(reflect.ValueOf(t)).Interface(), normalize(reflect.ValueOf(want)).Interface()) {
				c.Fail("history:stale-element-in-recycled-slice", "sparse value #%d decoded into a target whose repeated field had been truncated to length 0 gives %+v (err %v)", si, t.R, err)
			}
			n++
		}
	}
	c.Inner(n)
	c.NontrivialStr("history", ht.name, fmt.Sprint(mode))
	c.Outcome(fmt.Sprintf("mode=%d", mode))
	c.Case(map[string]any{"type": ht.name, "mode": mode, "dirty_encoding_len": len(dirty), "histories": n})
}

// normalize returns a deep copy in which empty slices and maps are nil (the wire cannot tell them apart).
func normalize(v reflect.Value) reflect.Value {
	switch v.Kind() {
	case reflect.Ptr:
		if v.IsNil() {
			return v
		}
		p := reflect.New(v.Type().Elem())
		p.Elem().Set(normalize(v.Elem()))
		return p
	case reflect.Struct:
		out := reflect.New(v.Type()).Elem()
		for i := 0; i < v.NumField(); i++ {
			out.Field(i).Set(normalize(v.Field(i)))
		}
		return out
	case reflect.Slice:
		if v.Len() == 0 {
			return reflect.Zero(v.Type())
		}
		out := reflect.MakeSlice(v.Type(), v.Len(), v.Len())
		for i := 0; i < v.Len(); i++ {
			out.Index(i).Set(normalize(v.Index(i)))
		}
		return out
	case reflect.Map:
		if v.Len() == 0 {
			return reflect.Zero(v.Type())
		}
		out := reflect.MakeMap(v.Type())
		it := v.MapRange()
		for it.Next() {
			out.SetMapIndex(it.Key(), normalize(it.Value()))
		}
		return out
	}
	return v
}

func specBase() *explore.Spec {
	return &explore.Spec{
		ID:   "C03",
		Rule: "every (type shape, numbering, value) within the deviation bound; distinct non-trivial = distinct (type description, value description) pairs",
		Assumptions: []string{
			"decoding is into a fresh zero value; nil and empty slices/maps are identified; floats compared by bits",
			"nil elements of []*T and nil map values of map[K]*T are not representable on the wire and are not generated",
			"integer kinds int8/int16/uint8/uint16, **T and []*scalar are outside the statement's list and are not generated",
		},
	}
}

// Package c11: json.Decoder yields the same value stream however the bytes arrive (DESIGN.md §5 C11).
package c11

import (
	"bytes"
	stdjson "encoding/json"
	"errors"
	"fmt"
	"io"
	"strings"

	"github.com/segmentio/encoding/json"
	"verif/mc/explore"
)

var errCustom = errors.New("reader failed")

// ctlReader delivers data[:limit] in the given chunk sizes, then the terminal error.
type ctlReader struct {
	data     []byte
	pos      int
	chunks   []int // sizes of successive non-empty reads (the last one repeats)
	ci       int
	zeros    int // number of zero-length reads to interleave before each data read
	zleft    int
	term     error // terminal error (io.EOF or custom)
	withData bool  // deliver the terminal error together with the last bytes
	reads    int
}

func (r *ctlReader) Read(p []byte) (int, error) {
	r.reads++
	if r.reads > 1<<20 {
		panic("reader polled forever")
	}
	if len(p) == 0 {
		return 0, nil
	}
	if r.pos >= len(r.data) {
		return 0, r.term
	}
	if r.zleft > 0 {
		r.zleft--
		return 0, nil
	}
	r.zleft = r.zeros
	n := len(r.data) - r.pos
	if len(r.chunks) > 0 {
		c := r.chunks[min(r.ci, len(r.chunks)-1)]
		r.ci++
		if c < n {
			n = c
		}
	}
	if n > len(p) {
		n = len(p)
	}
	copy(p, r.data[r.pos:r.pos+n])
	r.pos += n
	if r.pos >= len(r.data) && r.withData {
		return n, r.term
	}
	return n, nil
}

type span struct {
	raw        string
	start, end int
}

// reference: the values encoding/json's Decoder yields from d in a single read, with their spans,
// and how the stream ends (clean = only white space remains).
func reference(d []byte, useNumber bool) (vals []span, clean bool) {
	dec := stdjson.NewDecoder(bytes.NewReader(d))
	prev := 0
	for {
		var m stdjson.RawMessage
		if err := dec.Decode(&m); err != nil {
			clean = err == io.EOF
			return
		}
		end := int(dec.InputOffset())
		start := prev
		for start < len(d) && strings.IndexByte(" \t\r\n", d[start]) >= 0 {
			start++
		}
		vals = append(vals, span{string(m), start, end})
		prev = end
	}
}

type outcome struct {
	vals    []string
	offsets []int64
	err     error
	bufOK   bool
	bufMsg  string
}

func drain(r *ctlReader, setting int) (o outcome, pv any, ps string) {
	o.bufOK = true
	pv, ps = explore.Catch(func() {
		dec := json.NewDecoder(r)
		switch setting {
		case 1:
			dec.UseNumber()
		case 2:
			dec.DisallowUnknownFields()
		}
		for i := 0; i < len(r.data)+4; i++ {
			var m json.RawMessage
			err := dec.Decode(&m)
			if err != nil {
				o.err = err
				return
			}
			o.vals = append(o.vals, string(m))
			off := dec.InputOffset()
			o.offsets = append(o.offsets, off)
			// Buffered ++ unread remainder == unconsumed input
			buffered, _ := io.ReadAll(dec.Buffered())
			rest := append(append([]byte{}, buffered...), r.data[r.pos:]...)
			if off < 0 || int(off) > len(r.data) || !bytes.Equal(rest, r.data[off:]) {
				if o.bufOK {
					o.bufOK = false
					o.bufMsg = fmt.Sprintf("after value %d: InputOffset %d, Buffered %d bytes + %d unread bytes, input has %d bytes", i, off, len(buffered), len(r.data)-r.pos, len(r.data))
				}
			}
		}
		o.err = errors.New("too many values")
	})
	return
}

type lazy func() string

func (l lazy) String() string { return l() }

type str string

func (s str) String() string { return string(s) }

func trunc(s string) string {
	if len(s) > 60 {
		return fmt.Sprintf("%s…(%d bytes)", s[:60], len(s))
	}
	return s
}

// check runs one delivery schedule and compares with the reference.
func check(c *explore.Ctx, s []byte, limit int, r *ctlReader, setting int, site string, sched fmt.Stringer) {
	want, clean := reference(s[:limit], setting == 1)
	checkRef(c, s, limit, r, setting, site, sched, want, clean)
}

func checkRef(c *explore.Ctx, s []byte, limit int, r *ctlReader, setting int, site string, sched fmt.Stringer, want []span, clean bool) {
	d := s[:limit]
	if r.term != io.EOF && len(want) > 0 {
		// a number that runs up to the point where the reader fails may have been cut short: it is not a
		// value of the stream (encoding/json returns the reader's error instead)
		if last := want[len(want)-1]; last.end == len(d) && (last.raw[0] == '-' || last.raw[0] >= '0' && last.raw[0] <= '9') {
			want = want[:len(want)-1]
			clean = false
		}
	}
	o, pv, ps := drain(r, setting)
	desc := lazy(func() string {
		return fmt.Sprintf("stream %q delivered %s, terminal error %v", trunc(string(d)), sched, r.term)
	})
	if pv != nil {
		c.Fail("panic:"+ps+":"+explore.PanicClass(pv), "Decoder panicked: %v (%s)", pv, desc)
		return
	}
	// values: a prefix of the reference (all of it when the reader ends with io.EOF)
	if len(o.vals) > len(want) {
		c.Fail("extra-values:"+site, "Decoder yields %d values %q, encoding/json yields %d (%s)", len(o.vals), o.vals, len(want), desc)
		return
	}
	for i, v := range o.vals {
		if v != want[i].raw {
			c.Fail("value-differs:"+site, "value %d is %q, encoding/json yields %q (%s)", i, trunc(v), trunc(want[i].raw), desc)
			return
		}
	}
	eof := r.term == io.EOF
	switch {
	case eof && len(o.vals) < len(want):
		c.Fail("values-lost:"+site, "Decoder yields %d of the %d values then %v (%s)", len(o.vals), len(want), o.err, desc)
	case eof && clean && o.err != io.EOF:
		c.Fail("clean-end-not-io.EOF:"+site, "after all %d values the Decoder returns %v, want io.EOF (%s)", len(want), o.err, desc)
	case eof && !clean && (o.err == io.EOF || o.err == nil):
		c.Fail("dirty-end-reported-as-io.EOF:"+site, "the stream ends inside a value or is malformed but the Decoder returns %v after %d values (%s)", o.err, len(o.vals), desc)
	case !eof && len(o.vals) < len(want) && !isMalformed(d):
		// encoding/json hands out every complete value that was delivered before it reports the reader's error
		c.Fail("values-lost-before-reader-error:"+site, "Decoder yields %d of the %d complete values delivered before the reader failed, then %v (%s)", len(o.vals), len(want), o.err, desc)
	case !eof && o.err == io.EOF:
		c.Fail("reader-error-swallowed:"+site, "the reader failed with %v but the Decoder reports io.EOF after %d values (%s)", r.term, len(o.vals), desc)
	case !eof && !errors.Is(o.err, r.term):
		// acceptable only if the delivered bytes are themselves malformed (a syntax error can come first);
		// bytes that merely stop inside a value are not malformed: the reader's error must surface
		if !isMalformed(d) {
			c.Fail("reader-error-replaced:"+site, "the reader failed with %v but the Decoder returns %v after %d of %d values (%s)", r.term, o.err, len(o.vals), len(want), desc)
		}
	}
	// InputOffset: non-decreasing, between the end of the value and the start of the next
	prev := int64(0)
	for i, off := range o.offsets {
		lo, hi := int64(want[i].end), int64(len(d))
		if i+1 < len(want) {
			hi = int64(want[i+1].start)
		}
		if off < prev || off < lo || off > hi {
			c.Fail("InputOffset:"+site, "after value %d InputOffset is %d, want %d..%d (previous %d) (%s)", i, off, lo, hi, prev, desc)
			break
		}
		prev = off
	}
	if !o.bufOK {
		c.Fail("Buffered:"+site, "Buffered() + unread remainder != unconsumed input: %s (%s)", o.bufMsg, desc)
	}
}

// isMalformed: the delivered bytes contain a syntax error that is not merely a truncation.
func isMalformed(d []byte) bool {
	dec := stdjson.NewDecoder(bytes.NewReader(d))
	for {
		var m stdjson.RawMessage
		err := dec.Decode(&m)
		if err == nil {
			continue
		}
		var se *stdjson.SyntaxError
		return errors.As(err, &se) && !strings.Contains(err.Error(), "unexpected end")
	}
}

// ---- small streams: all chunkings x error offsets

var smallValues = []string{"1", `"a"`, "[]", `{"a":1}`, "null", "12", "tru", `"x`, "-1.5e1", "[1,2]"}
var seps = []string{"", " ", "\n", " \t\r\n"}

func smallStreams(c *explore.Ctx) {
	nmax := 2
	if c.Thorough() {
		nmax = 3
	}
	n := 1 + c.Choose(nmax)
	var sb strings.Builder
	sb.WriteString(seps[c.Choose(2)*3%4]) // leading: "" or " \t\r\n"
	for i := 0; i < n; i++ {
		sb.WriteString(smallValues[c.Choose(len(smallValues))])
		sb.WriteString(seps[c.Choose(len(seps))])
	}
	s := []byte(sb.String())
	maxLen := 10
	if c.Thorough() {
		maxLen = 12
	}
	if len(s) > maxLen {
		c.Outcome("long")
		return
	}
	setting := c.Choose(3)
	var cnt int64
	L := len(s)
	for limit := 0; limit <= L; limit++ {
		type termT struct {
			err      error
			withData bool
		}
		terms := []termT{{errCustom, false}, {errCustom, true}, {io.ErrUnexpectedEOF, false}}
		if limit == L {
			terms = append(terms, termT{io.EOF, false}, termT{io.EOF, true})
		} else {
			terms = append(terms, termT{io.EOF, false}) // the source itself ends early
		}
		want, clean := reference(s[:limit], setting == 1)
		nb := limit - 1
		if nb < 0 {
			nb = 0
		}
		for mask := 0; mask < 1<<nb; mask++ {
			var chunks []int
			run := 1
			for i := 0; i < nb; i++ {
				if mask&(1<<i) != 0 {
					chunks = append(chunks, run)
					run = 1
				} else {
					run++
				}
			}
			chunks = append(chunks, run)
			for _, tm := range terms {
				for zeros := 0; zeros <= 2; zeros += 2 {
					if zeros > 0 && mask%5 != 0 {
						continue // zero-length reads are combined with every fifth chunking
					}
					r := &ctlReader{data: s[:limit], chunks: chunks, zeros: zeros, zleft: zeros, term: tm.err, withData: tm.withData}
					checkRef(c, s, limit, r, setting, "small", lazy(func() string {
						return fmt.Sprintf("in chunks %v (zero-length reads: %d, error with data: %v)", chunks, zeros, tm.withData)
					}), want, clean)
					cnt++
				}
			}
		}
	}
	c.Inner(cnt)
	c.NontrivialBytes(s, []byte{byte(setting)})
	c.Outcome(fmt.Sprintf("values=%d", n))
	if c.WantSample() || c.Failed() {
		c.Case(map[string]any{"stream": string(s), "setting": setting, "schedules": cnt})
	}
}

// ---- large streams: tokens straddling the buffer / refill boundaries

var critical = []int{4096, 8192, 32768, 36864, 65536, 131072}

var tokens = []string{"1234567", "-1.5e10", "true", "null", "false", `"string"`, `"esc\"aped\n"`, "[1,2]", `{"a":1}`, `"é😀"`, "0"}

func straddle(c *explore.Ctx) {
	crit := critical[c.Choose(len(critical))]
	tk := tokens[c.Choose(len(tokens))]
	padKind := c.Choose(3) // white space, a preceding string value, a preceding array of numbers
	follow := c.Choose(3)  // nothing, another value, white space then a value
	setting := c.Choose(2)
	var cnt int64
	for j := -1; j <= len(tk)+1; j++ {
		start := crit - j
		var sb strings.Builder
		switch padKind {
		case 0:
			sb.WriteString(strings.Repeat(" ", start))
		case 1:
			sb.WriteString(`"` + strings.Repeat("p", start-3) + `" `)
		case 2:
			sb.WriteString("[")
			for sb.Len() < start-8 {
				sb.WriteString("1,")
			}
			sb.WriteString("2]")
			for sb.Len() < start {
				sb.WriteString(" ")
			}
		}
		sb.WriteString(tk)
		switch follow {
		case 1:
			sb.WriteString(` 7`)
		case 2:
			sb.WriteString("\n\n[8]\n")
		}
		s := []byte(sb.String())
		// default reader (fills every read), single-byte reads around the boundary, errors around the boundary
		check(c, s, len(s), &ctlReader{data: s, term: io.EOF}, setting, "straddle", str("in full reads"))
		check(c, s, len(s), &ctlReader{data: s, chunks: []int{crit - 1, 1, 1, 1, 1 << 20}, term: io.EOF}, setting, "straddle", str("with single-byte reads at the boundary"))
		check(c, s, len(s), &ctlReader{data: s, chunks: []int{4096}, term: io.EOF}, setting, "straddle", str("in 4096-byte reads"))
		cnt += 3
		for _, k := range []int{crit - 1, crit, crit + 1, start, start + len(tk) - 1, start + len(tk)} {
			if k >= 0 && k <= len(s) {
				check(c, s, k, &ctlReader{data: s[:k], term: errCustom}, setting, "straddle-error", str(fmt.Sprintf("up to offset %d then an error", k)))
				check(c, s, k, &ctlReader{data: s[:k], term: io.EOF}, setting, "straddle-truncated", str(fmt.Sprintf("up to offset %d then EOF", k)))
				check(c, s, k, &ctlReader{data: s[:k], term: io.ErrUnexpectedEOF, withData: true}, setting, "straddle-error", str(fmt.Sprintf("up to offset %d then io.ErrUnexpectedEOF with the data", k)))
				cnt += 3
			}
		}
	}
	c.Inner(cnt)
	c.NontrivialStr("straddle", fmt.Sprint(crit, tk, padKind, follow, setting))
	c.Outcome(fmt.Sprintf("crit=%d", crit))
	if c.WantSample() || c.Failed() {
		c.Case(map[string]any{"critical_offset": crit, "token": tk, "padding": padKind, "follow": follow, "schedules": cnt})
	}
}

// big values: sizes around the read quantum and the buffer size, sequences of 1-3
var bigSizes = []int{1, 4095, 4096, 4097, 32767, 32768, 32769, 65537, 98304}

func bigValues(c *explore.Ctx) {
	n := 1 + c.Choose(2)
	var sb strings.Builder
	for i := 0; i < n; i++ {
		size := bigSizes[c.Choose(len(bigSizes))]
		switch c.Choose(3) {
		case 0:
			sb.WriteString(`"` + strings.Repeat("s", max(size-2, 0)) + `"`)
		case 1:
			sb.WriteString("[")
			for k := 0; sb.Len() < size; k++ {
				sb.WriteString("12,")
			}
			sb.WriteString("3]")
		case 2:
			sb.WriteString(strings.Repeat(" ", size) + "5")
		}
		sb.WriteString([]string{"", "\n", " "}[c.Choose(3)])
	}
	s := []byte(sb.String())
	var cnt int64
	for _, chunks := range [][]int{nil, {1}, {4096}, {4095}, {32768}, {100, 1 << 20}} {
		check(c, s, len(s), &ctlReader{data: s, chunks: chunks, term: io.EOF}, 0, "big", str(fmt.Sprintf("in chunks %v", chunks)))
		cnt++
	}
	for _, k := range []int{len(s) - 1, len(s) / 2, 4096, 32768} {
		if k > 0 && k < len(s) {
			check(c, s, k, &ctlReader{data: s[:k], term: errCustom, withData: true}, 0, "big-error", str(fmt.Sprintf("up to offset %d then an error with the data", k)))
			cnt++
		}
	}
	c.Inner(cnt)
	c.NontrivialBytes(s)
	c.Outcome(fmt.Sprintf("values=%d big=%v", n, len(s) > 32768))
	if c.WantSample() || c.Failed() {
		c.Case(map[string]any{"stream_len": len(s), "values": n, "schedules": cnt})
	}
}

// Parse returns as remainder exactly the bytes after the first value and its trailing white space
var parseDocs = []string{"1", `"a"`, "[1,2]", `{"a":1}`, "null", "-1.5e3", "true", `[{"a":[]}]`, `""`}
var suffixes = []string{"", " ", "\n\t ", "x", " x", "1", " 1", "]", " ]", `"`, ",", " , 2"}

// manyValues: long-lived Decoders - hundreds of values, hundreds of reads and of zero-length reads over the life
// of one Decoder (what a Decoder counts or accumulates per read or per value must not run into a limit).
func manyValues(c *explore.Ctx) {
	count := []int{150, 400, 3000}[c.Choose(3)]
	form := c.Choose(4)
	zeros := []int{0, 1, 2, 5}[c.Choose(4)]
	var sb strings.Builder
	for i := 0; i < count; i++ {
		switch form {
		case 0:
			fmt.Fprintf(&sb, "%d ", i)
		case 1:
			fmt.Fprintf(&sb, `{"k":%d,"s":"v%d"}`+"\n", i, i)
		case 2:
			fmt.Fprintf(&sb, `"str\"%d"`, i)
		case 3:
			fmt.Fprintf(&sb, "[%d,[%d]]\t", i, i)
		}
	}
	s := []byte(sb.String())
	var cnt int64
	for _, chunks := range [][]int{{1}, {3}, {7, 1}, {4096}} {
		if len(s) > 20000 && chunks[0] < 7 {
			continue
		}
		check(c, s, len(s), &ctlReader{data: s, chunks: chunks, zeros: zeros, term: io.EOF}, 0, "many", str(fmt.Sprintf("%d values in chunks %v with %d zero-length reads before each", count, chunks, zeros)))
		cnt++
	}
	c.Inner(cnt)
	c.NontrivialStr("many", fmt.Sprint(count, form, zeros))
	c.Outcome(fmt.Sprintf("values=%d zeros=%d", count, zeros))
	if c.WantSample() || c.Failed() {
		c.Case(map[string]any{"values": count, "form": form, "zero_length_reads_before_each_read": zeros, "schedules": cnt})
	}
}

func parseRemainder(c *explore.Ctx) {
	d := parseDocs[c.Choose(len(parseDocs))]
	suf := suffixes[c.Choose(len(suffixes))]
	lead := []string{"", " ", "\r\n"}[c.Choose(3)]
	if last := d[len(d)-1]; last >= '0' && last <= '9' && suf != "" && suf[0] >= '0' && suf[0] <= '9' {
		c.Outcome("suffix-extends-number")
		return
	}
	in := []byte(lead + d + suf)
	want := strings.TrimLeft(suf, " \t\r\n")
	for ti, target := range []any{new(any), new(json.RawMessage), new(struct{ A any })} {
		rest, err := json.Parse(append([]byte{}, in...), target, 0)
		if err != nil {
			if ti == 2 && d[0] != '{' && d != "null" {
				continue // type mismatch into a struct
			}
			c.Fail("Parse:error", "Parse(%q) fails: %v", in, err)
			continue
		}
		if string(rest) != want {
			c.Fail("Parse:remainder", "Parse(%q) returns the remainder %q, want %q", in, rest, want)
		}
	}
	c.NontrivialBytes(in)
	c.Outcome(fmt.Sprintf("suffix-empty=%v", want == ""))
	c.Case(map[string]any{"input": string(in)})
}

// Spec returns the C11 check.
// retained values: what Decode handed out stays what it was while the stream goes on (the read buffer is refilled)
var retainedKinds = []string{`"plain text"`, `"héllo wörld"`, "\"h\u00e9llo\"", `"esc\nape\t"`, `12345`, `{"k":"vé","n":[1,"日本"]}`, `["a","é",{"x":"ü"}]`, `"日本語のテキスト"`, `1.5e3`, `{"plain":"ascii only"}`}

type retainedT struct {
	K     string
	Plain string
	N     []any
}

func retained(c *explore.Ctx) {
	a := retainedKinds[c.Choose(len(retainedKinds))]
	b := retainedKinds[c.Choose(len(retainedKinds))]
	setting := c.Choose(2)
	chunks := [][]int{nil, {4096}, {4095, 1, 7}}[c.Choose(3)]
	typed := c.Choose(2) == 1
	var sb strings.Builder
	for i := 0; sb.Len() < 70000; i++ {
		if i%2 == 0 {
			sb.WriteString(a)
		} else {
			sb.WriteString(b)
		}
		sb.WriteString([]string{"\n", " ", ""}[i%3])
		if i%3 == 2 {
			sb.WriteString(" ")
		}
	}
	s := []byte(sb.String())
	run := func(seg bool) (vals []any, err error) {
		r := &ctlReader{data: s, chunks: chunks, term: io.EOF}
		var decode func(any) error
		if seg {
			d := json.NewDecoder(r)
			if setting == 1 {
				d.UseNumber()
			}
			decode = d.Decode
		} else {
			d := stdjson.NewDecoder(r)
			if setting == 1 {
				d.UseNumber()
			}
			decode = d.Decode
		}
		for {
			var v any
			if typed {
				v = new(retainedT)
			} else {
				v = new(any)
			}
			if err := decode(v); err != nil {
				if err == io.EOF {
					return vals, nil
				}
				return vals, err
			}
			vals = append(vals, v)
		}
	}
	var got, want []any
	var gerr, werr error
	if pv, ps := explore.Catch(func() { got, gerr = run(true) }); pv != nil {
		c.Fail("retained:panic:"+ps, "Decoder panics on a stream of %d bytes: %v", len(s), pv)
		return
	}
	want, werr = run(false)
	norm := func(v any) string {
		if num, ok := v.(*any); ok {
			if n, ok := (*num).(json.Number); ok {
				return "Number:" + string(n)
			}
		}
		return fmt.Sprintf("%#v", reflectDeref(v))
	}
	switch {
	case (gerr == nil) != (werr == nil):
		c.Fail("retained:error-differs", "stream of %d values of %s / %s: error %v, encoding/json %v", len(want), trunc(a), trunc(b), gerr, werr)
	case len(got) != len(want):
		c.Fail("retained:count-differs", "stream of %s / %s: %d values, encoding/json %d", trunc(a), trunc(b), len(got), len(want))
	default:
		for i := range got {
			if g, w := norm(got[i]), norm(want[i]); g != w {
				c.Fail("retained:value-changed-after-later-reads", "value %d of a stream of %d (%s / %s, typed=%v): after the whole stream was read it is %s, encoding/json has %s", i, len(got), trunc(a), trunc(b), typed, trunc(g), trunc(w))
				break
			}
		}
	}
	c.Inner(int64(len(got)))
	c.NontrivialStr("retained", a, b, fmt.Sprint(setting, chunks, typed))
	c.Outcome(fmt.Sprintf("retained typed=%v", typed))
	if c.WantSample() || c.Failed() {
		c.Case(map[string]any{"value_a": a, "value_b": b, "values": len(got), "stream_len": len(s), "typed": typed})
	}
}

func reflectDeref(v any) any {
	switch x := v.(type) {
	case *any:
		return *x
	case *retainedT:
		return *x
	}
	return v
}

func Spec() *explore.Spec {
	return &explore.Spec{
		ID: "C11",
		Families: []*explore.Family{
			{Name: "small-streams", ShardDepth: 3, Body: smallStreams, Doc: "streams of 1-2 (quick) / 1-3 (thorough) values (10 value forms incl. unterminated / truncated ones) x 4 separators, up to 10 bytes (quick) / 12 bytes (thorough): every prefix delivered, in every chunking (all compositions), with the terminal error {EOF, custom, io.ErrUnexpectedEOF} delivered alone or with the last bytes, zero-length reads interleaved, x {plain, UseNumber, DisallowUnknownFields}"},
			{Name: "straddle", ShardDepth: 2, Body: straddle, Doc: "11 token kinds placed so that every split point of the token falls on every buffer / refill boundary (4096, 8192, 32768, 36864, 65536, 131072), after white space / a long string / a long array, followed by nothing / a value / white space and a value; full reads, single-byte reads at the boundary, 4096-byte reads, errors and truncations at the boundary"},
			{Name: "many-values", ShardDepth: 2, Body: manyValues, Doc: "long-lived Decoders: streams of 150 / 400 / 3000 values (numbers, objects, strings with escapes, nested arrays) delivered in chunks of 1, 3, 7 and 4096 bytes with 0, 1, 2 or 5 zero-length reads before every read (hundreds to thousands of reads and of zero-length reads over the life of one Decoder): the same value stream as encoding/json"},
			{Name: "big-values", ShardDepth: 2, Body: bigValues, Doc: "sequences of 1-2 values of sizes around the 4 KiB read quantum and the 32 KiB buffer (strings, arrays, white space runs) x 6 chunkings x error positions"},
			{Name: "retained-values", ShardDepth: 2, Body: retained, Doc: "streams of ~70 KB alternating two of 10 value forms (ASCII, non-ASCII and escaped strings, numbers, objects, arrays) x {plain, UseNumber} x 3 chunkings x {any, struct} targets, every value retained: after the whole stream has been read each value equals what encoding/json delivered (the read buffer was refilled and moved several times in between)"},
			{Name: "parse-remainder", ShardDepth: 2, Body: parseRemainder, Doc: "Parse returns exactly the bytes after the first value and its trailing white space: 9 documents x 12 suffixes x 3 leading white space forms x 3 targets"},
		},
		Rule: "every delivery schedule of the bounded sets; distinct non-trivial = distinct streams / placements",
		Assumptions: []string{
			"the reference value stream is encoding/json.Decoder over the delivered bytes in a single read; value spans come from its InputOffset",
			"when the reader fails with a non-EOF error, any prefix of the reference values followed by that error is accepted (a syntax error may come first if the delivered bytes are malformed)",
			"whether later Decode calls keep failing after an error is not checked",
		},
	}
}

// Package c05: json.Valid and every syntax-only path accept exactly RFC 8259 JSON (DESIGN.md §5 C05).
package c05

import (
	"bytes"
	stdjson "encoding/json"
	"fmt"
	"io"
	"reflect"
	"regexp"
	"strings"

	"github.com/segmentio/encoding/json"
	"verif/mc/explore"
)

var alphabet = []byte{'{', '}', '[', ']', ',', ':', '"', '\\', '-', '.', '0', '1', 'e', 'E', '+', 'n', 'u', 'l', 't', 'r', 'a', 'f', 's', ' ', '\n', 0x1f, 0x80}

var tokens = []string{"{", "}", "[", "]", ",", ":", `"k"`, "1", "null", "true", "false", "-", "0", ".5", "e1", " "}

var reNum = regexp.MustCompile(`[0-9]+`)
var reQuoted = regexp.MustCompile(`'(\\.|[^'])+'|"[^"]*"`)

// normErr reduces an error message to its class (no offsets, no literal characters).
func normErr(err error) string {
	if err == nil {
		return "ok"
	}
	s := err.Error()
	s = strings.TrimPrefix(s, "json: ")
	s = reQuoted.ReplaceAllString(s, "C")
	s = reNum.ReplaceAllString(s, "N")
	if len(s) > 70 {
		s = s[:70]
	}
	return s
}

// verdict compares acceptance; serr/rerr are the errors of seg and the reference.
func verdict(c *explore.Ctx, site string, doc []byte, serr, rerr error) {
	if (serr == nil) == (rerr == nil) {
		return
	}
	if serr == nil {
		c.Fail(site+":accepts-invalid:"+normErr(rerr), "%s: segmentio accepts %q, encoding/json rejects: %v", site, doc, rerr)
	} else {
		c.Fail(site+":rejects-valid:"+normErr(serr), "%s: segmentio rejects %q (%v), encoding/json accepts", site, doc, serr)
	}
}

func checkValid(c *explore.Ctx, site string, doc []byte) bool {
	var got bool
	if pv, ps := explore.Catch(func() { got = json.Valid(doc) }); pv != nil {
		c.Fail(site+":panic:"+ps+":"+explore.PanicClass(pv), "Valid(%q) panicked: %v", doc, pv)
		return false
	}
	want := stdjson.Valid(doc)
	if got != want {
		var probe any
		rerr := stdjson.Unmarshal(doc, &probe)
		if want {
			c.Fail(site+":Valid:rejects-valid", "Valid(%q)=false, encoding/json.Valid=true", doc)
		} else {
			c.Fail(site+":Valid:accepts-invalid:"+normErr(rerr), "Valid(%q)=true, encoding/json.Valid=false (%v)", doc, rerr)
		}
	}
	return want
}

type rawMarshaler struct{ b []byte }

func (r rawMarshaler) MarshalJSON() ([]byte, error) { return r.b, nil }

type decodeResult struct {
	vals []string
	eof  bool
}

func drainSeg(doc []byte) (r decodeResult) {
	dec := json.NewDecoder(bytes.NewReader(doc))
	for i := 0; i < len(doc)+2; i++ {
		var m json.RawMessage
		err := dec.Decode(&m)
		if err != nil {
			r.eof = err == io.EOF
			return
		}
		r.vals = append(r.vals, string(m))
	}
	return
}

func drainStd(doc []byte) (r decodeResult) {
	dec := stdjson.NewDecoder(bytes.NewReader(doc))
	for i := 0; i < len(doc)+2; i++ {
		var m stdjson.RawMessage
		err := dec.Decode(&m)
		if err != nil {
			r.eof = err == io.EOF
			return
		}
		r.vals = append(r.vals, string(m))
	}
	return
}

// consumers runs every syntax-only consumer on doc and compares with encoding/json.
func consumers(c *explore.Ctx, doc []byte) {
	d := append([]byte{}, doc...)
	guard := func(site string, f func()) {
		if pv, ps := explore.Catch(f); pv != nil {
			c.Fail(site+":panic:"+ps+":"+explore.PanicClass(pv), "%s on %q panicked: %v", site, doc, pv)
		}
	}
	guard("Marshal(RawMessage)", func() {
		_, serr := json.Marshal(json.RawMessage(d))
		_, rerr := stdjson.Marshal(stdjson.RawMessage(d))
		verdict(c, "Marshal(RawMessage)", doc, serr, rerr)
	})
	guard("Marshal(*RawMessage in struct)", func() {
		type S struct {
			A json.RawMessage
			B *json.RawMessage
		}
		rm := json.RawMessage(d)
		_, serr := json.Marshal(S{A: d, B: &rm})
		_, rerr := stdjson.Marshal(S{A: d, B: &rm})
		verdict(c, "Marshal(struct{RawMessage})", doc, serr, rerr)
	})
	guard("Marshal(Marshaler)", func() {
		_, serr := json.Marshal(rawMarshaler{d})
		_, rerr := stdjson.Marshal(rawMarshaler{d})
		verdict(c, "Marshal(Marshaler)", doc, serr, rerr)
	})
	guard("Marshal(map[string]RawMessage)", func() {
		_, serr := json.Marshal(map[string]json.RawMessage{"a": d})
		_, rerr := stdjson.Marshal(map[string]stdjson.RawMessage{"a": d})
		verdict(c, "Marshal(map[string]RawMessage)", doc, serr, rerr)
	})
	guard("Unmarshal(&RawMessage)", func() {
		var a json.RawMessage
		var b stdjson.RawMessage
		serr := json.Unmarshal(d, &a)
		rerr := stdjson.Unmarshal(d, &b)
		verdict(c, "Unmarshal(&RawMessage)", doc, serr, rerr)
	})
	guard("Unmarshal(&any)", func() {
		var a, b any
		serr := json.Unmarshal(d, &a)
		rerr := stdjson.Unmarshal(d, &b)
		verdict(c, "Unmarshal(&any)", doc, serr, rerr)
	})
	guard("Unmarshal(values reached through interfaces)", func() {
		// the depth limit and the syntax checks carry through values that interfaces hold or point to
		type namedAny interface{}
		mk := func() []any {
			var inner []any
			return []any{new([]namedAny), &struct{ X any }{X: &inner}, new(namedAny), &struct{ X namedAny }{}}
		}
		segT, stdT := mk(), mk()
		for i := range segT {
			in := d
			if i == 1 || i == 3 {
				in = append(append([]byte(`{"X":`), d...), '}')
			}
			serr := json.Unmarshal(in, segT[i])
			rerr := stdjson.Unmarshal(in, stdT[i])
			verdict(c, fmt.Sprintf("Unmarshal(through interface #%d)", i), doc, serr, rerr)
		}
	})
	wrap := func(site, pre, post string, mk func() any) {
		guard(site, func() {
			text := []byte(pre + string(d) + post)
			serr := json.Unmarshal(text, mk())
			rerr := stdjson.Unmarshal(text, mk())
			verdict(c, site, text, serr, rerr)
		})
	}
	wrap("skip-unknown-field", `{"x":`, `}`, func() any { return &struct{}{} })
	wrap("skip-unknown-field-then-known", `{"x":`, `,"Y":1}`, func() any { return &struct{ Y int }{} })
	wrap("array-surplus", `[1,`, `]`, func() any { return &[1]int{} })
	wrap("array-surplus-nocomma", `[1`, `]`, func() any { return &[1]int{} })
	wrap("array-surplus-zero", `[`, `]`, func() any { return &[0]int{} })
	wrap("map-of-raw", `{"a":`, `}`, func() any { return &map[string]json.RawMessage{} })
	wrap("struct-raw-field", `{"A":`, `}`, func() any { return &struct{ A json.RawMessage }{} })
	wrap("slice-of-raw", `[`, `]`, func() any { return &[]json.RawMessage{} })
	wrap("skip-in-nested", `{"Y":{"x":`, `}}`, func() any { return &struct{ Y struct{} }{} })
	for _, suffix := range []string{"", " ", " 1"} {
		site := "Decoder-framing" + map[string]string{"": "", " ": "+space", " 1": "+value"}[suffix]
		guard(site, func() {
			text := append(append([]byte{}, d...), suffix...)
			s, r := drainSeg(text), drainStd(text)
			if len(s.vals) != len(r.vals) || s.eof != r.eof {
				c.Fail(fmt.Sprintf("%s:values=%d/%d:eof=%v/%v", site, min(len(s.vals), 3), min(len(r.vals), 3), s.eof, r.eof), "%s over %q: segmentio yields %d values %q (clean EOF %v), encoding/json %d values %q (clean EOF %v)", site, text, len(s.vals), s.vals, s.eof, len(r.vals), r.vals, r.eof)
				return
			}
			for i := range s.vals {
				if s.vals[i] != r.vals[i] {
					c.Fail(site+":value-bytes", "%s over %q: value %d is %q, encoding/json %q", site, text, i, s.vals[i], r.vals[i])
					return
				}
			}
		})
	}
}

// ---- family: all byte strings over the class alphabet

func byteStrings(c *explore.Ctx) {
	maxL := 6
	consL := 4
	if c.Thorough() {
		maxL, consL = 7, 5
	}
	L := c.Choose(maxL + 1)
	buf := make([]byte, L)
	fixed := 0
	if L >= 1 {
		buf[0] = alphabet[c.Choose(len(alphabet))]
		fixed = 1
	}
	if L >= 2 {
		buf[1] = alphabet[c.Choose(len(alphabet))]
		fixed = 2
	}
	idx := make([]int, L)
	for i := fixed; i < L; i++ {
		buf[i] = alphabet[0]
	}
	var n, valid int64
	for {
		n++
		if checkValid(c, "bytes", buf) {
			valid++
			c.NontrivialBytes(buf)
		}
		if L <= consL {
			consumers(c, buf)
		}
		// odometer over positions fixed..L-1
		i := L - 1
		for ; i >= fixed; i-- {
			idx[i]++
			if idx[i] < len(alphabet) {
				buf[i] = alphabet[idx[i]]
				break
			}
			idx[i] = 0
			buf[i] = alphabet[0]
		}
		if i < fixed {
			break
		}
	}
	c.Inner(n)
	c.Count("valid_documents", valid)
	if valid > 0 {
		c.Outcome("has-valid")
	} else {
		c.Outcome("all-invalid")
	}
	if c.WantSample() {
		c.Case(map[string]any{"length": L, "prefix": string(buf[:fixed]), "enumerated": n, "valid": valid, "consumers_run": L <= consL})
	}
}

func tokenStrings(c *explore.Ctx) {
	maxL := 6
	consL := 4
	if c.Thorough() {
		maxL, consL = 8, 5
	}
	L := c.Choose(maxL + 1)
	fixed := 0
	idx := make([]int, L)
	if L >= 1 {
		idx[0] = c.Choose(len(tokens))
		fixed = 1
	}
	if L >= 2 {
		idx[1] = c.Choose(len(tokens))
		fixed = 2
	}
	buf := make([]byte, 0, 64)
	var n, valid int64
	for {
		buf = buf[:0]
		for _, t := range idx {
			buf = append(buf, tokens[t]...)
		}
		n++
		if checkValid(c, "tokens", buf) {
			valid++
			c.NontrivialBytes(buf)
		}
		if L <= consL {
			consumers(c, buf)
		}
		i := L - 1
		for ; i >= fixed; i-- {
			idx[i]++
			if idx[i] < len(tokens) {
				break
			}
			idx[i] = 0
		}
		if i < fixed {
			break
		}
	}
	c.Inner(n)
	c.Count("valid_documents", valid)
	if valid > 0 {
		c.Outcome("has-valid")
	} else {
		c.Outcome("all-invalid")
	}
	if c.WantSample() {
		c.Case(map[string]any{"tokens": L, "first": func() []string {
			var s []string
			for _, t := range idx[:fixed] {
				s = append(s, tokens[t])
			}
			return s
		}(), "enumerated": n, "valid": valid})
	}
}

// ---- family: string sweeps (quote-search hand-over, whole-input flags)

var contexts = []struct{ pre, post string }{
	{"", ""},                  // bare string: input-wide flags describe only this string
	{`["\\",`, `]`},           // a backslash elsewhere in the input
	{"[\"\x7f\",", `]`},       // a non-printable byte elsewhere
	{`{"k":`, `,"é\n":null}`}, // both, after the string, as object member
	{`   `, "\n"},             // surrounding whitespace (trimmed before computing the flags)
}

// ---- byte sweep: every byte value at every position of small documents that have white space in every kind of gap

var sweepSkeletons = []string{
	`[1, 2]`, `[ 1 ,2 ]`, "[1,\n2]", `{"a": 1}`, `{"a" :1 , "b": 2}`, "{\n\t\"a\": [ ],\r\n\"b\": { } }", ` 1 `, "\t\"s\"\n", `[true, false , null]`,
	`[1.5e3, -0]`, `{"k":"v"}`, `[[ ], { }]`, `"a b"`, `[ "x" , "y" ]`, ` [ ] `, ` { } `, `[1,2]`, `{"a":{"b":[1, 2]}}`, "1 2", "[1] [2]", `{"a":1} {"b":2}`,
}

func byteSweep(c *explore.Ctx) {
	sk := []byte(sweepSkeletons[c.Choose(len(sweepSkeletons))])
	insert := c.Bool()
	var cnt, valid int64
	buf := make([]byte, 0, len(sk)+1)
	last := len(sk)
	if insert {
		last++
	}
	for pos := 0; pos < last; pos++ {
		for v := 0; v < 256; v++ {
			if insert {
				buf = append(append(append(buf[:0], sk[:pos]...), byte(v)), sk[pos:]...)
			} else {
				buf = append(buf[:0], sk...)
				buf[pos] = byte(v)
			}
			cnt++
			if checkValid(c, "byte-sweep", buf) {
				valid++
			}
			consumers(c, buf)
		}
	}
	c.Inner(cnt)
	c.NontrivialStr("sweep", string(sk), fmt.Sprint(insert))
	c.Count("valid_documents", valid)
	c.Outcome(fmt.Sprintf("insert=%v", insert))
	if c.WantSample() || c.Failed() {
		c.Case(map[string]any{"skeleton": string(sk), "mode": map[bool]string{true: "insert", false: "replace"}[insert], "documents": cnt, "valid": valid})
	}
}

// ---- histories of Encoder setter calls: the last call of each setter decides, whatever came before

type setterProbe struct {
	R json.RawMessage
	M map[string]int
	S string
}

// ---- syntax-only consumers that are used more than once: a destination that already holds members

func reusedDestinations(c *explore.Ctx) {
	docs := []string{`{"a":1}`, `{"b":[2,{"x":null}]}`, `{,"c":3}`, `{}`, `{"a":1,}`, `{"a":1 "b":2}`, `{"d":{"e":"f"},"a":0}`, ` { "a" : tru } `, `{"a":01}`, `null`}
	first := docs[c.Choose(len(docs))]
	second := docs[c.Choose(len(docs))]
	third := docs[c.Choose(len(docs))]
	targets := []struct {
		name string
		mk   func() any
	}{
		{"map[string]RawMessage", func() any { return new(map[string]json.RawMessage) }},
		{"map[string]any", func() any { return new(map[string]any) }},
		{"struct with RawMessage and skipped members", func() any {
			return new(struct {
				A json.RawMessage `json:"a"`
			})
		}},
		{"RawMessage", func() any { return new(json.RawMessage) }},
		{"[]RawMessage via wrapping", func() any { return new(map[string][]json.RawMessage) }},
	}
	for _, tg := range targets {
		x := tg.mk()
		hist := ""
		for _, d := range []string{first, second, third} {
			doc := d
			if tg.name == "[]RawMessage via wrapping" {
				doc = `{"k":[` + d + `]}`
			}
			want := stdjson.Valid([]byte(doc))
			var err error
			if pv, ps := explore.Catch(func() { err = json.Unmarshal([]byte(doc), x) }); pv != nil {
				c.Fail("reused-destination:panic:"+ps, "Unmarshal(%s) into a used %s panics after %s: %v", doc, tg.name, hist, pv)
				break
			}
			// all of these targets take any valid document of their shape: acceptance is a matter of syntax
			// (a valid document that is not an object is a type error for the map and struct targets)
			isObj := len(strings.TrimSpace(doc)) > 0 && (strings.TrimSpace(doc)[0] == '{' || strings.TrimSpace(doc) == "null")
			if tg.name == "RawMessage" {
				isObj = true
			}
			if want && isObj && err != nil {
				c.Fail("reused-destination:rejects-valid:"+tg.name, "after %s, Unmarshal(%s) into the same %s fails: %v", hist, doc, tg.name, err)
			} else if !want && err == nil {
				c.Fail("reused-destination:accepts-invalid:"+tg.name, "after %s, Unmarshal(%s) into the same %s succeeds", hist, doc, tg.name)
			}
			hist += doc + "; "
		}
	}
	c.NontrivialStr("reused", first, second, third)
	c.Outcome("reused")
	if c.WantSample() || c.Failed() {
		c.Case(map[string]any{"documents": []string{first, second, third}, "targets": len(targets)})
	}
}

func encoderSetters(c *explore.Ctx) {
	n := c.Choose(4)                                       // 0..3 setter calls
	esc, sorted, trust, newline := true, true, false, true // what NewEncoder starts with
	var hist []string
	var buf bytes.Buffer
	enc := json.NewEncoder(&buf)
	for i := 0; i < n; i++ {
		op := c.Choose(8)
		on := op%2 == 0
		switch op / 2 {
		case 0:
			enc.SetEscapeHTML(on)
			esc = on
			hist = append(hist, fmt.Sprintf("SetEscapeHTML(%v)", on))
		case 1:
			enc.SetSortMapKeys(on)
			sorted = on
			hist = append(hist, fmt.Sprintf("SetSortMapKeys(%v)", on))
		case 2:
			enc.SetTrustRawMessage(on)
			trust = on
			hist = append(hist, fmt.Sprintf("SetTrustRawMessage(%v)", on))
		case 3:
			enc.SetAppendNewline(on)
			newline = on
			hist = append(hist, fmt.Sprintf("SetAppendNewline(%v)", on))
		}
	}
	var flags json.AppendFlags
	if esc {
		flags |= json.EscapeHTML
	}
	if sorted {
		flags |= json.SortMapKeys
	}
	if trust {
		flags |= json.TrustRawMessage
	}
	desc := "NewEncoder; " + strings.Join(hist, "; ")
	probes := []struct {
		name string
		v    any
	}{
		{"valid raw message", setterProbe{R: json.RawMessage(` [1 , "<x>"] `), M: map[string]int{"b": 1, "a": 2, "<c>": 3}, S: "<&>"}},
		{"malformed raw message", setterProbe{R: json.RawMessage(`{"a":1,}`), M: map[string]int{"k": 1}, S: "s"}},
		{"raw message with trailing garbage", []any{json.RawMessage(`1 2`)}},
		{"empty raw message", map[string]json.RawMessage{"e": json.RawMessage(``)}},
		// after values that were refused, a valid one: a refusal says nothing about the next value
		{"valid raw message after refused ones", setterProbe{R: json.RawMessage(`{"k":[true , null]}`), M: map[string]int{"z": 1}, S: "ok"}},
		{"plain value after refused ones", []any{"x", 1.5, map[string]any{"k": json.RawMessage(`[ ]`)}}},
	}
	for _, pr := range probes {
		buf.Reset()
		var err error
		if pv, ps := explore.Catch(func() { err = enc.Encode(pr.v) }); pv != nil {
			c.Fail("setters:panic:"+ps, "Encode(%s) panics after %s: %v", pr.name, desc, pv)
			continue
		}
		want, werr := json.Append(nil, pr.v, flags)
		if invalidRaw := strings.Contains(pr.name, "malformed") || strings.Contains(pr.name, "garbage") || strings.Contains(pr.name, "empty"); invalidRaw && flags&json.TrustRawMessage == 0 && (err == nil || werr == nil) {
			// whatever the other settings: without trust, a value that Valid rejects is refused
			c.Fail("setters:invalid-raw-message-let-through:"+pr.name, "after %s (trust off), Encode(%s) returns %v and writes %q; Append with the same flags returns %v", desc, pr.name, err, buf.String(), werr)
			continue
		}
		if (err == nil) != (werr == nil) {
			if err == nil {
				c.Fail("setters:accepts:"+pr.name, "after %s, Encode(%s) writes %q; Append with the flags these calls select fails: %v", desc, pr.name, buf.String(), werr)
			} else {
				c.Fail("setters:rejects:"+pr.name, "after %s, Encode(%s) fails: %v; Append with the flags these calls select succeeds", desc, pr.name, err)
			}
			continue
		}
		if err != nil {
			continue
		}
		if newline {
			want = append(want, '\n')
		}
		got := buf.Bytes()
		if sorted || !strings.HasPrefix(pr.name, "valid raw message") {
			if !bytes.Equal(got, want) {
				c.Fail("setters:bytes-differ:"+pr.name, "after %s, Encode(%s) writes %q; the flags these calls select give %q", desc, pr.name, got, want)
			}
		} else {
			var g, w any
			e1, e2 := stdjson.Unmarshal(got, &g), stdjson.Unmarshal(want, &w)
			if e1 != nil || e2 != nil || !reflect.DeepEqual(g, w) || len(got) != len(want) {
				c.Fail("setters:content-differs:"+pr.name, "after %s, Encode(%s) writes %q; the flags these calls select give %q", desc, pr.name, got, want)
			}
		}
	}
	c.NontrivialStr("setters", desc)
	c.Outcome(fmt.Sprintf("calls=%d trust=%v", n, trust))
	if c.WantSample() || c.Failed() {
		c.Case(map[string]any{"history": desc, "flags": int(flags)})
	}
}

func stringSweep(c *explore.Ctx) {
	maxBody := 40
	if c.Thorough() {
		maxBody = 72
	}
	n := c.Choose(maxBody + 1)
	ctx := contexts[c.Choose(len(contexts))]
	body := bytes.Repeat([]byte{'a'}, n)
	var cnt, valid int64
	doc := make([]byte, 0, 128)
	run := func(withConsumers bool) {
		doc = append(append(append(append(append(doc[:0], ctx.pre...), '"'), body...), '"'), ctx.post...)
		cnt++
		if checkValid(c, "string-sweep", doc) {
			valid++
		}
		if withConsumers {
			consumers(c, doc)
		}
	}
	run(true)
	for pos := 0; pos < n; pos++ {
		for v := 0; v < 256; v++ {
			body[pos] = byte(v)
			special := v == '"' || v == '\\' || v < 0x20 || v == 0x7f || v == 0x80 || v == 0xff
			run(special && (pos < 2 || pos == n-1 || pos == 7 || pos == 8 || pos == 15 || pos == 16))
		}
		body[pos] = 'a'
	}
	// escape pairs at every position: backslash followed by each interesting byte
	for pos := 0; pos+1 < n; pos++ {
		body[pos] = '\\'
		for _, e := range []byte{'"', '\\', '/', 'b', 'f', 'n', 'r', 't', 'u', 'a', 'x', '0', 0x00, ' ', 0x80} {
			body[pos+1] = e
			run(false)
		}
		body[pos], body[pos+1] = 'a', 'a'
	}
	c.Inner(cnt)
	c.Nontrivial(uint64(n)<<8 | uint64(len(ctx.pre)))
	c.Count("valid_documents", valid)
	c.Outcome(fmt.Sprintf("valid>0=%v", valid > 0))
	if c.WantSample() {
		c.Case(map[string]any{"body_len": n, "context": ctx.pre + `"…"` + ctx.post, "sweep": "every position x all 256 byte values; backslash+15 escape bytes at every position", "valid": valid})
	}
}

var hexClasses = []byte{'0', '9', 'a', 'f', 'A', 'F', 'g', 'G', '/', ':', '@', '`', '"', '\\', ' ', 0x00, 0x80, 'u', '-', '+'}

func unicodeEscapes(c *explore.Ctx) {
	pad := c.Choose(19) // bytes before the escape: moves it across the 8/16-byte scan windows
	tailLen := c.Choose(3)
	pos := c.Choose(4)
	var cnt int64
	for _, x := range hexClasses {
		for _, y := range hexClasses {
			digits := []byte("0041")
			digits[pos] = x
			digits[(pos+1)%4] = y
			doc := `"` + strings.Repeat("a", pad) + `\u` + string(digits) + strings.Repeat("b", tailLen) + `"`
			checkValid(c, "unicode-escape", []byte(doc))
			cnt++
			if pad < 2 {
				consumers(c, []byte(doc))
			}
			// truncated escapes
			for cut := 1; cut <= 5 && pad < 3 && x == '0'; cut++ {
				d := `"` + strings.Repeat("a", pad) + `\u` + string(digits[:cut-1]) + `"`
				checkValid(c, "unicode-escape", []byte(d))
				cnt++
			}
		}
	}
	// every byte value at this digit position (single deviation from \u0041)
	for v := 0; v < 256; v++ {
		digits := []byte("0041")
		digits[pos] = byte(v)
		doc := []byte(`"` + strings.Repeat("a", pad) + `\u` + string(digits) + strings.Repeat("b", tailLen) + `"`)
		checkValid(c, "unicode-escape", doc)
		cnt++
		if pad < 2 && tailLen == 0 {
			consumers(c, doc)
		}
	}
	c.Inner(cnt)
	c.Nontrivial(uint64(pad)<<16 | uint64(tailLen)<<8 | uint64(pos))
	c.Outcome("escapes")
	if c.WantSample() {
		c.Case(map[string]any{"pad": pad, "tail": tailLen, "digit_position": pos, "classes": string(hexClasses)})
	}
}

var numAlphabet = []byte{'-', '+', '0', '1', '9', '.', 'e', 'E'}

func numbers(c *explore.Ctx) {
	L := 1 + c.Choose(6)
	first := c.Choose(len(numAlphabet))
	wrapI := c.Choose(4)
	wraps := []struct{ pre, post string }{{"", ""}, {"[", "]"}, {" ", " "}, {`{"a":`, "}"}}
	w := wraps[wrapI]
	idx := make([]int, L)
	idx[0] = first
	var cnt, valid int64
	for {
		doc := []byte(w.pre)
		for _, i := range idx {
			doc = append(doc, numAlphabet[i])
		}
		doc = append(doc, w.post...)
		cnt++
		if checkValid(c, "numbers", doc) {
			valid++
			c.NontrivialBytes(doc)
		}
		if L <= 4 && wrapI == 0 {
			consumers(c, doc)
		}
		i := L - 1
		for ; i >= 1; i-- {
			idx[i]++
			if idx[i] < len(numAlphabet) {
				break
			}
			idx[i] = 0
		}
		if i < 1 {
			break
		}
	}
	c.Inner(cnt)
	c.Outcome(fmt.Sprintf("valid>0=%v", valid > 0))
	if c.WantSample() {
		c.Case(map[string]any{"length": L, "first": string(numAlphabet[first]), "context": w.pre + "…" + w.post, "valid": valid})
	}
}

// ---- family: Decoder framing across buffer refills (32 KiB initial buffer, doubling)

var refillFirst = []string{"plain", "backslash", "nonprint"}
var refillLater = []string{`"plain"`, `"x\"y"`, `"x\\"`, "\"x\x7fy\"", `"é"`, "\"x\x01y\"", `"x\qy"`, `{"k\"":"v\\"}`, `"unterminated`, "true", "false", "null", "-12.5e+3", "fals", "nul", `["a",false,{"b":null}]`}

func decoderRefill(c *explore.Ctx) {
	first := c.Choose(len(refillFirst))
	later := refillLater[c.Choose(len(refillLater))]
	shape := c.Choose(3) // 0: one big array value; 1: stream of values; 2: one big object value
	delta := c.Choose(25) - 12
	// head: content that fills the first buffer (32768 bytes) up to boundary+delta
	boundary := 32768
	var head string
	switch refillFirst[first] {
	case "plain":
		head = `"aaaaaaa"`
	case "backslash":
		head = `"aaa\\aa"`
	case "nonprint":
		head = "\"aaa\x7faaa\""
	}
	var sb strings.Builder
	sep := ","
	switch shape {
	case 0:
		sb.WriteString("[")
	case 1:
		sep = "\n"
	case 2:
		sb.WriteString(`{"a":[`)
	}
	sb.WriteString(head)
	filler := `"bbbbbbb"`
	for sb.Len()+len(sep)+len(filler)+len(sep) <= boundary+delta-1 {
		sb.WriteString(sep)
		sb.WriteString(filler)
	}
	// pad with spaces so that the interesting token starts exactly at boundary+delta
	sb.WriteString(sep)
	for sb.Len() < boundary+delta {
		sb.WriteString(" ")
	}
	sb.WriteString(later)
	sb.WriteString(sep)
	sb.WriteString(`"tail"`)
	switch shape {
	case 0:
		sb.WriteString("]")
	case 2:
		sb.WriteString("]}")
	}
	doc := []byte(sb.String())
	checkValid(c, "refill-doc", doc)
	s, r := drainSeg(doc), drainStd(doc)
	site := "Decoder-refill"
	if len(s.vals) != len(r.vals) || s.eof != r.eof {
		c.Fail(fmt.Sprintf("%s:values-differ:eof=%v/%v:first=%s", site, s.eof, r.eof, refillFirst[first]), "%s: %d-byte stream (first buffer %s, then %s at offset %d): segmentio yields %d values (clean EOF %v), encoding/json %d (clean EOF %v)", site, len(doc), refillFirst[first], later, boundary+delta, len(s.vals), s.eof, len(r.vals), r.eof)
	} else {
		for i := range s.vals {
			if s.vals[i] != r.vals[i] {
				c.Fail(site+":value-bytes", "%s: value %d differs (len %d vs %d)", site, i, len(s.vals[i]), len(r.vals[i]))
				break
			}
		}
	}
	c.NontrivialStr("refill", refillFirst[first], later, fmt.Sprint(shape, delta))
	c.Outcome(fmt.Sprintf("values=%d eof=%v", min(len(r.vals), 2), r.eof))
	if c.WantSample() {
		c.Case(map[string]any{"first_buffer": refillFirst[first], "token_after_boundary": later, "token_offset": boundary + delta, "shape": shape, "stream_len": len(doc)})
	}
}

// ---- family: nesting ladder

func nesting(c *explore.Ctx) {
	depths := []int{1, 2, 3, 5, 8, 12, 100, 1000, 9999, 10000, 10001, 100000}
	depth := depths[c.Choose(len(depths))]
	kind := c.Choose(4)
	closeOK := c.Choose(3) // 0 balanced, 1 one closer missing, 2 one closer too many
	var open, close_ string
	switch kind {
	case 0:
		open, close_ = "[", "]"
	case 1:
		open, close_ = `{"a":`, "}"
	case 2:
		open, close_ = `[{"a":`, "}]"
	case 3:
		open, close_ = `[1,`, "]"
	}
	nClose := depth
	if closeOK == 1 {
		nClose--
	} else if closeOK == 2 {
		nClose++
	}
	innerIdx := c.Choose(6)
	inner := []string{"0", "", "[]", "{}", `"s"`, "[ ]"}[innerIdx]
	doc := []byte(strings.Repeat(open, depth) + inner + strings.Repeat(close_, nClose))
	if kind == 2 {
		depth *= 2
	}
	checkValid(c, fmt.Sprintf("nesting(depth%s10000)", map[bool]string{true: ">", false: "<="}[depth > 10000]), doc)
	// Decoding into interfaces costs time quadratic in the depth (seconds at 10^4 levels): the quick tier runs the
	// consumers on every innermost value at the limit itself and on two of them just below and above it.
	if depth <= 10001 && (c.Thorough() || depth < 9999 || depth == 10000 || innerIdx == 0 || innerIdx == 2) {
		consumers(c, doc)
	}
	c.NontrivialStr("nest", fmt.Sprint(depth, kind, closeOK, inner))
	c.Outcome(fmt.Sprintf("balanced=%v deep=%v", closeOK == 0, depth > 10000))
	c.Case(map[string]any{"depth": depth, "open": open, "innermost": inner, "closers": nClose})
}

// Spec returns the C05 check.
func Spec() *explore.Spec {
	return &explore.Spec{
		ID: "C05",
		Families: []*explore.Family{
			{Name: "byte-strings", ShardDepth: 3, Body: byteStrings, Doc: "all byte strings up to length 6 (quick) / 7 (thorough) over a 27-byte class alphabet; every syntax-only consumer on all strings up to length 4 / 5"},
			{Name: "token-strings", ShardDepth: 3, Body: tokenStrings, Doc: "all token sequences up to 6 / 8 over 16 tokens; consumers up to 4 / 5"},
			{Name: "byte-sweep", ShardDepth: 2, Body: byteSweep, Doc: "21 small documents and streams with white space in every kind of gap: every byte value 0..255 substituted at, and inserted before, every position (and appended); Valid and every syntax-only consumer compared with encoding/json on each"},
			{Name: "reused-destinations", ShardDepth: 2, Body: reusedDestinations, Doc: "every sequence of 3 of 10 documents (valid objects, a leading comma, a trailing comma, a missing comma, a bad literal, a leading zero, null) decoded one after the other into the same destination of 5 kinds whose members are only checked for syntax (map[string]RawMessage, map[string]any, a struct with a RawMessage and skipped members, RawMessage, lists of RawMessage): accepted exactly when Valid accepts, whatever the destination already holds"},
			{Name: "encoder-setters", ShardDepth: 2, Body: encoderSetters, Doc: "every history of 0-3 calls of the Encoder setters (EscapeHTML, SortMapKeys, TrustRawMessage, AppendNewline x on/off) followed by 6 probes on the same Encoder (valid, malformed, trailing-garbage and empty RawMessage values, then two valid values again): error presence and bytes equal Append with the flags the last call of each setter selects - an invalid RawMessage is rejected unless trust is on"},
			{Name: "string-sweep", ShardDepth: 2, Body: stringSweep, Doc: "string body length 0..40/72 x every position x all 256 byte values x 5 input-wide contexts; escapes at every position"},
			{Name: "unicode-escapes", ShardDepth: 2, Body: unicodeEscapes, Doc: "\\uXXXX with every pair of hex-digit classes at every digit position, at every offset 0..18"},
			{Name: "numbers", ShardDepth: 3, Body: numbers, Doc: "all strings up to length 6 over {- + 0 1 9 . e E} in 4 contexts"},
			{Name: "decoder-refill", ShardDepth: 2, Body: decoderRefill, Doc: "streams longer than the Decoder's 32 KiB buffer: first-buffer content class x token class placed at every offset -12..+12 around the refill boundary x 3 stream shapes, framing compared with encoding/json"},
			{Name: "nesting", ShardDepth: 4, Body: nesting, HangSeconds: 300, Doc: "nesting ladder 1..100000 x 4 container kinds x 6 innermost values (scalar, nothing, empty containers with and without white space) x balanced / missing / surplus closer"},
		},
		Rule: "exhaustive enumeration of byte strings / token sequences over class alphabets plus complete single-deviation sweeps; distinct non-trivial = distinct valid documents (hashed) and sweep blocks",
		Assumptions: []string{
			"encoding/json (go1.23.5) Valid / Unmarshal / Marshal / Decoder are the specification",
			"class alphabets are chosen from the byte comparisons in json/parse.go; bytes outside them are covered by the full 256-value single-deviation string sweeps only",
		},
	}
}

// Package c07: proto decoding is total and ignores unknown fields (DESIGN.md §5 C07).
package c07

import (
	"bytes"
	"fmt"
	"reflect"
	"runtime/debug"
	"runtime/metrics"
	"verif/mc/guardpage"

	"github.com/segmentio/encoding/proto"
	"google.golang.org/protobuf/encoding/protowire"
	"verif/mc/explore"
	"verif/mc/gen/pgen"
)

var allocSample = []metrics.Sample{{Name: "/gc/heap/allocs:bytes"}}

func allocated() uint64 {
	metrics.Read(allocSample)
	return allocSample[0].Value.Uint64()
}

func budget(n int) uint64 { return 1<<20 + 1024*uint64(n) }

// target types: every 1-field shape of the full palette plus a few multi-field ones.
type target struct {
	msg  *pgen.Msg
	name string
}

var targets = func() []target {
	var out []target
	c := 0
	for _, f := range pgen.Palette(2) {
		m := (&pgen.Msg{Fields: []pgen.Field{f, {Elem: pgen.Elem{Kind: pgen.Int32}}}})
		m.Fields[0].Number, m.Fields[1].Number = 1, 2
		m.Build()
		out = append(out, target{m, m.String()})
		c++
	}
	return out
}()

// quickTargets is a representative subset covering every codec.
var quickTargets = func() []int {
	seen := map[string]bool{}
	var idx []int
	for i, t := range targets {
		f := t.msg.Fields[0]
		key := fmt.Sprint(f.Elem.Kind, f.Elem.Enc, f.Wrap, f.Key, f.KeyEnc)
		if f.Elem.Kind == pgen.Message {
			key = fmt.Sprint("msg", f.Wrap, len(f.Elem.Msg.Fields), f.Elem.Msg.Fields)
			if len(key) > 60 {
				key = key[:60]
			}
		}
		if !seen[key] {
			seen[key] = true
			idx = append(idx, i)
		}
	}
	return idx
}()

// edgeInputs: the families that only ask for totality hand every input to the package in a buffer that ends at
// the last byte before an inaccessible page (a read beyond the input faults; the fault surfaces as a panic).
var (
	edgeInputs bool
	edge       *guardpage.Region
)

func atEdge(in []byte) []byte {
	if !edgeInputs || len(in) > 4096 {
		return in
	}
	if edge == nil {
		edge = guardpage.New()
	}
	debug.SetPanicOnFault(true)
	return edge.AtEnd(in)
}

// decode runs Unmarshal into a fresh target under the monitor. It returns the decoded value when err == nil.
func decode(c *explore.Ctx, t target, in []byte, site string) (reflect.Value, error, bool) {
	out := reflect.New(t.msg.Type)
	var err error
	in = atEdge(in)
	if !warmed[t.msg.Type] { // codec construction (and the cache copy it triggers) is not part of the measured decode
		warmed[t.msg.Type] = true
		explore.Catch(func() {
			proto.Unmarshal([]byte{}, reflect.New(t.msg.Type).Interface())
			proto.Unmarshal([]byte{0xf8, 0xff, 0xff, 0xff, 0x0f, 0x00}, reflect.New(t.msg.Type).Interface())
		})
	}
	before := allocated()
	pv, ps := explore.Catch(func() { err = proto.Unmarshal(in, out.Interface()) })
	used := allocated() - before
	if pv != nil {
		c.Fail("Unmarshal:panic:"+ps+":"+explore.PanicClass(pv), "Unmarshal(% x) into %s panicked: %v [%s]", trunc(in), t.name, pv, site)
		return out, nil, false
	}
	// allocation statistics are flushed lazily by the runtime, so one reading can
	// include earlier allocations: only a reproducible excess counts
	for rep := 0; rep < 3 && used > budget(len(in)); rep++ {
		b0 := allocated()
		explore.Catch(func() { proto.Unmarshal(in, reflect.New(t.msg.Type).Interface()) })
		if u := allocated() - b0; u < used {
			used = u
		}
	}
	if used > budget(len(in)) {
		c.Fail("Unmarshal:alloc:"+fieldShape(t), "Unmarshal of %d bytes (% x) into %s allocated %d bytes [%s]", len(in), trunc(in), t.name, used, site)
	}
	return out, err, true
}

var warmed = map[reflect.Type]bool{}

func fieldShape(t target) string {
	s := t.msg.Fields[0].String()
	if len(s) > 60 {
		s = s[:60]
	}
	return s
}

func trunc(b []byte) []byte {
	if len(b) > 40 {
		return b[:40]
	}
	return b
}

type rawField struct {
	num protowire.Number
	typ protowire.Type
	raw string
}

// scanSeg enumerates top-level fields with proto.Scan.
func scanSeg(c *explore.Ctx, in []byte, site string) ([]rawField, error, bool) {
	var fields []rawField
	var err error
	in = atEdge(in)
	before := allocated()
	pv, ps := explore.Catch(func() {
		err = proto.Scan(in, func(f proto.FieldNumber, t proto.WireType, v proto.RawValue) (bool, error) {
			fields = append(fields, rawField{protowire.Number(f), protowire.Type(t), string(v)})
			return true, nil
		})
	})
	used := allocated() - before
	if pv != nil {
		c.Fail("Scan:panic:"+ps+":"+explore.PanicClass(pv), "Scan(% x) panicked: %v [%s]", trunc(in), pv, site)
		return nil, nil, false
	}
	for rep := 0; rep < 3 && used > budget(len(in)); rep++ { // lazily flushed allocation statistics: only a reproducible excess counts
		b0 := allocated()
		explore.Catch(func() {
			proto.Scan(in, func(proto.FieldNumber, proto.WireType, proto.RawValue) (bool, error) { return true, nil })
		})
		if u := allocated() - b0; u < used {
			used = u
		}
	}
	if used > budget(len(in)) {
		c.Fail("Scan:alloc", "Scan of %d bytes allocated %d bytes [%s]", len(in), used, site)
	}
	return fields, err, true
}

// walkRef enumerates top-level fields with protowire; ok=false if protowire
// rejects the input or it contains groups / field number 0 (outside the comparison).
func walkRef(in []byte) (fields []rawField, ok bool) {
	for len(in) > 0 {
		num, typ, n := protowire.ConsumeTag(in)
		if n < 0 || num < 1 {
			return nil, false
		}
		in = in[n:]
		var raw []byte
		switch typ {
		case protowire.VarintType:
			_, m := protowire.ConsumeVarint(in)
			if m < 0 {
				return nil, false
			}
			raw, in = in[:m], in[m:]
		case protowire.Fixed32Type:
			if len(in) < 4 {
				return nil, false
			}
			raw, in = in[:4], in[4:]
		case protowire.Fixed64Type:
			if len(in) < 8 {
				return nil, false
			}
			raw, in = in[:8], in[8:]
		case protowire.BytesType:
			v, m := protowire.ConsumeBytes(in)
			if m < 0 {
				return nil, false
			}
			raw, in = v, in[m:]
		default:
			return nil, false
		}
		fields = append(fields, rawField{num, typ, string(raw)})
	}
	return fields, true
}

type empty struct{}

// checkScan compares Scan with the protowire walk and with Unmarshal's acceptance.
func checkScan(c *explore.Ctx, in []byte, typedAccepts bool, site string) {
	got, serr, ok := scanSeg(c, in, site)
	if !ok {
		return
	}
	want, wellFormed := walkRef(in)
	var e empty
	var uerr error
	if pv, ps := explore.Catch(func() { uerr = proto.Unmarshal(in, &e) }); pv != nil {
		c.Fail("Unmarshal(struct{}):panic:"+ps+":"+explore.PanicClass(pv), "Unmarshal(% x, &struct{}{}) panicked: %v", trunc(in), pv)
		return
	}
	if wellFormed {
		if serr != nil {
			c.Fail("Scan:rejects-wellformed", "Scan(% x) fails (%v) on a well-formed message [%s]", trunc(in), serr, site)
		} else if !sameFields(got, want) {
			c.Fail("Scan:fields-differ-from-reference", "Scan(% x) enumerates %v, reference walk %v [%s]", trunc(in), got, want, site)
		}
		if uerr != nil {
			c.Fail("Unmarshal(struct{}):rejects-wellformed", "Unmarshal(% x, &struct{}{}) fails (%v) on a well-formed message: unknown fields must be skipped [%s]", trunc(in), uerr, site)
		}
	}
	// whenever Unmarshal accepts, Scan accepts
	if (uerr == nil || typedAccepts) && serr != nil {
		c.Fail("Scan:rejects-what-Unmarshal-accepts", "Scan(% x) fails (%v) but Unmarshal accepted (struct{}: %v, typed: %v) [%s]", trunc(in), serr, uerr == nil, typedAccepts, site)
	}
	// RawValue accessors on Parse output
	if serr == nil {
		for _, f := range got {
			v := proto.RawValue(f.raw)
			switch f.typ {
			case protowire.VarintType:
				w, n := protowire.ConsumeVarint([]byte(f.raw))
				if n > 0 && v.Varint() != w {
					c.Fail("RawValue.Varint", "RawValue(% x).Varint()=%d want %d", f.raw, v.Varint(), w)
				}
			case protowire.Fixed32Type:
				w, _ := protowire.ConsumeFixed32([]byte(f.raw))
				if v.Fixed32() != w {
					c.Fail("RawValue.Fixed32", "RawValue(% x).Fixed32()=%d want %d", f.raw, v.Fixed32(), w)
				}
			case protowire.Fixed64Type:
				w, _ := protowire.ConsumeFixed64([]byte(f.raw))
				if v.Fixed64() != w {
					c.Fail("RawValue.Fixed64", "RawValue(% x).Fixed64()=%d want %d", f.raw, v.Fixed64(), w)
				}
			}
		}
	}
}

func sameFields(a, b []rawField) bool {
	if len(a) != len(b) {
		return false
	}
	for i := range a {
		if a[i] != b[i] {
			return false
		}
	}
	return true
}

func pickTarget(c *explore.Ctx) target {
	if c.Thorough() {
		return targets[c.Choose(len(targets))]
	}
	return targets[quickTargets[c.Choose(len(quickTargets))]]
}

// ---- family: all short byte strings

var classBytes = []byte{0x00, 0x01, 0x02, 0x05, 0x08, 0x09, 0x0a, 0x0b, 0x0c, 0x0d, 0x10, 0x12, 0x15, 0x7f, 0x80, 0xff}

// ---- top-level targets that are not structs: Unmarshal hands the raw input to the scalar codecs, nothing delimits it

var topTargets = []reflect.Type{
	reflect.TypeOf(false), reflect.TypeOf(int(0)), reflect.TypeOf(int32(0)), reflect.TypeOf(int64(0)), reflect.TypeOf(uint(0)), reflect.TypeOf(uint32(0)), reflect.TypeOf(uint64(0)),
	reflect.TypeOf(float32(0)), reflect.TypeOf(float64(0)), reflect.TypeOf(""), reflect.TypeOf([]byte(nil)), reflect.TypeOf([8]byte{}), reflect.TypeOf(proto.RawMessage(nil)),
} // top-level maps and slices other than []byte are not supported types (codecOf panics by design)

func toplevelTargets(c *explore.Ctx) {
	t := topTargets[c.Choose(len(topTargets))]
	ptr := c.Choose(3) // T, *T, **T behind the pointer handed to Unmarshal
	tt := t
	for i := 0; i < ptr; i++ {
		tt = reflect.PointerTo(tt)
	}
	var n int64
	run := func(in []byte) {
		n++
		edgeInputs = true
		in = atEdge(in) // the input ends at the last byte before an inaccessible page: reading past it faults
		edgeInputs = false
		out := reflect.New(tt)
		if pv, ps := explore.Catch(func() { proto.Unmarshal(in, out.Interface()) }); pv != nil {
			c.Fail("toplevel:panic:"+ps+":"+explore.PanicClass(pv), "Unmarshal(% x) into a top-level %s panicked: %v", trunc(in), tt, pv)
		}
	}
	run(nil)
	for a := 0; a < 256; a++ {
		run([]byte{byte(a)})
		for b := 0; b < 256; b++ {
			run([]byte{byte(a), byte(b)})
		}
	}
	for l := 3; l <= 12; l++ {
		for _, fill := range []byte{0x00, 0x01, 0x7f, 0x80, 0xff, 0x0a, 0x08} {
			in := bytes.Repeat([]byte{fill}, l)
			run(in)
			for _, last := range []byte{0x00, 0x01, 0x7f} { // a varint that ends
				in[l-1] = last
				run(in)
			}
			for _, first := range []byte{0x08, 0x0a, 0x0d, 0x09, byte(l - 1), byte(l - 2), byte(l)} { // tags and lengths in front
				in[0] = first
				run(in)
			}
		}
	}
	c.Inner(n)
	c.NontrivialStr("toplevel", tt.String())
	c.Outcome(fmt.Sprintf("ptr=%d", ptr))
	if c.WantSample() || c.Failed() {
		c.Case(map[string]any{"target": tt.String(), "inputs": n})
	}
}

func shortBytes(c *explore.Ctx) {
	edgeInputs = true
	defer func() { edgeInputs = false }()
	t := pickTarget(c)
	mode := c.Choose(2)
	var n, accepted int64
	run := func(in []byte) {
		_, err, _ := decode(c, t, in, "short-bytes")
		n++
		if err == nil {
			accepted++
		}
		if len(in) <= 2 || mode == 1 && len(in) <= 3 {
			checkScan(c, in, err == nil, "short-bytes")
		}
	}
	if mode == 0 { // all byte values, length <= 2
		run(nil)
		for a := 0; a < 256; a++ {
			run([]byte{byte(a)})
			for b := 0; b < 256; b++ {
				run([]byte{byte(a), byte(b)})
			}
		}
	} else { // class alphabet, length <= 5 (thorough 6)
		maxL := 5
		if c.Thorough() {
			maxL = 6
		}
		buf := make([]byte, 0, 8)
		var rec func(d int)
		rec = func(d int) {
			run(buf)
			if d == maxL {
				return
			}
			for _, x := range classBytes {
				buf = append(buf, x)
				rec(d + 1)
				buf = buf[:len(buf)-1]
			}
		}
		rec(0)
	}
	c.Inner(n)
	c.Count("accepted", accepted)
	c.NontrivialStr("short", t.name, fmt.Sprint(mode))
	c.Outcome(fmt.Sprintf("accepted>1=%v", accepted > 1))
	if c.WantSample() {
		c.Case(map[string]any{"target": t.name, "mode": []string{"all byte strings <=2", "class alphabet <=5"}[mode], "inputs": n, "accepted": accepted})
	}
}

// all byte strings of length 3 over all 256 values, for a few targets
func length3(c *explore.Ctx) {
	edgeInputs = true
	defer func() { edgeInputs = false }()
	reps := []int{0, 1, 3, 9, 24, 30}
	t := targets[quickTargets[reps[c.Choose(len(reps))]%len(quickTargets)]]
	a := c.Choose(256)
	var accepted int64
	for b := 0; b < 256; b++ {
		for d := 0; d < 256; d++ {
			in := []byte{byte(a), byte(b), byte(d)}
			if _, err, _ := decode(c, t, in, "length3"); err == nil {
				accepted++
			}
		}
	}
	checkScan(c, []byte{byte(a), 0x80, 0x01}, false, "length3")
	c.Inner(65536)
	c.Nontrivial(uint64(a)<<16 | uint64(len(t.name)))
	c.Outcome(fmt.Sprintf("accepted>0=%v", accepted > 0))
	if c.WantSample() {
		c.Case(map[string]any{"target": t.name, "first_byte": a, "inputs": 65536, "accepted": accepted})
	}
}

// ---- family: mutations of valid encodings

func validEncoding(c *explore.Ctx, t target) (reflect.Value, []byte, bool) {
	f := &t.msg.Fields[0]
	dom := pgen.FieldDomain(f, false)
	k := c.Choose(min(len(dom), 6))
	v := reflect.New(t.msg.Type).Elem()
	v.Field(0).Set(dom[k])
	v.Field(1).SetInt(300)
	b, err := proto.Marshal(v.Addr().Interface())
	if err != nil {
		return v, nil, false
	}
	return v, b, true
}

var lengthSubst = []uint64{0, 1, 127, 128, 1<<31 - 1, 1 << 32, 1 << 63, 1<<64 - 1}

func mutations(c *explore.Ctx) {
	edgeInputs = true
	defer func() { edgeInputs = false }()
	t := pickTarget(c)
	_, e, ok := validEncoding(c, t)
	if !ok || len(e) > 600 {
		c.Outcome("skipped")
		return
	}
	var n int64
	// every prefix
	for cut := 0; cut <= len(e); cut++ {
		_, err, _ := decode(c, t, e[:cut], "prefix")
		checkScan(c, e[:cut], err == nil, "prefix")
		n++
	}
	// every single-byte corruption
	buf := make([]byte, len(e))
	for pos := 0; pos < len(e); pos++ {
		for v := 0; v < 256; v++ {
			copy(buf, e)
			buf[pos] = byte(v)
			_, err, _ := decode(c, t, buf, "corrupt")
			if v&0x1f == 0 || v == 0xff || v == 0x7f {
				checkScan(c, buf, err == nil, "corrupt")
			}
			n++
		}
	}
	// every byte position replaced by a varint of special value (length / varint field substitution)
	for pos := 0; pos < len(e); pos++ {
		for _, x := range lengthSubst {
			m := append(append(append([]byte{}, e[:pos]...), protowire.AppendVarint(nil, x)...), e[pos+1:]...)
			_, err, _ := decode(c, t, m, "varint-subst")
			checkScan(c, m, err == nil, "varint-subst")
			n++
		}
		// 11-byte varint
		m := append(append(append([]byte{}, e[:pos]...), 0x80, 0x80, 0x80, 0x80, 0x80, 0x80, 0x80, 0x80, 0x80, 0x80, 0x01), e[pos+1:]...)
		decode(c, t, m, "varint-overlong")
		checkScan(c, m, false, "varint-overlong")
		n++
	}
	c.Inner(n)
	c.NontrivialStr("mut", t.name, fmt.Sprintf("%x", e))
	c.Outcome(fmt.Sprintf("len>8=%v", len(e) > 8))
	if c.WantSample() {
		c.Case(map[string]any{"target": t.name, "valid_encoding": fmt.Sprintf("%x", trunc(e)), "mutations": n})
	}
}

// ---- family: unknown-field insertion

type unk struct {
	name string
	enc  func(num protowire.Number) []byte
}

var unknowns = []unk{
	{"varint1", func(n protowire.Number) []byte {
		return protowire.AppendVarint(protowire.AppendTag(nil, n, protowire.VarintType), 1)
	}},
	{"varint10", func(n protowire.Number) []byte {
		return protowire.AppendVarint(protowire.AppendTag(nil, n, protowire.VarintType), 1<<64-1)
	}},
	{"fixed64", func(n protowire.Number) []byte {
		return protowire.AppendFixed64(protowire.AppendTag(nil, n, protowire.Fixed64Type), 0x0102030405060708)
	}},
	{"fixed32", func(n protowire.Number) []byte {
		return protowire.AppendFixed32(protowire.AppendTag(nil, n, protowire.Fixed32Type), 0xfffefdfc)
	}},
	{"bytes0", func(n protowire.Number) []byte {
		return protowire.AppendBytes(protowire.AppendTag(nil, n, protowire.BytesType), nil)
	}},
	{"bytes1", func(n protowire.Number) []byte {
		return protowire.AppendBytes(protowire.AppendTag(nil, n, protowire.BytesType), []byte{0x08})
	}},
	{"bytes200", func(n protowire.Number) []byte {
		return protowire.AppendBytes(protowire.AppendTag(nil, n, protowire.BytesType), make([]byte, 200))
	}},
	{"nonminimal-tag", func(n protowire.Number) []byte {
		tag := protowire.AppendTag(nil, n, protowire.VarintType)
		tag[len(tag)-1] |= 0x80
		return append(append(tag, 0x00), 0x05)
	}},
}

// insertions returns every variant of b (an encoding of msg) with ins inserted at
// one field boundary, at the top level and inside message-typed fields (depth<=2).
func insertions(b []byte, msg *pgen.Msg, mk func(declared map[int]bool) [][]byte, depth int) [][]byte {
	declared := map[int]bool{}
	for _, f := range msg.Fields {
		if !f.Skip {
			declared[f.Number] = true
		}
	}
	var out [][]byte
	var bounds []int
	rest := b
	off := 0
	type sub struct {
		start, end, valStart int
		f                    *pgen.Field
	}
	var subs []sub
	bounds = append(bounds, 0)
	for len(rest) > 0 {
		num, typ, n := protowire.ConsumeTag(rest)
		if n < 0 {
			return out
		}
		m := protowire.ConsumeFieldValue(num, typ, rest[n:])
		if m < 0 {
			return out
		}
		if typ == protowire.BytesType && depth > 0 {
			for i := range msg.Fields {
				f := &msg.Fields[i]
				if !f.Skip && f.Number == int(num) && f.Elem.Kind == pgen.Message && (f.Wrap == pgen.Plain || f.Wrap == pgen.Ptr || f.Wrap == pgen.Slice || f.Wrap == pgen.SlicePtr) {
					_, ln := protowire.ConsumeVarint(rest[n:])
					subs = append(subs, sub{off, off + n + m, off + n + ln, f})
				}
			}
		}
		off += n + m
		rest = rest[n+m:]
		bounds = append(bounds, off)
	}
	for _, ins := range mk(declared) {
		for _, p := range bounds {
			out = append(out, append(append(append([]byte{}, b[:p]...), ins...), b[p:]...))
		}
	}
	for _, s := range subs {
		payload := b[s.valStart:s.end]
		for _, inner := range insertions(payload, s.f.Elem.Msg, mk, depth-1) {
			tagLen := func() int { _, _, n := protowire.ConsumeTag(b[s.start:]); return n }()
			v := append([]byte{}, b[:s.start+tagLen]...)
			v = protowire.AppendBytes(v, inner)
			v = append(v, b[s.end:]...)
			out = append(out, v)
		}
	}
	return out
}

func unknownInsertion(c *explore.Ctx) {
	t := pickTarget(c)
	_, e, ok := validEncoding(c, t)
	if !ok || len(e) > 400 {
		c.Outcome("skipped")
		return
	}
	base, err, _ := decode(c, t, e, "insertion-base")
	if err != nil {
		c.Outcome("skipped") // C03's business
		return
	}
	mk := func(declared map[int]bool) [][]byte {
		var nums []protowire.Number
		for n := 1; ; n++ {
			if !declared[n] {
				nums = append(nums, protowire.Number(n))
				break
			}
		}
		for _, n := range []int{1000, 65537, 1<<29 - 1} {
			if !declared[n] {
				nums = append(nums, protowire.Number(n))
			}
		}
		var out [][]byte
		for _, n := range nums {
			for _, u := range unknowns {
				out = append(out, u.enc(n))
			}
		}
		// runs: the same undeclared number two and three times in a row (a repeated field of a newer schema),
		// with the same and with another wire form, and two different undeclared numbers in a row
		n0 := nums[0]
		for i, u := range unknowns {
			v := unknowns[(i+1)%len(unknowns)]
			out = append(out, append(u.enc(n0), u.enc(n0)...), append(append(u.enc(n0), v.enc(n0)...), u.enc(n0)...))
			if len(nums) > 1 {
				out = append(out, append(u.enc(n0), u.enc(nums[1])...))
			}
		}
		return out
	}
	vars := insertions(e, t.msg, mk, 2)
	for _, in := range vars {
		got, err, ok := decode(c, t, in, "insertion")
		if !ok {
			continue
		}
		if err != nil {
			c.Fail("insertion:rejected:"+fieldShape(t), "unknown field inserted into % x -> % x: Unmarshal into %s fails: %v", trunc(e), trunc(in), t.name, err)
			continue
		}
		if ds := pgen.Diffs(base.Elem(), got.Elem()); len(ds) > 0 {
			c.Fail("insertion:value-changed:"+fieldShape(t), "unknown field inserted into % x -> % x changes the decoded value of %s at %s: %s", trunc(e), trunc(in), t.name, ds[0].Path, ds[0].Why)
		}
		checkScan(c, in, true, "insertion")
	}
	c.Inner(int64(len(vars)))
	c.NontrivialStr("ins", t.name, fmt.Sprintf("%x", e))
	c.Outcome(fmt.Sprintf("variants>30=%v", len(vars) > 30))
	if c.WantSample() {
		c.Case(map[string]any{"target": t.name, "valid_encoding": fmt.Sprintf("%x", trunc(e)), "insertion_variants": len(vars)})
	}
}

// ---- depth ladder: messages nested by the sender

type deepN struct {
	Next *deepN
	V    int32
	Kids []deepN
	M    map[int32]*deepN
}

var ladderDepths = []int{100, 9999, 10000, 10001, 100000, 1000000, 4000000}

// nestedMessages builds depth nested length-delimited fields from the inside out.
func nestedMessages(depth int, shape int) []byte {
	buf := make([]byte, depth*12+16)
	pos := len(buf)
	n := 0 // length of the payload built so far
	put := func(bs ...byte) {
		pos -= len(bs)
		copy(buf[pos:], bs)
		n += len(bs)
	}
	putVarint := func(v int) {
		var tmp [10]byte
		k := 0
		for v >= 0x80 {
			tmp[k] = byte(v) | 0x80
			v >>= 7
			k++
		}
		tmp[k] = byte(v)
		put(tmp[:k+1]...)
	}
	put(0x10, 0x07) // innermost: V = 7
	for i := 0; i < depth; i++ {
		switch shape {
		case 0: // Next (field 1)
			putVarint(n)
			put(0x0a)
		case 1: // Kids (field 3)
			putVarint(n)
			put(0x1a)
		case 2: // M (field 4): entry{key 1: 5, value 2: message}
			putVarint(n)
			put(0x08, 0x05, 0x12)
			putVarint(n)
			put(0x22)
		}
	}
	return buf[pos:]
}

func depthLadder(c *explore.Ctx) {
	shape := c.Choose(3)
	depth := ladderDepths[c.Choose(len(ladderDepths))]
	truncated := c.Bool()
	in := nestedMessages(depth, shape)
	if truncated {
		in = in[:len(in)-1]
	}
	name := []string{"pointer field", "repeated field", "map value"}[shape]
	var out deepN
	var err error
	if pv, ps := explore.Catch(func() { err = proto.Unmarshal(in, &out) }); pv != nil {
		c.Fail("depth:panic:"+ps+":"+explore.PanicClass(pv), "Unmarshal panics on messages nested %d deep through a %s: %v", depth, name, pv)
	} else if truncated && err == nil {
		c.Fail("depth:accepted-truncated", "Unmarshal accepts truncated messages nested %d deep through a %s", depth, name)
	}
	if pv, ps := explore.Catch(func() {
		proto.Scan(in, func(proto.FieldNumber, proto.WireType, proto.RawValue) (bool, error) { return true, nil })
	}); pv != nil {
		c.Fail("depth:Scan:panic:"+ps, "Scan panics on messages nested %d deep: %v", depth, pv)
	}
	c.NontrivialStr("depth", name, fmt.Sprint(depth, truncated))
	c.Outcome(fmt.Sprintf("err=%v", err != nil))
	c.Case(map[string]any{"shape": name, "depth": depth, "truncated": truncated, "input_bytes": len(in)})
}

// ---- growth of repeated fields

type growInner struct {
	X int64
	S string
}

type growInts struct{ A []int64 }
type growFixed struct {
	A []float64
}
type growStrs struct{ A []string }
type growBytes struct{ A [][]byte }
type growMsgs struct{ A []growInner }
type growPtrs struct{ A []*growInner }
type growInMap struct{ M map[string]growInts }
type growNested struct {
	N *growInts
	B int32
}

var growKinds = []struct {
	name string
	mk   func() any
	elem []byte // one occurrence of field 1 inside the message that holds the repeated field
	wrap func(payload []byte) []byte
	get  func(x any) int
}{
	{"[]int64", func() any { return new(growInts) }, []byte{0x08, 0x07}, nil, func(x any) int { return len(x.(*growInts).A) }},
	{"[]float64", func() any { return new(growFixed) }, []byte{0x09, 0, 0, 0, 0, 0, 0, 0xf0, 0x3f}, nil, func(x any) int { return len(x.(*growFixed).A) }},
	{"[]string", func() any { return new(growStrs) }, []byte{0x0a, 0x02, 'h', 'i'}, nil, func(x any) int { return len(x.(*growStrs).A) }},
	{"[][]byte", func() any { return new(growBytes) }, []byte{0x0a, 0x01, 0xff}, nil, func(x any) int { return len(x.(*growBytes).A) }},
	{"[]message", func() any { return new(growMsgs) }, []byte{0x0a, 0x04, 0x08, 0x01, 0x12, 0x00}, nil, func(x any) int { return len(x.(*growMsgs).A) }},
	{"[]*message", func() any { return new(growPtrs) }, []byte{0x0a, 0x02, 0x08, 0x05}, nil, func(x any) int { return len(x.(*growPtrs).A) }},
	{"map value", func() any { return new(growInMap) }, []byte{0x08, 0x07}, func(p []byte) []byte {
		entry := append([]byte{0x0a, 0x01, 'k', 0x12}, protowire.AppendVarint(nil, uint64(len(p)))...)
		entry = append(entry, p...)
		return append(append([]byte{0x0a}, protowire.AppendVarint(nil, uint64(len(entry)))...), entry...)
	}, func(x any) int { return len(x.(*growInMap).M["k"].A) }},
	{"nested message", func() any { return new(growNested) }, []byte{0x08, 0x07}, func(p []byte) []byte {
		return append(append(append([]byte{0x0a}, protowire.AppendVarint(nil, uint64(len(p)))...), p...), 0x10, 0x01)
	}, func(x any) int {
		if n := x.(*growNested).N; n != nil {
			return len(n.A)
		}
		return -1
	}},
}

var growCounts = []int{0, 1, 2, 3, 4, 5, 6, 7, 8, 9, 10, 11, 12, 16, 20, 21, 22, 23, 24, 33, 100, 1000}

func repeatedGrowth(c *explore.Ctx) {
	k := growKinds[c.Choose(len(growKinds))]
	n := growCounts[c.Choose(len(growCounts))]
	payload := bytes.Repeat(k.elem, n)
	in := payload
	if k.wrap != nil {
		in = k.wrap(payload)
	}
	run := func() (x any, err error, pv any, site string) {
		x = k.mk()
		pv, site = explore.Catch(func() { err = proto.Unmarshal(in, x) })
		return
	}
	run() // codec construction is not part of the measured decode
	b0 := allocated()
	x, err, pv, site := run()
	used := allocated() - b0
	desc := fmt.Sprintf("%d occurrences of a repeated field (%s), %d bytes", n, k.name, len(in))
	switch {
	case pv != nil:
		c.Fail("growth:panic:"+site+":"+explore.PanicClass(pv), "Unmarshal panics on %s: %v", desc, pv)
	case err != nil:
		c.Fail("growth:error:"+k.name, "Unmarshal fails on %s: %v", desc, err)
	case k.get(x) != n && !(n == 0 && k.get(x) <= 0):
		c.Fail("growth:elements-lost:"+k.name, "Unmarshal of %s yields %d elements", desc, k.get(x))
	}
	for rep := 0; rep < 3 && used > budget(len(in)); rep++ { // lazily flushed allocation statistics: only a reproducible excess counts
		b1 := allocated()
		run()
		if u := allocated() - b1; u < used {
			used = u
		}
	}
	if used > budget(len(in)) {
		c.Fail("growth:alloc:"+k.name, "Unmarshal of %s allocated %d bytes (bound %d)", desc, used, budget(len(in)))
	}
	// history: after one very long message of this kind, a short one is decoded again: what the package
	// remembers of the long one must not be paid for by the short one
	if n <= 12 && pv == nil && err == nil {
		long := bytes.Repeat(k.elem, 300000)
		if k.wrap != nil {
			long = k.wrap(long)
		}
		explore.Catch(func() { proto.Unmarshal(long, k.mk()) })
		after := ^uint64(0)
		for rep := 0; rep < 3; rep++ {
			b1 := allocated()
			run()
			if u := allocated() - b1; u < after {
				after = u
			}
		}
		if after > budget(len(in)) {
			c.Fail("growth:alloc-after-a-long-message:"+k.name, "after a message with 300000 occurrences, Unmarshal of %s allocates %d bytes (bound %d)", desc, after, budget(len(in)))
		}
	}
	c.NontrivialStr("growth", k.name, fmt.Sprint(n))
	c.Outcome(fmt.Sprintf("n>10=%v", n > 10))
	c.Case(map[string]any{"kind": k.name, "elements": n, "input_bytes": len(in), "allocated": used})
}

// Spec returns the C07 check.
func Spec() *explore.Spec {
	return &explore.Spec{
		ID: "C07",
		Families: []*explore.Family{
			{Name: "short-bytes", ShardDepth: 2, Body: shortBytes, Doc: "all byte strings <=2 over all 256 values and <=5 (6 thorough) over a 16-byte class alphabet x target types covering every codec"},
			{Name: "toplevel-targets", ShardDepth: 2, Body: toplevelTargets, Doc: "13 non-struct top-level targets (every scalar kind, string, []byte, [8]byte, RawMessage) reached as T, *T and **T x all byte strings <= 2 over all 256 values and 700 patterned strings of length 3..12, each in a buffer that ends at the last byte before an inaccessible page: no panic, no read beyond the input"},
			{Name: "length3", ShardDepth: 2, Body: length3, Doc: "all byte strings of length 3 over all 256 values for 6 representative targets"},
			{Name: "mutations", ShardDepth: 2, Body: mutations, Doc: "valid encodings of boundary values: every prefix, every (position x 256) corruption, every byte replaced by special varints (0,1,127,128,2^31-1,2^32,2^63,2^64-1, 11-byte)"},
			{Name: "depth-ladder", ShardDepth: 3, HangSeconds: 300, MaxWorkers: 8, Body: depthLadder, Doc: "messages nested 100 ... 4,000,000 deep by the sender through a pointer field, a repeated field and a map value of a recursive message type, complete and cut by one byte: an error or a value, no stack overflow"},
			{Name: "repeated-growth", ShardDepth: 2, Body: repeatedGrowth, Doc: "repeated fields of 8 element kinds (varint, fixed, string, bytes, message, pointer to message, inside a map value, inside a nested message) receiving 0..12, 16, 20..24, 33, 100, 1000 elements: decodes, keeps every element, and allocates within the bound (the backing array is regrown geometrically); the short ones again after a message with 300000 occurrences"},
			{Name: "unknown-insertion", ShardDepth: 2, Body: unknownInsertion, Doc: "one unknown field (4 numbers x 8 wire forms), and runs of two and three unknown fields (the same number in the same and in another wire form, two numbers), inserted at every top-level and nested field boundary of valid encodings; decoded value must not change"},
		},
		Rule: "exhaustive short inputs and complete mutation sets of valid encodings per target type; distinct non-trivial = distinct (target, mode/encoding) blocks",
		Assumptions: []string{
			"allocation budget per call: 1 MiB + 1024 x len(input), measured with runtime/metrics /gc/heap/allocs:bytes in the worker process",
			"protowire (google.golang.org/protobuf v1.25.0) is the reference walk; inputs with groups or field number 0 are outside the Scan comparison",
			"group wire types (3, 4) are not inserted as unknown fields (deprecated, rejected by the package by design)",
		},
	}
}

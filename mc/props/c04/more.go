package c04

import (
	"bytes"
	"fmt"
	"io"
	"reflect"
	"strings"

	"github.com/segmentio/encoding/thrift"
	"verif/mc/explore"
)

// ---- embedded structs: fields promoted through 1..5 levels of embedding keep their own ids and values

type Emb5 struct {
	X5 int32  `thrift:"9"`
	Y5 string `thrift:"10"`
	Z5 bool   `thrift:"11"`
}
type Emb4 struct {
	Emb5
	X4 int64   `thrift:"7"`
	Y4 float64 `thrift:"8"`
}
type Emb3 struct {
	Emb4
	X3 int16  `thrift:"5"`
	Y3 []byte `thrift:"6"`
}
type Emb2 struct {
	Emb3
	X2 int64   `thrift:"3"`
	Y2 []int32 `thrift:"4"`
}
type Emb1 struct {
	Emb2
	X1 int32  `thrift:"1"`
	Y1 string `thrift:"2"`
}
type embTop struct {
	Emb1
	W string `thrift:"12"`
}

// the same through embedded pointers (always non-nil in the values used)
type PEmb3 struct {
	X5 int32  `thrift:"9"`
	Y5 string `thrift:"10"`
	Z5 bool   `thrift:"11"`
	X4 int64  `thrift:"7"`
}
type PEmb2 struct {
	*PEmb3
	Y4 float64 `thrift:"8"`
	X3 int16   `thrift:"5"`
	Y3 []byte  `thrift:"6"`
}
type PEmb1 struct {
	*PEmb2
	X2 int64   `thrift:"3"`
	Y2 []int32 `thrift:"4"`
}
type pembTop struct {
	*PEmb1
	X1 int32  `thrift:"1"`
	Y1 string `thrift:"2"`
	W  string `thrift:"12"`
}

// mixed: two embedded siblings at the same level, each embedding further
type MixA struct {
	Emb5
	X4 int64   `thrift:"7"`
	Y4 float64 `thrift:"8"`
}
type MixB struct {
	X3 int16   `thrift:"5"`
	Y3 []byte  `thrift:"6"`
	X2 int64   `thrift:"3"`
	Y2 []int32 `thrift:"4"`
}
type MixMid struct {
	MixA
	MixB
}
type mixTop struct {
	X1 int32 `thrift:"1"`
	MixMid
	Y1 string `thrift:"2"`
	W  string `thrift:"12"`
}

type embFlat struct {
	X1 int32   `thrift:"1"`
	Y1 string  `thrift:"2"`
	X2 int64   `thrift:"3"`
	Y2 []int32 `thrift:"4"`
	X3 int16   `thrift:"5"`
	Y3 []byte  `thrift:"6"`
	X4 int64   `thrift:"7"`
	Y4 float64 `thrift:"8"`
	X5 int32   `thrift:"9"`
	Y5 string  `thrift:"10"`
	Z5 bool    `thrift:"11"`
	W  string  `thrift:"12"`
}

// flatValue: pattern 0 sets every field to a distinct value, pattern k sets only field k.
func FlatValue(pattern int) embFlat { return flatValue(pattern) }

func flatValue(pattern int) embFlat {
	full := embFlat{X1: 101, Y1: "y1", X2: 1 << 40, Y2: []int32{4, 44}, X3: 505, Y3: []byte("y3"), X4: -7 << 33, Y4: 8.5, X5: 909, Y5: "y5", Z5: true, W: "w"}
	if pattern == 0 {
		return full
	}
	var v embFlat
	reflect.ValueOf(&v).Elem().Field(pattern - 1).Set(reflect.ValueOf(full).Field(pattern - 1))
	return v
}

// setByName copies the fields of f into the (possibly embedding) struct pointed to by dst.
func SetByName(dst any, f embFlat) { setByName(dst, f) }

func setByName(dst any, f embFlat) {
	d := reflect.ValueOf(dst).Elem()
	fv := reflect.ValueOf(f)
	for i := 0; i < fv.NumField(); i++ {
		d.FieldByName(fv.Type().Field(i).Name).Set(fv.Field(i))
	}
}

func flatOf(src any) embFlat {
	var f embFlat
	s := reflect.ValueOf(src).Elem()
	fv := reflect.ValueOf(&f).Elem()
	for i := 0; i < fv.NumField(); i++ {
		fv.Field(i).Set(s.FieldByName(fv.Type().Field(i).Name))
	}
	return f
}

// EmbShapes is exported for C13 (bytes of embedding types).
var EmbShapes = embShapes

var embShapes = []struct {
	Name string
	Mk   func() any
}{
	{"fields promoted through 1..5 levels of embedded structs", func() any { return new(embTop) }},
	{"fields promoted through 1..3 levels of embedded pointers", func() any { return &pembTop{PEmb1: &PEmb1{PEmb2: &PEmb2{PEmb3: &PEmb3{}}}} }},
	{"two embedded siblings, one embedding further", func() any { return new(mixTop) }},
}

func normFlat(f embFlat) embFlat {
	if len(f.Y2) == 0 {
		f.Y2 = nil
	}
	if len(f.Y3) == 0 {
		f.Y3 = nil
	}
	return f
}

func embedded(c *explore.Ctx) {
	p := Protocols[c.Choose(len(Protocols))]
	sh := embShapes[c.Choose(len(embShapes))]
	pattern := c.Choose(13)
	want := flatValue(pattern)
	v := sh.Mk()
	setByName(v, want)
	desc := fmt.Sprintf("%s, value pattern %d, over %s", sh.Name, pattern, p.Name)
	var b, fb []byte
	var err error
	out, viaFlat := sh.Mk(), sh.Mk()
	var flatOut embFlat
	if pv, ps := explore.Catch(func() {
		if b, err = thrift.Marshal(p.P, v); err != nil {
			return
		}
		if err = thrift.Unmarshal(p.P, b, out); err != nil {
			return
		}
		if err = thrift.Unmarshal(p.P, b, &flatOut); err != nil {
			return
		}
		if fb, err = thrift.Marshal(p.P, want); err != nil {
			return
		}
		err = thrift.Unmarshal(p.P, fb, viaFlat)
	}); pv != nil {
		c.Fail("embedded:panic:"+ps, "panic: %v for %s", pv, desc)
		return
	}
	if err != nil {
		c.Fail("embedded:error", "error %v for %s", err, desc)
		return
	}
	w := normFlat(want)
	if g := normFlat(flatOf(out)); !reflect.DeepEqual(g, w) {
		c.Fail("embedded:roundtrip-differs", "Unmarshal(Marshal(v)) = %+v, want %+v, for %s (bytes % x)", g, w, desc, trunc(b))
	} else if g := normFlat(flatOut); !reflect.DeepEqual(g, w) {
		c.Fail("embedded:encoded-under-wrong-ids", "Marshal(v) decoded into a struct declaring the same ids directly = %+v, want %+v, for %s (bytes % x)", g, w, desc, trunc(b))
	} else if g := normFlat(flatOf(viaFlat)); !reflect.DeepEqual(g, w) {
		c.Fail("embedded:decoded-into-wrong-fields", "the encoding of the flat struct decoded into the embedding one = %+v, want %+v, for %s", g, w, desc)
	}
	c.NontrivialStr("embedded", p.Name, sh.Name, fmt.Sprint(pattern))
	c.Outcome(fmt.Sprintf("%s all=%v", p.Name, pattern == 0))
	c.Case(map[string]any{"protocol": p.Name, "shape": sh.Name, "pattern": pattern, "bytes": fmt.Sprintf("%x", trunc(b))})
}

// ---- long strings and binaries: the chunked read above 64 KiB must stop at the announced length

type longT struct {
	A int32    `thrift:"1"`
	S string   `thrift:"2"`
	B int64    `thrift:"3"`
	Y []byte   `thrift:"4"`
	C string   `thrift:"5"`
	L []string `thrift:"6"`
	D int8     `thrift:"7"`
}

var longSizes = []int{0, 1, 127, 128, 16383, 16384, 65535, 65536, 65537, 65600, 70000, 98304, 131071, 131072, 131073, 200000, 262145, 1 << 20}

func longStrings(c *explore.Ctx) {
	p := Protocols[c.Choose(len(Protocols))]
	n := longSizes[c.Choose(len(longSizes))]
	which := c.Choose(4)  // string, binary, both, list element
	reader := c.Choose(3) // Unmarshal (bytes.Reader), Decoder over a plain io.Reader, Decoder over one-byte reads
	v := longT{A: 7, B: -9, C: "tail", D: 3}
	fill := func(ch byte) string { return strings.Repeat(string(ch), n) }
	switch which {
	case 0:
		v.S = fill('s')
	case 1:
		v.Y = []byte(fill('y'))
	case 2:
		v.S, v.Y = fill('s'), []byte(fill('y'))
	case 3:
		v.L = []string{"a", fill('l'), "z"}
	}
	desc := fmt.Sprintf("a %d-byte %s followed by other fields, over %s (reader %d)", n, []string{"string", "binary", "string and binary", "list element"}[which], p.Name, reader)
	var b []byte
	var err error
	var out longT
	if pv, ps := explore.Catch(func() {
		if b, err = thrift.Marshal(p.P, v); err != nil {
			return
		}
		switch reader {
		case 0:
			err = thrift.Unmarshal(p.P, b, &out)
		case 1:
			err = thrift.NewDecoder(p.P.NewReader(plainReader{bytes.NewReader(b)})).Decode(&out)
		default:
			if n > 70000 { // one-byte reads of a megabyte add nothing
				err = thrift.Unmarshal(p.P, b, &out)
			} else {
				err = thrift.NewDecoder(p.P.NewReader(&oneByteReader{b: b})).Decode(&out)
			}
		}
	}); pv != nil {
		c.Fail("long:panic:"+ps, "panic: %v for %s", pv, desc)
		return
	}
	if err != nil {
		c.Fail("long:error:"+p.Name, "round trip fails: %v for %s", err, desc)
		return
	}
	if len(out.Y) == 0 && len(v.Y) == 0 {
		out.Y = v.Y
	}
	if !reflect.DeepEqual(out, v) {
		c.Fail("long:value-differs", "Unmarshal(Marshal(v)) != v for %s: got A=%d len(S)=%d B=%d len(Y)=%d C=%q len(L)=%d D=%d", desc, out.A, len(out.S), out.B, len(out.Y), out.C, len(out.L), out.D)
	}
	c.NontrivialStr("long", p.Name, fmt.Sprint(n, which, reader))
	c.Outcome(fmt.Sprintf("%s over64k=%v", p.Name, n > 65536))
	c.Case(map[string]any{"protocol": p.Name, "size": n, "which": which, "reader": reader, "encoded_bytes": len(b)})
}

type plainReader struct{ r *bytes.Reader }

func (p plainReader) Read(b []byte) (int, error) { return p.r.Read(b) }

type oneByteReader struct {
	b []byte
	i int
}

func (r *oneByteReader) Read(p []byte) (int, error) {
	if r.i >= len(r.b) {
		return 0, io.EOF
	}
	if len(p) == 0 {
		return 0, nil
	}
	p[0] = r.b[r.i]
	r.i++
	return 1, nil
}

// ---- histories of Marshal calls: a payload keeps its bytes while later calls are made

type histT struct {
	A int32             `thrift:"1"`
	S string            `thrift:"2"`
	L []int64           `thrift:"3"`
	M map[string]string `thrift:"4"`
}

var histValues = []histT{
	{A: 1, S: "first"},
	{A: -2, S: strings.Repeat("second", 40), L: []int64{1, 2, 3}},
	{S: "third", M: map[string]string{"k": "v"}},
	{A: 4, S: strings.Repeat("x", 5000), L: make([]int64, 300)},
	{},
}

type histEnumT struct {
	A int32  `thrift:"1"`
	S string `thrift:"2"`
	E int64  `thrift:"3,enum"`
}

// values whose encoding fails after something has already been written
var histFailing = []struct {
	name string
	v    any
}{
	{"an enum beyond 32 bits behind two other fields", histEnumT{A: 7, S: "written before the failure", E: 1 << 40}},
	{"a list whose third struct holds an enum beyond 32 bits", []histEnumT{{A: 1}, {A: 2, S: "ok"}, {E: -1 << 40}}},
}

func marshalHistories(c *explore.Ctx) {
	n := 2 + c.Choose(2)
	type call struct {
		p   int
		v   int
		b   []byte
		dup []byte
	}
	var calls []call
	for i := 0; i < n; i++ {
		calls = append(calls, call{p: c.Choose(len(Protocols)), v: c.Choose(len(histValues) + len(histFailing))})
	}
	desc := func() string {
		var parts []string
		for _, k := range calls {
			if k.v >= len(histValues) {
				parts = append(parts, fmt.Sprintf("Marshal(%s, a value that cannot be encoded: %s)", Protocols[k.p].Name, histFailing[k.v-len(histValues)].name))
				continue
			}
			parts = append(parts, fmt.Sprintf("Marshal(%s, value %d)", Protocols[k.p].Name, k.v))
		}
		return strings.Join(parts, "; ")
	}
	for i := range calls {
		k := &calls[i]
		var err error
		if k.v >= len(histValues) {
			// a call that fails after part of the value has been written
			f := histFailing[k.v-len(histValues)]
			if pv, ps := explore.Catch(func() { _, err = thrift.Marshal(Protocols[k.p].P, f.v) }); pv != nil {
				c.Fail("history:Marshal:"+ps, "Marshal of %s panics (%v) in %s", f.name, pv, desc())
				return
			} else if err == nil {
				c.Fail("history:unencodable-value-accepted", "Marshal of %s returns no error in %s", f.name, desc())
			}
			continue
		}
		if pv, ps := explore.Catch(func() { k.b, err = thrift.Marshal(Protocols[k.p].P, histValues[k.v]) }); pv != nil || err != nil {
			c.Fail("history:Marshal:"+ps, "Marshal fails (%v %v) in %s", pv, err, desc())
			return
		}
		k.dup = append([]byte(nil), k.b...)
		// every earlier payload still holds what it held when it was returned, and still decodes to its value
		for j := 0; j <= i; j++ {
			e := &calls[j]
			if e.v >= len(histValues) {
				continue
			}
			if !bytes.Equal(e.b, e.dup) {
				c.Fail("history:payload-changed-by-a-later-Marshal", "the bytes returned by call %d changed after call %d in: %s", j+1, i+1, desc())
				return
			}
			var out histT
			if err := thrift.Unmarshal(Protocols[e.p].P, e.b, &out); err != nil {
				c.Fail("history:payload-does-not-decode", "the payload of call %d fails to decode after call %d (%v) in: %s", j+1, i+1, err, desc())
				return
			}
			w := histValues[e.v]
			if len(out.L) == 0 && len(w.L) == 0 {
				out.L = w.L
			}
			if len(out.M) == 0 && len(w.M) == 0 {
				out.M = w.M
			}
			if !reflect.DeepEqual(out, w) {
				c.Fail("history:payload-decodes-to-another-value", "the payload of call %d decodes to another value after call %d in: %s", j+1, i+1, desc())
				return
			}
		}
	}
	c.NontrivialStr("history", desc())
	c.Outcome(fmt.Sprintf("calls=%d", n))
	if c.WantSample() || c.Failed() {
		c.Case(map[string]any{"calls": desc()})
	}
}

// ---- enum fields of wide integer kinds: enums are 32-bit on the wire; a value that does not fit is refused, not truncated

type enumWide struct {
	E64 int64 `thrift:"1,enum"`
	EI  int   `thrift:"2,enum"`
	E32 int32 `thrift:"3,enum"`
	E8  int8  `thrift:"4,enum"`
}

var enumValues = []int64{0, 1, -1, 63, 1<<31 - 1, -1 << 31, 1 << 31, -1<<31 - 1, 1 << 32, 1<<32 + 5, 1<<63 - 1, -1 << 63}

func enumRange(c *explore.Ctx) {
	p := Protocols[c.Choose(len(Protocols))]
	field := c.Choose(2)
	x := enumValues[c.Choose(len(enumValues))]
	v := enumWide{E32: 7, E8: -3}
	if field == 0 {
		v.E64 = x
	} else {
		v.EI = int(x)
	}
	desc := fmt.Sprintf("enum field %d (kind %s) = %d over %s", field+1, []string{"int64", "int"}[field], x, p.Name)
	var b []byte
	var err error
	var out enumWide
	if pv, ps := explore.Catch(func() {
		if b, err = thrift.Marshal(p.P, v); err == nil {
			err = thrift.Unmarshal(p.P, b, &out)
		}
	}); pv != nil {
		c.Fail("enum:panic:"+ps, "round trip panics: %v for %s", pv, desc)
		return
	}
	fits := x >= -1<<31 && x <= 1<<31-1
	switch {
	case err != nil && fits:
		c.Fail("enum:error", "round trip fails: %v for %s", err, desc)
	case err == nil && out != v:
		c.Fail("enum:value-differs", "Unmarshal(Marshal(v)) = %+v, want %+v (no error reported) for %s", out, v, desc)
	}
	c.NontrivialStr("enum", p.Name, fmt.Sprint(field, x))
	c.Outcome(fmt.Sprintf("fits=%v err=%v", fits, err != nil))
	c.Case(map[string]any{"protocol": p.Name, "field": field, "value": x, "error": fmt.Sprint(err)})
}

// ---- unions as map values and list elements: the union interface points at the member of its own copy

type unionHolder struct {
	M map[string]unionV `thrift:"1"`
	L []unionV          `thrift:"2"`
	P map[int32]*unionV `thrift:"3"`
}

func mkUnion(member int) unionV {
	var v unionV
	switch member {
	case 0:
		a := true
		v.A, v.F = a, &a
	case 1:
		b := int32(42)
		v.B, v.F = b, &b
	case 2:
		s := "x"
		v.C, v.F = s, &s
	}
	return v
}

func unionMember(u unionV) (int, string) {
	switch f := u.F.(type) {
	case *bool:
		return 0, fmt.Sprint(*f)
	case *int32:
		return 1, fmt.Sprint(*f)
	case *string:
		return 2, *f
	}
	return 3, ""
}

func unionContainers(c *explore.Ctx) {
	p := Protocols[c.Choose(len(Protocols))]
	m1, m2 := c.Choose(3), c.Choose(3)
	place := c.Choose(3)
	var v unionHolder
	u1, u2 := mkUnion(m1), mkUnion(m2)
	switch place {
	case 0:
		v.M = map[string]unionV{"a": u1, "b": u2}
	case 1:
		v.L = []unionV{u1, u2}
	case 2:
		v.P = map[int32]*unionV{1: &u1, 2: &u2}
	}
	desc := fmt.Sprintf("unions selecting members %d and %d as %s over %s", m1, m2, []string{"map values", "list elements", "map values behind pointers"}[place], p.Name)
	var out unionHolder
	var err error
	if pv, ps := explore.Catch(func() {
		var b []byte
		if b, err = thrift.Marshal(p.P, v); err == nil {
			err = thrift.Unmarshal(p.P, b, &out)
		}
	}); pv != nil {
		c.Fail("union-container:panic:"+ps, "round trip panics: %v for %s", pv, desc)
		return
	}
	if err != nil {
		c.Fail("union-container:error", "round trip fails: %v for %s", err, desc)
		return
	}
	var got []unionV
	switch place {
	case 0:
		got = []unionV{out.M["a"], out.M["b"]}
	case 1:
		got = out.L
	case 2:
		if out.P[1] != nil && out.P[2] != nil {
			got = []unionV{*out.P[1], *out.P[2]}
		}
	}
	if len(got) != 2 {
		c.Fail("union-container:count", "the %s come back as %d elements for %s", []string{"map values", "list elements", "map values"}[place], len(got), desc)
	} else {
		for i, w := range []unionV{u1, u2} {
			gm, gv := unionMember(got[i])
			wm, wv := unionMember(w)
			if gm != wm || gv != wv || got[i].A != w.A || got[i].B != w.B || got[i].C != w.C {
				c.Fail("union-container:member-differs", "element %d comes back selecting member %d holding %q (A=%v B=%d C=%q), want member %d holding %q, for %s", i, gm, gv, got[i].A, got[i].B, got[i].C, wm, wv, desc)
				break
			}
		}
	}
	c.NontrivialStr("union-container", p.Name, fmt.Sprint(m1, m2, place))
	c.Outcome(fmt.Sprintf("%s place=%d", p.Name, place))
	c.Case(map[string]any{"protocol": p.Name, "members": []int{m1, m2}, "place": place})
}

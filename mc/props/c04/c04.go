// Package c04: thrift Unmarshal(Marshal(v)) == v for binary and compact protocols (DESIGN.md §5 C04).
package c04

import (
	"bytes"
	"fmt"
	"reflect"
	"strings"

	"github.com/segmentio/encoding/thrift"
	"verif/mc/explore"
	"verif/mc/gen/pgen"
	"verif/mc/gen/tgen"
)

var Protocols = []struct {
	Name string
	P    thrift.Protocol
}{
	{"binary-strict", &thrift.BinaryProtocol{}},
	{"binary-nonstrict", &thrift.BinaryProtocol{NonStrict: true}},
	{"compact", &thrift.CompactProtocol{}},
}

func trunc(b []byte) []byte {
	if len(b) > 48 {
		return b[:48]
	}
	return b
}

type other struct {
	A bool   `thrift:"1"`
	B int32  `thrift:"2"`
	C string `thrift:"20"`
}

// shapeAt names the field shape at a diff path ".F<i>..." for signature localisation.
func shapeAt(s *tgen.Struct, path string) string {
	var i int
	if _, err := fmt.Sscanf(path, ".F%d", &i); err == nil && i < len(s.Fields) {
		return s.Fields[i].Shape() + idClass(s)
	}
	return typeShape(s)
}

func typeShape(s *tgen.Struct) string {
	var parts []string
	for _, f := range s.Fields {
		parts = append(parts, f.Shape())
	}
	out := strings.Join(parts, ";")
	if len(out) > 100 {
		out = out[:100]
	}
	return out + idClass(s)
}

// idClass classifies the id layout: gaps > 15, id range >= 64.
func idClass(s *tgen.Struct) string {
	if len(s.Fields) == 0 {
		return ""
	}
	mn, mx := s.Fields[0].ID, s.Fields[0].ID
	for _, f := range s.Fields {
		if f.ID < mn {
			mn = f.ID
		}
		if f.ID > mx {
			mx = f.ID
		}
	}
	switch {
	case mx-mn >= 64:
		return "#range>=64"
	case mx > 15:
		return "#id>15"
	}
	return ""
}

func roundtrip(c *explore.Ctx) {
	pgen.FloatsByValue = true // -0 and +0 are the same value (a zero field is omitted either way)
	s := tgen.EnumStruct(c, tgen.Options{MaxFields: 3, Thorough: c.Thorough()})
	v := tgen.EnumValue(c, s)
	pi := c.Choose(len(Protocols))
	mode := c.Choose(3) // 0 Marshal/Unmarshal; 1 reused Encoder/Decoder after Reset from another protocol; 2 Encoder/Decoder fresh
	p := Protocols[pi]
	desc := fmt.Sprintf("%s = %s over %s", s, tgen.Describe(v), p.Name)
	tshape := typeShape(s)

	var b []byte
	var err error
	pv, ps := explore.Catch(func() { b, err = thrift.Marshal(p.P, v.Interface()) })
	if pv != nil {
		c.Fail("Marshal:panic:"+ps+":"+explore.PanicClass(pv), "Marshal panicked: %v for %s", pv, desc)
		c.Outcome("panic")
		return
	}
	if err != nil {
		c.Fail("Marshal:error:"+tshape, "Marshal failed: %v for %s", err, desc)
		return
	}
	deterministic := !tgen.HasMultiEntryMap(v)

	decodeInto := func(tag string, run func(out any) error) (reflect.Value, bool) {
		out := reflect.New(s.Type)
		var derr error
		if pv, ps := explore.Catch(func() { derr = run(out.Interface()) }); pv != nil {
			c.Fail(tag+":panic:"+ps+":"+explore.PanicClass(pv), "%s panicked: %v for %s (bytes % x)", tag, pv, desc, trunc(b))
			return out, false
		}
		if derr != nil {
			c.Fail(tag+":error:"+p.Name+":"+tshape, "%s failed: %v for %s (bytes % x)", tag, derr, desc, trunc(b))
			return out, false
		}
		return out, true
	}
	if out, ok := decodeInto("Unmarshal", func(o any) error { return thrift.Unmarshal(p.P, b, o) }); ok {
		for _, d := range pgen.Diffs(v, out.Elem()) {
			c.Fail("roundtrip:value-differs:"+p.Name+":"+shapeAt(s, d.Path), "Unmarshal(Marshal(v)) != v at %s: %s for %s (bytes % x)", d.Path, d.Why, desc, trunc(b))
		}
	}

	if mode >= 1 {
		// Encoder: fresh, or Reset after use with another protocol
		q := Protocols[(pi+1+c.Choose(2))%3]
		var buf bytes.Buffer
		var enc *thrift.Encoder
		if mode == 1 {
			var junk bytes.Buffer
			enc = thrift.NewEncoder(q.P.NewWriter(&junk))
			enc.Encode(other{A: true, B: 7, C: "x"})
			enc.Reset(p.P.NewWriter(&buf))
		} else {
			enc = thrift.NewEncoder(p.P.NewWriter(&buf))
		}
		var eerr error
		if pv, ps := explore.Catch(func() { eerr = enc.Encode(v.Interface()) }); pv != nil {
			c.Fail("Encoder:panic:"+ps, "Encoder.Encode panicked: %v for %s", pv, desc)
		} else if eerr != nil {
			c.Fail("Encoder:error:"+tshape, "Encoder.Encode failed: %v for %s (mode %d, previous protocol %s)", eerr, desc, mode, q.Name)
		} else if deterministic && !bytes.Equal(buf.Bytes(), b) {
			c.Fail(fmt.Sprintf("Encoder:bytes-differ-from-Marshal:reset=%v:%s->%s", mode == 1, q.Name, p.Name), "Encoder (mode %d, previous protocol %s) wrote % x, Marshal % x for %s", mode, q.Name, trunc(buf.Bytes()), trunc(b), desc)
		}
		eb := buf.Bytes()
		// Decoder likewise
		var dec *thrift.Decoder
		if mode == 1 {
			ob, _ := thrift.Marshal(q.P, other{A: true, B: 7, C: "x"})
			dec = thrift.NewDecoder(q.P.NewReader(bytes.NewReader(ob)))
			var o other
			dec.Decode(&o)
			dec.Reset(p.P.NewReader(bytes.NewReader(eb)))
		} else {
			dec = thrift.NewDecoder(p.P.NewReader(bytes.NewReader(eb)))
		}
		if out, ok := decodeInto("Decoder", func(o any) error { return dec.Decode(o) }); ok {
			for _, d := range pgen.Diffs(v, out.Elem()) {
				c.Fail(fmt.Sprintf("Decoder:value-differs:reset=%v:%s->%s:%s", mode == 1, q.Name, p.Name, shapeAt(s, d.Path)), "Decoder (mode %d, previous protocol %s) decodes differently at %s: %s for %s", mode, q.Name, d.Path, d.Why, desc)
			}
		}
	}
	c.NontrivialStr(s.String(), tgen.Describe(v), p.Name, fmt.Sprint(mode))
	c.Outcome(fmt.Sprintf("%s mode=%d empty=%v", p.Name, mode, len(b) <= 3))
	if c.WantSample() || c.Failed() {
		c.Case(map[string]any{"type": s.String(), "value": tgen.Describe(v), "protocol": p.Name, "mode": mode, "bytes": fmt.Sprintf("%x", trunc(b))})
	}
}

// ---- unions: the interface field tagged union selects the member

type unionV struct {
	A bool   `thrift:"1"`
	B int32  `thrift:"2"`
	C string `thrift:"3"`
	F any    `thrift:",union"`
}

func unionRoundTrip(c *explore.Ctx) {
	p := Protocols[c.Choose(len(Protocols))]
	member := c.Choose(4) // A, B, C, none
	zero := c.Bool()      // the selected member holds its zero value
	var v unionV
	switch member {
	case 0:
		a := !zero
		v.A, v.F = a, &a
	case 1:
		b := int32(42)
		if zero {
			b = 0
		}
		v.B, v.F = b, &b
	case 2:
		s := "x"
		if zero {
			s = ""
		}
		v.C, v.F = s, &s
	}
	desc := fmt.Sprintf("union with member %d selected (zero value: %v) over %s", member, zero, p.Name)
	var b []byte
	var err error
	var out unionV
	if pv, ps := explore.Catch(func() {
		b, err = thrift.Marshal(p.P, v)
		if err == nil {
			err = thrift.Unmarshal(p.P, b, &out)
		}
	}); pv != nil {
		c.Fail("union:panic:"+ps, "round trip panics: %v for %s", pv, desc)
		return
	}
	if err != nil {
		c.Fail("union:error", "round trip fails: %v for %s", err, desc)
		return
	}
	sel := func(u unionV) int {
		switch u.F.(type) {
		case *bool:
			return 0
		case *int32:
			return 1
		case *string:
			return 2
		}
		return 3
	}
	if sel(out) != sel(v) || out.A != v.A || out.B != v.B || out.C != v.C {
		if member != 3 && zero && sel(out) == 3 {
			c.Fail("union:zero-valued-member-lost", "the selected member %d holds its zero value: nothing is written (bytes % x) and the union comes back empty, for %s", member, b, desc)
		} else {
			c.Fail("union:value-differs", "Unmarshal(Marshal(v)) = %+v (selected %d), want %+v (selected %d), for %s", out, sel(out), v, sel(v), desc)
		}
	}
	c.NontrivialStr("union", p.Name, fmt.Sprint(member, zero))
	c.Outcome(fmt.Sprintf("member=%d zero=%v", member, zero))
	c.Case(map[string]any{"protocol": p.Name, "member": member, "zero_value": zero, "bytes": fmt.Sprintf("%x", b)})
}

// ---- collection lengths: short-form boundaries of the compact headers and the chunked growth of long lists

type lenItem struct {
	A int16  `thrift:"1"`
	B string `thrift:"2"`
}

type lenT struct {
	L  []int32            `thrift:"1"`
	S  []string           `thrift:"2"`
	LS []lenItem          `thrift:"3"`
	M  map[int32]int64    `thrift:"4"`
	E  map[int32]struct{} `thrift:"5"`
	LL [][]int8           `thrift:"6"`
	LB []bool             `thrift:"7"`
	D  []float64          `thrift:"8"`
}

var collectionLengths = []int{0, 1, 2, 14, 15, 16, 17, 127, 128, 129, 1023, 1024, 1025, 1500, 2047, 2048, 2049, 3000, 5000}

func collectionLens(c *explore.Ctx) {
	n := collectionLengths[c.Choose(len(collectionLengths))]
	which := c.Choose(8)
	p := Protocols[c.Choose(len(Protocols))]
	var v lenT
	name := ""
	switch which {
	case 0:
		name = "list<i32>"
		for i := 0; i < n; i++ {
			v.L = append(v.L, int32(i*7-3))
		}
	case 1:
		name = "list<string>"
		for i := 0; i < n; i++ {
			v.S = append(v.S, fmt.Sprint("s", i))
		}
	case 2:
		name = "list<struct>"
		for i := 0; i < n; i++ {
			v.LS = append(v.LS, lenItem{A: int16(i), B: "b"})
		}
	case 3:
		name = "map<i32,i64>"
		if n > 0 {
			v.M = map[int32]int64{}
		}
		for i := 0; i < n; i++ {
			v.M[int32(i)] = int64(i) << 20
		}
	case 4:
		name = "set<i32>"
		if n > 0 {
			v.E = map[int32]struct{}{}
		}
		for i := 0; i < n; i++ {
			v.E[int32(i*3)] = struct{}{}
		}
	case 5:
		name = "list<list<i8>>"
		for i := 0; i < n; i++ {
			v.LL = append(v.LL, []int8{int8(i), 1})
		}
	case 6:
		name = "list<bool>"
		for i := 0; i < n; i++ {
			v.LB = append(v.LB, i%3 == 0)
		}
	case 7:
		name = "list<double>"
		for i := 0; i < n; i++ {
			v.D = append(v.D, float64(i)+0.5)
		}
	}
	desc := fmt.Sprintf("%s of %d elements over %s", name, n, p.Name)
	var b []byte
	var err error
	if pv, ps := explore.Catch(func() { b, err = thrift.Marshal(p.P, v) }); pv != nil || err != nil {
		c.Fail("lengths:Marshal:"+ps, "Marshal fails (%v %v) for %s", pv, err, desc)
		return
	}
	var out lenT
	var uerr error
	if pv, ps := explore.Catch(func() { uerr = thrift.Unmarshal(p.P, b, &out) }); pv != nil {
		c.Fail("lengths:Unmarshal:panic:"+ps, "Unmarshal panicked: %v for %s", pv, desc)
		return
	}
	if uerr != nil {
		c.Fail("lengths:Unmarshal:error:"+p.Name+":"+name, "Unmarshal fails: %v for %s", uerr, desc)
		return
	}
	if !reflect.DeepEqual(out, v) {
		got := map[string]int{"L": len(out.L), "S": len(out.S), "LS": len(out.LS), "M": len(out.M), "E": len(out.E), "LL": len(out.LL), "LB": len(out.LB), "D": len(out.D)}
		c.Fail("lengths:value-differs:"+name, "Unmarshal(Marshal(v)) != v for %s (decoded lengths %v)", desc, got)
	}
	c.NontrivialStr("len", name, p.Name, fmt.Sprint(n))
	c.Outcome(fmt.Sprintf("%s long=%v", p.Name, n > 1024))
	c.Case(map[string]any{"collection": name, "elements": n, "protocol": p.Name, "encoded_bytes": len(b)})
}

// Spec returns the C04 check.
func Spec() *explore.Spec {
	return &explore.Spec{
		ID: "C04",
		Families: []*explore.Family{
			{Name: "union", ShardDepth: 2, Body: unionRoundTrip, Doc: "a struct with a `thrift:\",union\"` interface field: each member selected (or none), holding a non-zero or its zero value x 3 protocols: the selection and the values survive the round trip"},
			{Name: "enum-range", ShardDepth: 2, Body: enumRange, Doc: "enum fields of kind int64 and int holding 12 values around the int32 range (enums are 32-bit on the wire) x 3 protocols: Marshal reports an error for a value that does not fit, or the value survives the round trip - it is never truncated silently"},
			{Name: "union-containers", ShardDepth: 2, Body: unionContainers, Doc: "two unions (3 x 3 member selections) as map values, list elements and map values behind pointers x 3 protocols: each comes back selecting its member with its value"},
			{Name: "embedded", ShardDepth: 2, Body: embedded, Doc: "struct types whose fields are promoted through 1..5 levels of embedded structs, through embedded pointers, and through two embedded siblings: every field alone and all together (13 patterns) x 3 protocols; round trip, the encoding decoded into a flat struct declaring the same ids, and the flat struct's encoding decoded into the embedding type"},
			{Name: "long-strings", ShardDepth: 2, Body: longStrings, Doc: "strings, binaries and list elements of 18 lengths (0 .. 1 MiB, around 16 KiB, 64 KiB, 128 KiB, 256 KiB) between other fields x 3 protocols x {Unmarshal, Decoder over a plain reader, Decoder over one-byte reads}: the value and the fields after it survive"},
			{Name: "marshal-histories", ShardDepth: 2, Body: marshalHistories, Doc: "every sequence of 2-3 Marshal calls over 3 protocols x 5 values and 2 values that cannot be encoded (the call fails after part of the value has been written): each returned payload keeps its bytes and decodes to its value after every later call"},
			{Name: "collection-lengths", ShardDepth: 2, Body: collectionLens, Doc: "lists of 7 element kinds, a map and a set with 0..17, 127..129, 1023..1025, 1500, 2047..2049, 3000, 5000 elements (compact short-form boundary at 15, the decoder's chunked growth beyond 1024) x 3 protocols"},
			{Name: "roundtrip", ShardDepth: 2, Body: roundtrip, Bound: func(tier string) int {
				if tier == "thorough" {
					return 2
				}
				return 1
			},
				Doc: "struct types of 1-3 fields from a palette of ~90 field shapes (all integer widths, bool, doubles, string, binary, pointers, lists, sets, maps, nested/pointer/list-of structs with bools in every position, required/optional/enum options) x 9 field-id layouts (any declaration order, gaps > 15, ranges > 64 and > 128) x values (all-typical / all-zero base + deviations, list lengths 0,1,14,15,16,100) x {binary strict, binary non-strict, compact} x {Marshal/Unmarshal, fresh Encoder/Decoder, Encoder/Decoder Reset after use with another protocol}"},
		},
		Rule: "every (type, id layout, value, protocol, codec-object mode) within the deviation bound; distinct non-trivial = distinct tuples",
		Assumptions: []string{
			"required fields are always set in generated values; nil and empty collections are identified; floats compared by bits (no NaN in the domain)",
			"unsigned Go integer kinds are not generated (unsupported types); unions and embedded structs have families of their own",
			"byte equality between a reused Encoder and Marshal is only demanded for values without multi-entry maps/sets (iteration order)",
		},
	}
}

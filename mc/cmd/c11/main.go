package main

import (
	"verif/mc/explore"
	"verif/mc/props/c11"
)

func main() { explore.Main(c11.Spec()) }

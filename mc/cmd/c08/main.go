package main

import (
	"verif/mc/explore"
	"verif/mc/props/c08"
)

func main() { explore.Main(c08.Spec()) }

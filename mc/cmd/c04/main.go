package main

import (
	"verif/mc/explore"
	"verif/mc/props/c04"
)

func main() { explore.Main(c04.Spec()) }

package main

import (
	"verif/mc/explore"
	"verif/mc/props/c14"
)

func main() { explore.Main(c14.Spec()) }

package main

import (
	"verif/mc/explore"
	"verif/mc/props/c19"
)

func main() { explore.Main(c19.Spec()) }

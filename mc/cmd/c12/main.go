package main

import (
	"verif/mc/explore"
	"verif/mc/props/c12"
)

func main() { explore.Main(c12.Spec()) }

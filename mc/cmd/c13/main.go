package main

import (
	"verif/mc/explore"
	"verif/mc/props/c13"
)

func main() { explore.Main(c13.Spec()) }

package main

import (
	"verif/mc/explore"
	"verif/mc/props/c16"
)

func main() { explore.Main(c16.Spec()) }

package main

import (
	"verif/mc/explore"
	"verif/mc/props/c02"
)

func main() { explore.Main(c02.Spec()) }

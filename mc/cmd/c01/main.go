package main

import (
	"verif/mc/explore"
	"verif/mc/props/c01"
)

func main() { explore.Main(c01.Spec()) }

package main

import (
	"verif/mc/explore"
	"verif/mc/props/c03"
)

func main() { explore.Main(c03.Spec()) }

package main

import (
	"verif/mc/explore"
	"verif/mc/props/c18"
)

func main() { explore.Main(c18.Spec()) }

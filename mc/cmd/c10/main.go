//go:build verifshim

package main

import (
	"verif/mc/explore"
	"verif/mc/props/c10"
)

func main() { explore.Main(c10.Spec()) }

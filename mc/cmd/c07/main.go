package main

import (
	"verif/mc/explore"
	"verif/mc/props/c07"
)

func main() { explore.Main(c07.Spec()) }

package main

import (
	"os"

	"verif/mc/explore"
	"verif/mc/props/c09"
)

func main() {
	if len(os.Args) > 1 && os.Args[1] == "--race-child" {
		c09.RaceChild(os.Args[2:])
		return
	}
	explore.Main(c09.Spec())
}

//go:build verifshim

package main

import (
	"verif/mc/explore"
	"verif/mc/props/c17"
)

func main() { explore.Main(c17.Spec()) }

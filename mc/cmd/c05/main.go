package main

import (
	"verif/mc/explore"
	"verif/mc/props/c05"
)

func main() { explore.Main(c05.Spec()) }

package main

import (
	"verif/mc/explore"
	"verif/mc/props/c15"
)

func main() { explore.Main(c15.Spec()) }

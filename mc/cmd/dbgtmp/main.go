package main

import (
	"fmt"
	"os"
	"reflect"

	"github.com/segmentio/encoding/json"
	"verif/mc/gen/jgen"
)

func main() {
	t := reflect.TypeOf([1]jgen.RecPM{})
	dom := jgen.CachedDomain(t)
	i := 0
	fmt.Sscan(os.Args[1], &i)
	v := dom[i]
	fmt.Printf("value %d: %#v\n", i, v.Interface())
	if os.Args[2] == "v" {
		b, err := json.Marshal(v.Interface())
		fmt.Println(string(b), err)
	} else {
		p := reflect.New(t)
		p.Elem().Set(v)
		b, err := json.Marshal(p.Interface())
		fmt.Println(string(b), err)
	}
}

package main

import (
	"os"

	"verif/mc/explore"
	"verif/mc/props/c06"
)

func main() {
	if len(os.Args) > 1 && os.Args[1] == "--ladder-child" {
		c06.Child(os.Args[2:])
		return
	}
	explore.Main(c06.Spec())
}

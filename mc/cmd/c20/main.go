package main

import (
	"verif/mc/explore"
	"verif/mc/props/c20"
)

func main() { explore.Main(c20.Spec()) }
